"""C10 — Semaphore and CapacityLimiter: correspondence of prims/Sem.v and prims/Limiter.v with the real
anyio.Semaphore / anyio.CapacityLimiter on SchedLoop, plus model-independent history monitors.

Case formats (exactly the codecs of the Coq models):
  Sem      [fast, initial_value, max_code(0=None, m+1)] + [c, t]*      c: 0 acquire 1 acquire_nowait 2 release
                                                                        3 Resume 4 Cancel
           5 acquire() called inside `with CancelScope() as outer: with CancelScope() as inner:` after outer.cancel():
             checkpoint_if_cancelled() sees the cancelled scope and yields;  6 CheckPasses: the harness (standing for
             another task) sets inner.shield = True and runs the task's step: the check re-reads the scope chain, finds
             the cancelled scope cut off and returns normally - acquire() goes on (F46/F53)
           observation per step: [res, value, max_code, tasks_waiting]
  Limiter  [total_code(-1=inf)] + [c, t, x]*   c: 0 acquire_on_behalf_of(x) 1 ..._nowait(x) 2 release_on_behalf_of(x)
                                                  3 Resume 4 Cancel 5 total_tokens = x (-1 = inf) 6 total_tokens = bad[x]
           observation per step: [res, borrowed, total_code, avail_code, tasks_waiting, n, sorted borrowers...]
  res: 0 returned 1 blocked 2 CancelledError 3 RuntimeError 4 WouldBlock 5 (environment op) 6 ValueError 7 TypeError
       8 unexpected exception class, 9 (model only) rejected
Borrower x == t means the calling task itself (acquire()/acquire_nowait()/release() are used then); x <= ntasks is
another puppet's task object; x >= 11 is a foreign object.
"""

from __future__ import annotations

import asyncio
import json
import math
import random
import sys
from asyncio import CancelledError

import core
import tiegen

DRIVERS = [("sem", "Sem"), ("limiter", "LimiterEntry")]

INF_CODE = 1000000
SEM_OPS = {0: "acquire", 1: "acquire_nowait", 2: "release", 3: "Resume", 4: "Cancel",
           5: "acquire_under_cancelled_scope", 6: "CheckPasses"}
LIM_OPS = {0: "acquire_on_behalf_of", 1: "acquire_on_behalf_of_nowait", 2: "release_on_behalf_of", 3: "Resume",
           4: "Cancel", 5: "set_total_tokens", 6: "set_total_tokens_bad",
           10: "acquire_on_behalf_of[in cancelled scope]", 11: "SpinCancel", 12: "SpinReturn", 13: "spinner step/cancel"}
BAD_TOTALS = [1.5, -1, -math.inf, math.nan, "x"]
BAD_TOTAL_CODE = [7, 6, 6, 7, 7]

def code_of(outcome) -> int:
    import anyio

    if outcome is None:
        return 5
    kind, val = outcome
    if kind == "ok":
        # an acquire() made under a cancelled scope whose CancelledError was swallowed by that scope's __exit__
        return 2 if val == "cancelled" else 0
    if kind == "blocked":
        return 1
    if isinstance(val, CancelledError):
        return 2
    if isinstance(val, anyio.WouldBlock):
        return 4
    if isinstance(val, RuntimeError):
        return 3
    if isinstance(val, ValueError):
        return 6
    if isinstance(val, TypeError):
        return 7
    return 8


# OBSERVATION (not a finding, decided by the lead): SemaphoreAdapter - the object anyio.Semaphore(...) returns while
# no event loop runs - does not forward `fast_acquire` to the backend semaphore.  No clause of C10 (nor C08) is
# violated: acquire() still checks and yields, it merely yields although the fast mode was requested.  Exactly this
# parameter of exactly this adapter is therefore recorded in the evidence (coverage.observations) and such runs are
# compared with the fast_acquire=False model; every other un-forwarded / un-honoured parameter is a VIOLATION.
OBS_A1 = "semaphore_adapter_ignores_fast_acquire"
OBS_A1_TEXT = ("anyio.Semaphore(..., fast_acquire=True) created while no event loop is running (SemaphoreAdapter) does "
               "not forward fast_acquire to the backend semaphore: acquire() of a free semaphore yields; observation, "
               "no C10 clause involved; LockAdapter forwards it")


class BaseRun:
    def _open(self, ntasks, make, adapter=False):
        """make(anyio) builds the primitive.  adapter=False: inside the running loop (backend class);
        adapter=True: BEFORE the loop runs - anyio hands out the *Adapter class, which creates the backend object
        lazily at first use inside the loop."""
        import anyio
        from puppet import World

        self.anyio = anyio
        self.adapter = adapter
        self.world = World()
        self.ntasks = ntasks
        self.ops: list[int] = []
        self.outs: list[int] = []
        self.mon: list[str] = []
        self.flags: set[str] = set()
        self.observed: set[str] = set()    # recorded observations (never suppress a monitor of a C10 clause)
        self._sess = self.world.session()
        if adapter:
            self.obj = make(anyio)
            self._sess.__enter__()
            if not type(self.obj).__name__.endswith("Adapter"):
                self.hit(f"creation outside the loop returned {type(self.obj).__name__}, not an adapter")
            self.flags.add("adapter_mode")
        else:
            self._sess.__enter__()
            self.obj = make(anyio)
            if type(self.obj).__name__.endswith("Adapter"):
                self.hit(f"creation inside the loop returned the adapter {type(self.obj).__name__}")

    def _spawn(self):
        for t in range(1, self.ntasks + 1):
            self.world.spawn(t)
        self.tid_of = {id(p.task): t for t, p in self.world.puppets.items()}

    def __enter__(self):
        return self

    def __exit__(self, *a):
        self.world.close()
        self._sess.__exit__(*a)
        # drop the loop / tasks / primitive: only the recorded history is needed from here on
        self.world = None
        self.sem = self.lim = self.obj = None
        self.tid_of = None

    def runnable_set(self):
        return {t for t, p in self.world.puppets.items() if not p.at_decision and self.world.runnable(p)}

    def hit(self, msg):
        self.mon.append(msg)


# =====================================================================================================
# Semaphore
# =====================================================================================================

class SemRun(BaseRun):
    W = 2  # ints per op
    OW = 4  # ints per observation

    def __init__(self, fast: bool, init: int, maxv, ntasks: int, adapter: bool = False):
        self._open(ntasks, lambda anyio: anyio.Semaphore(init, max_value=maxv, fast_acquire=fast), adapter)
        self.fast, self.init, self.maxv = fast, init, maxv
        self.fast_eff = fast             # what the object does (differs from `fast` only under finding A1)
        self.sem = self.obj
        self._spawn()
        o = self.observe()
        if o != [init, 0 if maxv is None else maxv + 1, 0]:
            self.hit(f"construction parameters not honoured: value/max_value/tasks_waiting = {o} right after Semaphore({init}, max_value={maxv})")
        # monitor state (history only)
        self.heldc = {t: 0 for t in range(1, ntasks + 1)}
        self.extra = 0
        self.dropped = 0
        self.waitq: list[int] = []       # waiting tasks (arrival order) that were not handed a permit yet
        self.cancel_req: set[int] = set()  # of those: cancellation requested
        self.reserved: set[int] = set()  # permit reserved, acquire() not returned: fast yield or handed off
        self.cancelled_res: set[int] = set()  # reserved tasks with a cancellation request
        self.fyset: set[int] = set()     # reserved tasks that are in the shielded yield
        self.ckyield: set[int] = set()   # tasks suspended in the cancellation check at the start of acquire()
        self.ck_cancel: set[int] = set() # of those: Task.cancel() requested

    def header(self):
        return [1 if self.fast_eff else 0, self.init, 0 if self.maxv is None else self.maxv + 1]

    def params(self):
        return {"prim": "sem", "fast": self.fast, "init": self.init, "max": self.maxv, "ntasks": self.ntasks,
                "adapter": self.adapter}

    def observe(self):
        s = self.sem
        mv = s.max_value
        return [s.value, 0 if mv is None else mv + 1, s.statistics().tasks_waiting]

    def enabled(self):
        en = []
        for t, p in self.world.puppets.items():
            if p.at_decision:
                en += [(0, t), (1, t), (2, t), (5, t)]
            else:
                if self.world.runnable(p):
                    en.append((3, t))
                    if t in self.ckyield:
                        en.append((6, t))
                en.append((4, t))
        return en

    def weight(self, op, w):
        c, t = op
        x = w[c]
        if c == 2 and self.heldc[t] == 0:
            x *= w.get("extra", 0.2)
        return x

    def do(self, c: int, t: int):
        w, sem = self.world, self.sem
        before = self.observe()
        run_before = self.runnable_set()
        if c == 0:
            async def cmd(p):
                await sem.acquire()
            out = w.act(t, cmd)
        elif c == 1:
            async def cmd(p):
                sem.acquire_nowait()
            out = w.act(t, cmd)
        elif c == 2:
            async def cmd(p):
                sem.release()
            out = w.act(t, cmd)
        elif c == 3:
            out = w.resume(t)
        elif c == 5:
            CancelScope = self.anyio.CancelScope

            async def cmd(p):
                res = "ok"
                with CancelScope() as outer:
                    with CancelScope() as inner:
                        p.ck_inner = inner
                        outer.cancel()      # a cancelled scope is now visible to this task
                        try:
                            await sem.acquire()
                        except CancelledError:
                            res = "cancelled"
                            raise
                return res
            out = w.act(t, cmd)
        elif c == 6:
            # another task cuts the waiting task off from the cancelled scope; then the task's step runs
            w.puppets[t].ck_inner.shield = True
            out = w.resume(t)
        else:
            w.puppets[t].task.cancel()
            out = None
        k = code_of(out)
        after = self.observe()
        self.ops += [c, t]
        self.outs += [k] + after
        self.monitor(c, t, k, before, after, run_before, self.runnable_set(), out)

    # -- property monitors on the observable history (independent of the model) --
    def _released(self, what, before, after, run_before, run_after):
        """A permit was given back (release() accepted, or the internal release of a cancelled grantee):
        it must go to the first live waiter, else value += 1."""
        live = [x for x in self.waitq if x not in self.cancel_req]
        newly = run_after - run_before
        if live:
            wtr = live[0]
            if after[0] != before[0]:
                self.hit(f"{what}: value changed {before[0]}->{after[0]} although live waiter {wtr} queues")
            if newly != {wtr}:
                self.hit(f"FIFO: {what} woke {sorted(newly)} but the first live waiter is {wtr} (queue {self.waitq}, cancelled {sorted(self.cancel_req)})")
            self.waitq.remove(wtr)
            self.reserved.add(wtr)
            self.flags.add("handoff")
        else:
            if after[0] != before[0] + 1:
                self.hit(f"{what}: no live waiter but value {before[0]}->{after[0]} (permit lost or duplicated)")
            if newly:
                self.hit(f"{what}: woke {sorted(newly)} although no live waiter")
            if self.waitq:
                self.flags.add("release_skips_cancelled")

    def monitor(self, c, t, k, before, after, run_before, run_after, out):
        if k == 8:
            self.hit(f"unexpected exception from {SEM_OPS[c]}({t}): {out[1]!r}")
        mx = self.maxv
        passed = False
        if c == 5:
            # acquire() under a visible cancelled scope: the cancellation check comes first and yields, nothing of
            # the semaphore is touched (uncontended and contended path alike)
            self.flags.add("acquire_under_cancelled_scope")
            if k != 1 or after != before:
                self.hit(f"acquire() under a cancelled scope: res {k}, state {before}->{after} before the cancellation check (expected: the check yields first, nothing touched)")
            if k == 1:
                self.ckyield.add(t)
                if after[2] > before[2]:        # it queued instead (pre-F53 contended path): an ordinary waiter
                    self.ckyield.discard(t)
                    self.waitq.append(t)
        elif c == 6 and t in self.ckyield:
            self.ckyield.discard(t)
            if t in self.ck_cancel:
                self.ck_cancel.discard(t)
                if k != 2 or after != before:
                    self.hit(f"cancelled task {t} in the cancellation check: res {k}, state {before}->{after}")
            else:
                passed = True
                self.flags.add("check_passes_after_yield")
                if before[0] == 0 or before[2] > 0:
                    self.flags.add("check_passes_permit_gone_meanwhile")
        if c == 0 or passed:
            # (a check that yielded and then returned continues like a fresh acquire(): test and take NOW)
            if before[0] > 0 and before[2] == 0:
                # uncontended path
                if after[0] != before[0] - 1:
                    self.hit(f"acquire on the uncontended path: value {before[0]}->{after[0]}")
                if self.fast_eff and k == 1 and self.adapter:
                    # fast_acquire not honoured by SemaphoreAdapter: the recorded observation (see OBS_A1), only for
                    # this parameter of this adapter; the run continues against the fast_acquire=False model
                    self.observed.add(OBS_A1)
                    self.flags.add("a1_adapter_ignores_fast_acquire")
                    self.fast_eff = False
                if self.fast_eff:
                    if k != 0:
                        self.hit(f"construction parameter fast_acquire=True not honoured: acquire on a free semaphore ended with {k}")
                    else:
                        self.heldc[t] += 1
                else:
                    if k != 1:
                        self.hit(f"construction parameter fast_acquire=False not honoured: acquire on a free semaphore did not yield (res {k})")
                    else:
                        self.reserved.add(t)
                        self.fyset.add(t)
                        self.flags.add("fastpath_yield")
            else:
                if k != 1:
                    self.hit(f"acquire by {t} with value={before[0]}, waiting={before[2]} did not block (res {k}): permit granted that is not free / barging")
                    if k == 0:
                        self.heldc[t] += 1
                else:
                    self.waitq.append(t)
                    self.flags.add("contended_wait")
                if after[0] != before[0]:
                    self.hit(f"blocking acquire changed value {before[0]}->{after[0]}")
        elif c == 1:
            if before[0] == 0:
                if k != 4 or after != before:
                    self.hit(f"acquire_nowait with value 0: res {k}, state {before}->{after}")
                    if k == 0:
                        self.heldc[t] += 1
            else:
                if before[2] > 0:
                    self.hit(f"value {before[0]} > 0 with {before[2]} waiters (before acquire_nowait)")
                if k != 0 or after[0] != before[0] - 1:
                    self.hit(f"acquire_nowait with value {before[0]}: res {k}, value -> {after[0]}")
                if k == 0:
                    self.heldc[t] += 1
        elif c == 2:
            if mx is not None and before[0] == mx:
                self.flags.add("release_at_max")
                if k != 6 or after != before:
                    self.hit(f"release beyond max_value={mx}: res {k}, state {before}->{after}")
            elif k != 0:
                self.hit(f"release refused (res {k}) with value {before[0]}, max {mx}")
            if k == 0:
                if self.heldc[t] > 0:
                    self.heldc[t] -= 1
                else:
                    self.extra += 1
                    self.flags.add("extra_release")
                self._released(f"release by {t}", before, after, run_before, run_after)
        elif c == 4 and t in self.ckyield:
            self.ck_cancel.add(t)
            self.flags.add("cancel_in_check_yield")
            if after != before:
                self.hit(f"Task.cancel() changed the observable state {before}->{after}")
        elif c == 3 and t in self.ckyield:
            if t in self.ck_cancel:
                self.ck_cancel.discard(t)
                self.ckyield.discard(t)
                if k != 2:
                    self.hit(f"cancelled task {t} in the cancellation check ended with res {k} instead of CancelledError")
            elif k != 1:
                self.hit(f"task {t} left the cancellation check (res {k}) although the cancelled scope is still visible")
                self.ckyield.discard(t)
            else:
                self.flags.add("check_spins")
            if after != before:
                self.hit(f"the cancellation check of task {t} changed the semaphore {before}->{after}")
        elif c == 4:
            if t in self.waitq:
                self.cancel_req.add(t)
                self.flags.add("cancel_waiter")
            elif t in self.reserved:
                self.cancelled_res.add(t)
                self.flags.add("cancel_fastyield" if t in self.fyset else "cancel_after_handoff")
            if after != before:
                self.hit(f"Task.cancel() changed the observable state {before}->{after}")
        elif c == 3:
            if t in self.waitq:
                # never handed a permit: can only be running because its wait was cancelled
                self.waitq.remove(t)
                if t not in self.cancel_req:
                    self.hit(f"waiter {t} resumed without hand-off or cancellation (res {k})")
                self.cancel_req.discard(t)
                if k != 2:
                    self.hit(f"cancelled waiter {t} ended with res {k} instead of CancelledError")
                    if k == 0:
                        self.heldc[t] += 1
                if after[0] != before[0]:
                    self.hit(f"cancelled waiter {t} changed value {before[0]}->{after[0]}")
            elif t in self.reserved:
                self.reserved.discard(t)
                self.fyset.discard(t)
                if t in self.cancelled_res:
                    self.cancelled_res.discard(t)
                    if k == 2:
                        self.flags.add("cancelled_grantee_gave_back")
                        self._released(f"cancelled grantee {t}", before, after, run_before, run_after)
                    elif k == 6:
                        # ValueError from the internal release(): only legal at value == max_value
                        self.flags.add("drop_valueerror")
                        if mx is None or before[0] != mx or after != before:
                            self.hit(f"cancelled grantee {t}: ValueError with value {before[0]}, max {mx}, state -> {after}")
                        self.dropped += 1
                    else:
                        self.hit(f"grantee {t} with a pending native cancellation ended with res {k}")
                        if k == 0:
                            self.heldc[t] += 1
                else:
                    if k != 0:
                        self.hit(f"grantee {t} resumed with res {k} instead of returning")
                    else:
                        self.heldc[t] += 1
                    if after != before:
                        self.hit(f"return of acquire to {t} changed the state {before}->{after}")
            else:
                self.hit(f"task {t} resumed but the history does not show it blocked in acquire")
        # state clauses
        holders = sum(self.heldc.values())
        if after[0] < 0:
            self.hit(f"value {after[0]} is negative: more permits were taken than exist (holders {holders}, reserved {len(self.reserved)})")
        if after[0] > 0 and after[2] > 0:
            self.hit(f"value {after[0]} > 0 with {after[2]} waiting tasks")
        if holders > self.init + self.extra:
            self.hit(f"{holders} holders exceed the permits that exist ({self.init} initial + {self.extra} extra releases)")
        if after[0] + holders + len(self.reserved) + self.dropped != self.init + self.extra:
            self.hit(f"conservation: value {after[0]} + holders {holders} + reserved {len(self.reserved)} + dropped {self.dropped} != initial {self.init} + extra {self.extra}")
        # the deque drops cancelled futures lazily (a release pops them, or the cancelled task removes its own)
        nlive = len([x for x in self.waitq if x not in self.cancel_req])
        if not (nlive <= after[2] <= len(self.waitq)):
            self.hit(f"tasks_waiting={after[2]} but {nlive} live / {len(self.waitq)} not yet resumed waiters ({self.waitq})")
        if mx is not None and after[0] > mx:
            self.hit(f"value {after[0]} above max_value {mx}")
        if after[1] != (0 if mx is None else mx + 1):
            self.hit("max_value changed")

    def quiesce(self):
        """Drive every task to its decision point and give every permit back: value must return to
        initial + extra - dropped with no waiters."""
        for _ in range(400):
            progressed = False
            for t, p in self.world.puppets.items():
                if not p.at_decision:
                    if self.world.runnable(p):
                        self.do(6 if t in self.ckyield else 3, t)
                        progressed = True
                elif self.heldc[t] > 0 and not (self.maxv is not None and self.sem.value == self.maxv):
                    self.do(2, t)
                    progressed = True
            if not progressed:
                blocked = [t for t, p in self.world.puppets.items() if not p.at_decision]
                if not blocked:
                    break
                self.do(4, blocked[0])
        if all(v == 0 for v in self.heldc.values()):
            obs = self.observe()
            if obs[0] != self.init + self.extra - self.dropped or obs[2] != 0:
                self.hit(f"not pristine after everyone released: value {obs[0]} (initial {self.init}, extra {self.extra}, dropped {self.dropped}), waiting {obs[2]}")
            if self.extra == 0 and obs[0] != self.init:
                self.hit(f"value {obs[0]} != initial {self.init} after everyone released")
        if self.world.loop.errors:
            self.hit(f"loop errors: {self.world.loop.errors[:2]}")


# =====================================================================================================
# CapacityLimiter
# =====================================================================================================

def tot_code(x) -> int:
    return -1 if math.isinf(x) else int(x)


def tot_val(code: int):
    return math.inf if code < 0 else code


class LimRun(BaseRun):
    W = 3

    def __init__(self, total_code: int, ntasks: int, adapter: bool = False):
        self._open(ntasks, lambda anyio: anyio.CapacityLimiter(tot_val(total_code)), adapter)
        self.total0 = total_code
        self.lim = self.obj
        self._spawn()
        # foreign borrowers are hashable KEYS: every call builds a fresh, equal tuple (equality, not identity)
        self.foreign = (11, 12, 13)
        # monitor state
        self.holders: set[int] = set()
        self.inprog: dict[int, tuple] = {}     # task -> (b, 'fy' | 'wait' | 'granted')
        self.waitq: list[tuple] = []           # (task, b) waiting without a token, arrival order
        self.cancel_req: set[int] = set()
        self.outside = False                   # history left the stated input domain (O2): monitors off
        self.lowered = False
        self.spinning: dict[int, int] = {}     # task -> borrower: inside acquire_on_behalf_of(), suspended in the entry check
        self.spin_native: set[int] = set()     # of those: native Task.cancel() requested
        o = self.observe()
        if o != [0, total_code, INF_CODE if total_code < 0 else total_code, 0, 0]:
            self.hit(f"construction parameter total_tokens not honoured: borrowed/total/available/waiting/borrowers = {o} right after CapacityLimiter({tot_val(total_code)})")

    def header(self):
        return [self.total0]

    def params(self):
        return {"prim": "limiter", "total": self.total0, "ntasks": self.ntasks, "adapter": self.adapter}

    def bobj(self, b):
        if b <= self.ntasks:
            return self.world.puppets[b].task
        return ("key", b)     # a new tuple object on every call

    def bname(self, o):
        if isinstance(o, tuple):
            return o[1]
        return self.tid_of.get(id(o), 99)

    def observe(self):
        lim = self.lim
        st = lim.statistics()
        bt, tt, av = lim.borrowed_tokens, lim.total_tokens, lim.available_tokens
        bs = sorted(self.bname(o) for o in st.borrowers)
        if st.borrowed_tokens != bt or bt != len(st.borrowers) or type(bt) is not int:
            self.hit(f"borrowed_tokens {bt!r} / statistics().borrowed_tokens {st.borrowed_tokens!r} / {len(st.borrowers)} borrowers disagree")
        if st.total_tokens != tt:
            self.hit(f"total_tokens {tt!r} != statistics().total_tokens {st.total_tokens!r}")
        if not (isinstance(tt, int) or math.isinf(tt)):
            self.hit(f"total_tokens has a bad value {tt!r}")
        avc = INF_CODE if math.isinf(av) and av > 0 else (-INF_CODE if math.isinf(av) else int(av))
        return [bt, tot_code(tt), avc, st.tasks_waiting, len(bs)] + bs

    def enabled(self, borrowers=None):
        en = []
        bset = list(range(1, self.ntasks + 1)) + list(self.foreign)
        for t, p in self.world.puppets.items():
            if p.at_decision:
                for b in bset:
                    en += [(0, t, b), (1, t, b), (2, t, b)]
                for v in (-1, 0, 1, 2, 3):
                    en.append((5, t, v))
                for k in range(len(BAD_TOTALS)):
                    en.append((6, t, k))
                for b in bset:
                    en.append((10, t, b))       # the same call inside an already effectively cancelled scope
            else:
                if self.world.runnable(p):
                    en.append((3, t, 0))
                en.append((4, t, 0))
                if t in self.spinning:
                    en.append((11, t, 0))       # the AnyIO cancellation is delivered: the call raises
                    en.append((12, t, 0))       # the check returns after its yield (a shield was raised meanwhile)
        return en

    def in_domain(self, op):
        c, t, x = op
        busy_b = {b for (b, _k) in self.inprog.values()}
        if c == 2 and x in busy_b:
            return False           # O2: release_on_behalf_of(b) before b's acquire call returned
        return True

    def weight(self, op, w):
        c, t, x = op
        v = w[c]
        cur = self.lim.statistics()
        if c in (0, 1, 2):
            own = (x == t)
            v *= w["own"] if own else (w["task_b"] if x <= self.ntasks else w["foreign"])
            isb = x in self.holders
            if c == 2 and not isb:
                v *= 0.08
            if c in (0, 1) and isb:
                v *= 0.08
            if c == 0 and x in {b for (b, _k) in self.inprog.values()}:
                # another acquire for the same borrower is still in progress (duplicate borrower, F16)
                v = w[c] * w.get("dup", 1.0)
        if c == 5:
            v *= w["tot"].get(x, 1.0)
        if c == 6:
            v *= 0.2
        if c == 10:
            own = (x == t)
            v = w.get(10, 0.0) * (w["own"] if own else (w["task_b"] if x <= self.ntasks else w["foreign"]))
        if c in (11, 12):
            v = w.get(c, 3.0)
        if c in (3, 4) and t in self.spinning:
            v *= 0.3
        return v

    def _run_callbacks(self, t):
        """the delivery callbacks (AnyIO's _deliver_cancellation retries) of the scopes of task t's cancelled-scope call;
        those of other spinning tasks stay queued: their delivery is a separate op (11)"""
        w = self.world
        p = w.puppets[t]
        mine = {id(getattr(p, "sc_outer", None)), id(getattr(p, "sc", None))}
        for h in list(w.loop.ready_handles()):
            owner = getattr(h._callback, "__self__", None)
            if not isinstance(owner, asyncio.Task) and id(owner) in mine:
                w.loop.run_handle(h)

    def do(self, c: int, t: int, x: int):
        w, lim = self.world, self.lim
        before = self.observe()
        run_before = self.runnable_set()
        if not self.in_domain((c, t, x)):
            self.outside = True
            self.flags.add("outside_domain")
        if c == 4 and t in self.inprog and self.inprog[t][1] == "fy" and self.inprog[t][0] != t:
            self.flags.add("cancel_fastyield_foreign")   # the D1 history class (fixed by cf4519f)
        if c in (0, 1, 2):
            own = (x == t)
            obj = self.bobj(x)
            if c == 0:
                async def cmd(p):
                    await (lim.acquire() if own else lim.acquire_on_behalf_of(obj))
            elif c == 1:
                async def cmd(p):
                    lim.acquire_nowait() if own else lim.acquire_on_behalf_of_nowait(obj)
            else:
                async def cmd(p):
                    lim.release() if own else lim.release_on_behalf_of(obj)
            out = w.act(t, cmd)
        elif c == 10:
            # model op EnterCancelled (LimiterEntry): the call made in an already effectively cancelled scope.  The check
            # is the first statement: the call sits in checkpoint_if_cancelled() whatever the state of the limiter until
            # the cancellation is delivered (11), a native cancel reaches it (4, 3) or the check returns (12)
            CancelScope = self.anyio.CancelScope
            own = (x == t)
            obj = self.bobj(x)

            async def cmd(p):
                with CancelScope() as outer:
                    p.sc_outer = outer
                    outer.cancel()
                    with CancelScope() as mid:        # op 12 raises a shield here while the check is yielding
                        p.sc = mid
                        await (lim.acquire() if own else lim.acquire_on_behalf_of(obj))
                    p.sc = None
                if outer.cancelled_caught or mid.cancelled_caught:
                    raise CancelledError("absorbed by the call's own scopes")
            out = w.act(t, cmd)
            self.flags.add("acquire_in_cancelled_scope")
            if before[0] >= tot_val(before[1]) or before[3] > 0:
                self.flags.add("acquire_in_cancelled_scope_contended")
            if out is not None and out[0] == "blocked":
                self.spinning[t] = x
            else:
                self.hit(f"acquire_on_behalf_of({x}) by task {t} in an already cancelled scope did not suspend in its cancellation check: {out}")
        elif c == 11:
            p = w.puppets[t]
            self._run_callbacks(t)
            out = None
            for _ in range(6):
                out = w.resume(t)
                if p.at_decision:
                    break
                self._run_callbacks(t)
            if not p.at_decision:
                self.hit(f"acquire_on_behalf_of by task {t} in an already cancelled scope was not interrupted within 6 cycles")
            elif code_of(out) != 2:
                self.hit(f"acquire_on_behalf_of by task {t} in an already cancelled scope ended with {out} instead of the cancellation")
        elif c == 12:
            # another task shields the scope between the caller and the cancelled one: the cancellation is no longer
            # visible, the delivery finds nobody, the check returns and the call goes on as an ordinary one - on the
            # limiter as it is NOW
            p = w.puppets[t]
            p.sc.shield = True
            self._run_callbacks(t)
            out = w.resume(t)
            self.flags.add("check_yielded_and_returned")
            if before[0] >= tot_val(before[1]) or before[3] > 0:
                self.flags.add("check_returned_to_contended_limiter")
        elif c == 3:
            out = w.resume(t)
        elif c == 4:
            w.puppets[t].task.cancel()
            out = None
        elif c == 5:
            val = tot_val(x)

            async def cmd(p):
                lim.total_tokens = val
            out = w.act(t, cmd)
        else:
            val = BAD_TOTALS[x]

            async def cmd(p):
                lim.total_tokens = val
            out = w.act(t, cmd)
        k = code_of(out)
        after = self.observe()
        self.ops += [c, t, x]
        self.outs += [k] + after
        mc, mx = c, x
        if t in self.spinning and c in (3, 4, 10, 11, 12):
            # a call suspended in its entry check: nothing of the limiter may move whatever is done TO that task;
            # only the check's normal return (12 without a pending native cancel) continues as an ordinary call
            b = self.spinning[t]
            native = t in self.spin_native
            if c == 4:
                self.spin_native.add(t)
                if k != 5:
                    self.hit(f"Task.cancel() of task {t} (in its entry check) reported {k}")
            elif c == 3:
                want = 2 if native else 1
                if k != want:
                    self.hit(f"step of task {t} in its entry check ({'native cancel pending' if native else 'cancellation still visible'}): res {k}, expected {want}")
                self.flags.add("entry_check_native_cancel" if native else "entry_check_spins")
            elif c == 12 and native and k != 2:
                self.hit(f"task {t}: native cancel pending at the entry check's yield, but the call went on (res {k})")
            if c == 12 and not native and k != 2:
                mc, mx = 0, b            # from here on an ordinary acquire_on_behalf_of(b) by t, on the limiter as it is now
                del self.spinning[t]
            else:
                if c in (11, 12) or (c == 3 and k != 1):
                    del self.spinning[t]
                    self.spin_native.discard(t)
                if after != before:
                    self.hit(f"{LIM_OPS[c]} of task {t} (acquire_on_behalf_of({b}) suspended in its cancellation check) changed the limiter {before} -> {after}")
                mc = 13
        if not self.outside:
            self.monitor(mc, t, mx, k, before, after, run_before, self.runnable_set(), out)

    # -- property monitors on the observable history (independent of the model) --
    def monitor(self, c, t, x, k, before, after, run_before, run_after, out):
        if k == 8:
            self.hit(f"unexpected exception from {LIM_OPS[c]}({t},{x}): {out[1]!r}")
        bb, ba = set(before[5:]), set(after[5:])
        nb_before, nb_after = before[0], after[0]
        tot_b, tot_a = tot_val(before[1]), tot_val(after[1])
        new = ba - bb
        gone = bb - ba
        direct = None
        # --- per-op result clauses ---
        if c in (0, 1):
            if x in bb:
                self.flags.add("double_borrow")
                if k != 3 or after != before:
                    self.hit(f"{LIM_OPS[c]} for {x} which already holds a token: res {k}, state {before}->{after}")
            elif c == 0 and any(b == x for (_t, b) in self.waitq):
                # the borrower already has a slot in the wait queue: refused, nothing changes (F16)
                self.flags.add("dup_waiter_rejected")
                if any(tt in self.cancel_req for (tt, b) in self.waitq if b == x):
                    self.flags.add("dup_waiter_same_cycle_as_cancel")
                if k != 3 or after != before:
                    self.hit(f"second acquire_on_behalf_of({x}) by task {t} while {[tt for (tt, b) in self.waitq if b == x]} already wait for it: res {k} (expected RuntimeError), state {before}->{after}")
                if k == 1:
                    self.waitq.append((t, x))
                    self.inprog[t] = (x, "wait")
            else:
                is_busy = before[3] > 0 or not (nb_before < tot_b)
                if is_busy:
                    want = 1 if c == 0 else 4
                    if k != want:
                        self.hit(f"{LIM_OPS[c]}({x}) with borrowed={nb_before}, total={tot_b}, waiting={before[3]}: res {k} (token granted although none is free / barging)")
                    if ba != bb:
                        self.hit(f"{LIM_OPS[c]}({x}) that must wait changed the borrowers {sorted(bb)}->{sorted(ba)}")
                    if c == 0 and k == 1:
                        self.waitq.append((t, x))
                        self.inprog[t] = (x, "wait")
                        self.flags.add("wait")
                        if x != t:
                            self.flags.add("on_behalf_wait")
                else:
                    want = 1 if c == 0 else 0
                    if k != want or new != {x} or gone:
                        self.hit(f"{LIM_OPS[c]}({x}) with a free token: res {k}, borrowers {sorted(bb)}->{sorted(ba)}")
                    direct = x
                    if c == 1 and k == 0:
                        self.holders.add(x)
                    if c == 0 and k == 1:
                        self.inprog[t] = (x, "fy")
                        self.flags.add("fastpath_yield")
                        if x != t:
                            self.flags.add("on_behalf_foreign" if x > self.ntasks else "on_behalf_task")
        elif c == 2:
            if x not in bb:
                self.flags.add("nonborrower_release")
                if k != 3 or after != before:
                    self.hit(f"release for non-borrower {x}: res {k}, state {before}->{after}")
            else:
                if k != 0 or x in ba:
                    self.hit(f"release for borrower {x}: res {k}, borrowers -> {sorted(ba)}")
                if x not in self.holders:
                    self.hit(f"{x} was a borrower although no acquire returned for it (history)")
                self.holders.discard(x)
        elif c == 5:
            if k != 0 or after[1] != x:
                self.hit(f"total_tokens = {tot_val(x)}: res {k}, total_tokens now {tot_a}")
            if gone:
                self.hit(f"total_tokens assignment removed borrowers {sorted(gone)}")
            if x == 0:
                self.flags.add("total_zero")
            if x < 0:
                self.flags.add("total_inf")
            if x >= 0 and x < nb_before:
                self.flags.add("lower_below_borrowed")
                self.lowered = True
            elif x >= 0 and self.lowered and tot_val(x) > tot_b:
                self.flags.add("raise_after_lower")
            if new:
                self.flags.add("grant_by_settotal")
        elif c == 6:
            if k != BAD_TOTAL_CODE[x] or after != before:
                self.hit(f"total_tokens = {BAD_TOTALS[x]!r}: res {k} (expected {BAD_TOTAL_CODE[x]}), state {before}->{after}")
            self.flags.add("bad_total")
        elif c == 4:
            if after != before:
                self.hit(f"Task.cancel() changed the observable state {before}->{after}")
            if t in self.inprog:
                b, kind = self.inprog[t]
                self.cancel_req.add(t)
                self.flags.add({"wait": "cancel_before_set", "granted": "cancel_after_set", "fy": "cancel_fastyield"}[kind])
        elif c == 3:
            if t not in self.inprog:
                self.hit(f"task {t} resumed but the history does not show it blocked in an acquire")
            else:
                b, kind = self.inprog.pop(t)
                cancelled = t in self.cancel_req
                self.cancel_req.discard(t)
                if kind == "wait":
                    self.waitq.remove((t, b))
                    if not cancelled:
                        self.hit(f"waiter {t} (for {b}) resumed without a token or a cancellation (res {k})")
                if cancelled:
                    if k != 2:
                        self.hit(f"cancelled acquirer {t} (for {b}, {kind}) ended with res {k} instead of CancelledError")
                        if k == 0:
                            self.holders.add(b)
                    if b in ba:
                        self.hit(f"cancelled acquirer {t}: {b} still is a borrower afterwards (token leaked)")
                    if kind == "wait" and ba != bb:
                        self.hit(f"cancelled waiter {t} without a token changed the borrowers {sorted(bb)}->{sorted(ba)}")
                    if kind in ("granted", "fy"):
                        if gone != {b}:
                            self.hit(f"cancelled grantee {t}: borrowers lost {sorted(gone)} instead of {{{b}}}")
                        self.flags.add("pass_on" if new else "give_back")
                else:
                    if k != 0:
                        self.hit(f"grantee {t} (for {b}) resumed with res {k} instead of returning")
                    else:
                        self.holders.add(b)
                    if after != before:
                        self.hit(f"return of acquire to {t} changed the state {before}->{after}")
        # --- grants to waiters: strictly the heads of the queue, each only when a token is free ---
        woken = [b for b in new if b != direct]
        if woken:
            heads = [b for (_t, b) in self.waitq[:len(woken)]]
            if sorted(heads) != sorted(woken):
                self.hit(f"FIFO: tokens went to {sorted(woken)} but the queue heads are {heads} (queue {self.waitq})")
            wt = {tt for (tt, b) in self.waitq if b in woken}
            if (run_after - run_before) - {t} != {tt for tt in wt if tt not in self.cancel_req}:
                self.hit(f"woken tasks {sorted((run_after - run_before) - {t})} != grantees {sorted(wt)} minus cancelled")
            for (tt, b) in list(self.waitq):
                if b in woken:
                    self.waitq.remove((tt, b))
                    self.inprog[tt] = (b, "granted")
                    if tt in self.cancel_req:
                        self.flags.add("cancelled_then_granted")
            self.flags.add("grant_to_waiter")
            if c == 2:
                self.flags.add("grant_by_release")
        if new and nb_after > tot_a:
            self.hit(f"token granted to {sorted(new)} although none was free: {nb_after} borrowers of {tot_a} after {LIM_OPS[c]}")
        lowering = (c == 5 and k == 0 and tot_val(x) < nb_before)
        if nb_before <= tot_b and not lowering and nb_after > tot_a:
            self.hit(f"over-grant: {nb_after} borrowers of {tot_a} (was {nb_before} of {tot_b}) after {LIM_OPS[c]}")
        if nb_after > tot_a and not ba <= bb:
            self.hit(f"over capacity ({nb_after}/{tot_a}) and a new borrower {sorted(ba - bb)} appeared")
        # --- counts are true ---
        want_av = INF_CODE if math.isinf(tot_a) else tot_a - nb_after
        if after[2] != want_av:
            self.hit(f"available_tokens {after[2]} != total {tot_a} - borrowed {nb_after}")
        resv = {b for (b, kind) in self.inprog.values() if kind in ("fy", "granted")}
        if ba != self.holders | resv:
            self.hit(f"borrowers {sorted(ba)} != holders {sorted(self.holders)} + reserved {sorted(resv)} (history)")
        if len(self.holders) > tot_a and not self.lowered:
            self.hit(f"{len(self.holders)} holders exceed total_tokens {tot_a}")
        if after[3] != len(self.waitq):
            self.hit(f"tasks_waiting {after[3]} != {len(self.waitq)} waiting tasks {self.waitq}")
        if after[3] > 0 and nb_after < tot_a:
            self.hit(f"{after[3]} tasks wait although {tot_a - nb_after} tokens are free")
        if self.waitq and nb_after < tot_a:
            self.hit(f"lost waiter: tasks {[tt for (tt, _b) in self.waitq]} are blocked without a token although {tot_a - nb_after} tokens are free (tasks_waiting={after[3]})")

    def quiesce(self):
        for _ in range(400):
            progressed = False
            for t in list(self.spinning):
                self.do(11, t, 0)
            idle = [t for t, p in self.world.puppets.items() if p.at_decision]
            for t, p in self.world.puppets.items():
                if not p.at_decision and self.world.runnable(p):
                    self.do(3, t, 0)
                    progressed = True
            busy_b = {b for (b, _k) in self.inprog.values()}
            if idle:
                for b in sorted(self.holders - busy_b):
                    t = b if b in idle else idle[0]
                    self.do(2, t, b)
                    progressed = True
                    break
            if not progressed:
                blocked = [t for t, p in self.world.puppets.items() if not p.at_decision]
                if not blocked:
                    break
                self.do(4, blocked[0], 0)
        if not self.outside and not self.holders and not self.inprog:
            obs = self.observe()
            want_av = INF_CODE if obs[1] < 0 else obs[1]
            if obs[0] != 0 or obs[3] != 0 or obs[2] != want_av:
                self.hit(f"not pristine after everyone released: borrowed {obs[0]} {obs[5:]}, waiting {obs[3]}, available {obs[2]} of {obs[1]}")
        if self.world.loop.errors:
            self.hit(f"loop errors: {self.world.loop.errors[:2]}")


# =====================================================================================================
# running, generation
# =====================================================================================================

def make_run(params, adapter=None):
    ad = bool(params.get("adapter", False)) if adapter is None else adapter
    if params["prim"] == "sem":
        return SemRun(bool(params["fast"]), params["init"], params["max"], params["ntasks"], ad)
    return LimRun(params["total"], params["ntasks"], ad)


def op_possible(r, op) -> bool:
    p = r.world.puppets.get(op[1])
    if p is None:
        return False
    if op[0] in (3, 6) and isinstance(r, SemRun) or op[0] == 3:
        return (not p.at_decision) and r.world.runnable(p)
    if op[0] == 4:
        return not p.at_decision
    if op[0] in (11, 12) and isinstance(r, LimRun):
        return (not p.at_decision) and op[1] in r.spinning
    return p.at_decision


def run_script(params, flat_ops, quiesce=True, strict=False, adapter=None):
    """Replay a flat op list on the implementation.  strict: return None if an op is not enabled.
    adapter: override the creation mode stored in params."""
    r = make_run(params, adapter)
    with r:
        W = r.W
        for i in range(0, len(flat_ops) - W + 1, W):
            op = tuple(flat_ops[i:i + W])
            if strict and op not in r.enabled():
                return None
            if not op_possible(r, op) and r.observed:
                # the replay left the recorded behaviour through the recorded observation (fast_acquire ignored by
                # SemaphoreAdapter): stop here, the prefix is still compared with the model
                r.flags.add("replay_stopped_at_observation")
                break
            if not op_possible(r, op):
                # a stored script whose op cannot be performed any more: the implementation left the recorded
                # behaviour earlier (e.g. a task is blocked where the script expects it at a decision point)
                r.flags.add("script_diverged")
                r.hit(f"stored script: step {i // W} {op} cannot be performed (task state differs from the recorded run)")
                break
            r.do(*op)
        r.enabled_at_end = r.enabled()
        if quiesce:
            r.quiesce()
    return r


def walk(r, rng, nsteps, w, allow_outside=False):
    for _ in range(nsteps):
        en = r.enabled()
        if isinstance(r, LimRun):
            if not allow_outside:
                en = [o for o in en if r.in_domain(o)]
        ws = [r.weight(o, w) for o in en]
        if not en or sum(ws) <= 0:
            break
        r.do(*rng.choices(en, ws)[0])


def random_sem(rng, nsteps, adapter=False, fast=None):
    fast = (rng.random() < 0.35) if fast is None else fast
    init = rng.choice([0, 0, 1, 1, 1, 2, 2, 3])
    maxv = rng.choice([None, None, init, init, init + 1, init + 2])
    if maxv == 0:
        maxv = rng.choice([None, 1])
    ntasks = rng.choice([2, 3, 3, 4, 5])
    w = {0: 5, 1: 1.5, 2: 3, 3: 5, 4: rng.choice([0.5, 2, 4]), 5: rng.choice([0.3, 1.0, 2.5]), 6: 3,
         "extra": rng.choice([0.05, 0.3, 1.0])}
    r = SemRun(fast, init, maxv, ntasks, adapter)
    with r:
        walk(r, rng, nsteps, w)
        r.quiesce()
    return r


def random_lim(rng, nsteps, allow_outside=False):
    total = rng.choice([-1, 0, 0, 1, 1, 1, 2, 2, 3])
    ntasks = rng.choice([2, 3, 3, 4, 5])
    w = {0: 5, 1: 1.2, 2: 3, 3: 5, 4: rng.choice([0.5, 2, 4]), 5: rng.choice([0.3, 1.0, 2.0]), 6: 0.3,
         "own": 1.0, "task_b": rng.choice([0.02, 0.1]), "foreign": rng.choice([0.05, 0.3, 0.8]),
         "dup": rng.choice([0.3, 2.0, 6.0]),
         "tot": {-1: 0.4, 0: 1.0, 1: 1.0, 2: 1.0, 3: 0.6},
         10: rng.choice([0.0, 0.0, 1.5, 4.0]), 11: 2.0, 12: rng.choice([2.0, 6.0])}
    r = LimRun(total, ntasks)
    with r:
        walk(r, rng, nsteps, w, allow_outside)
        r.quiesce()
    return r


def exhaustive(params, depth, alphabet=None):
    """All op sequences up to `depth` that the implementation enables (DFS by replay), restricted to
    `alphabet` (a predicate on ops) and to the in-domain ops."""
    results = []
    nt = params["ntasks"]

    def rec(prefix, nops):
        r = run_script(params, prefix, quiesce=True)
        if nops >= depth:
            results.append(r)
            return
        en = r.enabled_at_end
        W = r.W
        used = set(prefix[1::W])
        ext = 0
        for op in en:
            if alphabet is not None and not alphabet(op):
                continue
            t = op[1]
            # symmetry reduction: a fresh task may only be the smallest unused one
            if t not in used and t != min(set(range(1, nt + 1)) - used, default=t):
                continue
            rec(prefix + list(op), nops + 1)
            ext += 1
        if ext == 0:
            results.append(r)

    rec([], 0)
    return results


def lim_small_alphabet(op):
    c, t, x = op
    if c in (0, 1, 2):
        return x == t
    if c == 5:
        return x in (0, 1, 2)
    if c in (6, 10):
        return False
    return True


def lim_entry_alphabet(op):
    """Small scope for calls whose entry check yields: own-borrower acquire / nowait / release, the same call inside a
    cancelled scope, its delivery, its normal return, steps and native cancels."""
    c, t, x = op
    if c in (0, 1, 2, 10):
        return x == t
    if c in (5, 6):
        return False
    return True


def lim_dup_alphabet(op):
    """Small scope for duplicate borrowers: every task asks for the SAME foreign key 11."""
    c, t, x = op
    if c == 0:
        return x == 11
    if c == 1:
        return x == t
    if c == 2:
        return x in (t, 11)
    if c in (5, 6, 10):
        return False
    return True


def readable(r):
    W = r.W
    names = SEM_OPS if isinstance(r, SemRun) else LIM_OPS
    return [(names[r.ops[i]],) + tuple(r.ops[i + 1:i + W]) for i in range(0, len(r.ops), W)]


def msg_key(msg: str) -> str:
    """Class of a monitor message: its head with the concrete numbers blanked."""
    import re
    return re.sub(r"\d+", "#", msg.split(":")[0])[:48]


def shrink(r, key=None, budget=150):
    """Drop ops while a monitor of the same class (`key`) still trips (replays in which a dropped op makes a
    later one disabled are discarded)."""
    params, ops, W = r.params(), list(r.ops), r.W
    best = r
    changed = True
    while changed and budget > 0:
        changed = False
        i = len(ops) - W
        while i >= 0 and budget > 0:
            cand = ops[:i] + ops[i + W:]
            budget -= 1
            try:
                rr = run_script(params, cand, quiesce=False, strict=True)
            except Exception:  # noqa: BLE001
                rr = None
            if rr is not None and rr.mon and (key is None or any(msg_key(m) == key for m in rr.mon)):
                ops, best, changed = cand, rr, True
            i -= W
    return best


def split_obs(kind, flat):
    """Split a flat observation list into per-step lists."""
    out, i = [], 0
    if kind == "sem":
        while i < len(flat):
            out.append(flat[i:i + 4])
            i += 4
    else:
        while i < len(flat):
            n = flat[i + 5] if i + 5 < len(flat) else 0
            out.append(flat[i:i + 6 + n])
            i += 6 + n
    return out


def replay(path):
    d = json.loads(open(path).read())
    if d.get("kind") == "tie" and not d.get("case"):
        print("BROKEN TIE (no failing input was found):", "; ".join(d.get("broken", [])))
        print("tie_T:", {k: v for k, v in (d.get("tie_T") or {}).items() if k != "segments"})
        return 1
    params = d.get("params") or d["case"]["params"]
    ops = d.get("ops") or d["case"]["ops"]
    r = run_script(params, ops, quiesce=d.get("quiesce", False))
    exe = core.build_driver(*[x for x in DRIVERS if x[0] == ("sem" if params["prim"] == "sem" else "limiter")][0])
    m = core.run_driver(exe, [r.header() + r.ops])[0]
    print("params", params)
    kind = params["prim"] if params["prim"] == "sem" else "lim"
    for o, a, b in zip(readable(r), split_obs(kind, r.outs), split_obs(kind, m)):
        print(o, "impl", a, "model", b, "" if a == b else "   <-- differs")
    for msg in r.mon:
        print("MONITOR:", msg)
    return 1 if (r.mon or r.outs != m) else 0


# adapter census (part of tie T): the objects handed out when no event loop runs must be pure forwarders.
# Table: adapter class -> (lazy property, backend factory, {method: how it must be implemented}).
#   "delegate"  the body calls / reads the attribute of the same name on the lazily created backend object
#   "ctor:<p>"  answers from the stored constructor parameter p (no backend state involved)
ADAPTER_TABLE = {
    "SemaphoreAdapter": ("_semaphore", "create_semaphore", {
        "acquire": "delegate", "acquire_nowait": "delegate", "release": "delegate", "value": "delegate",
        "statistics": "delegate", "max_value": "ctor:max_value"}),
    "CapacityLimiterAdapter": ("_limiter", "create_capacity_limiter", {
        "__aenter__": "delegate", "__aexit__": "delegate", "total_tokens": "delegate", "borrowed_tokens": "delegate",
        "available_tokens": "delegate", "acquire_nowait": "delegate", "acquire_on_behalf_of_nowait": "delegate",
        "acquire": "delegate", "acquire_on_behalf_of": "delegate", "release": "delegate",
        "release_on_behalf_of": "delegate", "statistics": "delegate"}),
}


def adapter_census():
    """Syntactic check of anyio/_core/_synchronization.py (the tree under test).  Returns (refusals, known):
    every constructor parameter is forwarded to the backend factory under its own name, every method delegates
    to the backend member of the same name, no method outside the table exists (fail closed)."""
    import ast
    import anyio._core._synchronization as mod

    src = open(mod.__file__).read()
    tree = ast.parse(src)
    classes = {n.name: n for n in tree.body if isinstance(n, ast.ClassDef)}
    bad, known = [], []
    for cname, (lazy, factory, table) in ADAPTER_TABLE.items():
        cls = classes.get(cname)
        if cls is None:
            bad.append(f"{cname}: class not found")
            continue
        funcs: dict[str, list] = {}
        for n in cls.body:
            if isinstance(n, (ast.FunctionDef, ast.AsyncFunctionDef)):
                funcs.setdefault(n.name, []).append(n)
        init = funcs.get("__init__", [None])[0]
        if init is None or lazy not in funcs:
            bad.append(f"{cname}: __init__ / {lazy} missing")
            continue
        params = [a.arg for a in init.args.args[1:]] + [a.arg for a in init.args.kwonlyargs]
        positional = [a.arg for a in init.args.args[1:]]
        # --- the factory call inside the lazy property forwards every constructor parameter ---
        calls = [c for c in ast.walk(funcs[lazy][0]) if isinstance(c, ast.Call)
                 and isinstance(c.func, ast.Attribute) and c.func.attr == factory]
        if len(calls) != 1:
            bad.append(f"{cname}.{lazy}: expected exactly one call of {factory}, found {len(calls)}")
            continue
        call = calls[0]

        def is_stored(node, pname):
            return (isinstance(node, ast.Attribute) and isinstance(node.value, ast.Name) and node.value.id == "self"
                    and node.attr == "_" + pname)
        forwarded = set()
        for i, a in enumerate(call.args):
            if i < len(positional) and is_stored(a, positional[i]):
                forwarded.add(positional[i])
            else:
                bad.append(f"{cname}.{lazy}: positional argument {i} of {factory} is not self._{positional[i] if i < len(positional) else '?'}")
        for kw in call.keywords:
            if kw.arg in params and is_stored(kw.value, kw.arg):
                forwarded.add(kw.arg)
            else:
                bad.append(f"{cname}.{lazy}: keyword {kw.arg}= of {factory} is not forwarded from self._{kw.arg}")
        for pname in params:
            if pname not in forwarded:
                msg = f"{cname}.{lazy}: constructor parameter {pname} is not forwarded to {factory}"
                if cname == "SemaphoreAdapter" and pname == "fast_acquire":
                    known.append(OBS_A1)
                else:
                    bad.append(msg)
        # --- every member delegates to the member of the same name ---
        for fname, defs in funcs.items():
            if fname in ("__new__", "__init__", lazy):
                continue
            how = table.get(fname)
            if how is None:
                bad.append(f"{cname}.{fname}: member outside the census table")
                continue
            for d in defs:      # property getter and setter both listed under the same name
                attrs = [a for a in ast.walk(d) if isinstance(a, ast.Attribute)]
                if how == "delegate":
                    ok = any(a.attr == fname and isinstance(a.value, ast.Attribute) and isinstance(a.value.value, ast.Name)
                             and a.value.value.id == "self" and a.value.attr in (lazy, "_internal" + lazy)
                             for a in attrs)
                    if not ok:
                        bad.append(f"{cname}.{fname}: does not delegate to self.{lazy}.{fname}")
                    others = [a.attr for a in attrs if isinstance(a.value, ast.Attribute) and isinstance(a.value.value, ast.Name)
                              and a.value.value.id == "self" and a.value.attr in (lazy, "_internal" + lazy) and a.attr != fname]
                    if others:
                        bad.append(f"{cname}.{fname}: uses backend member(s) {sorted(set(others))} of a different name")
                else:
                    pname = how.split(":")[1]
                    if not any(is_stored(a, pname) for a in attrs):
                        bad.append(f"{cname}.{fname}: does not answer from self._{pname}")
        for fname in table:
            if fname not in funcs:
                bad.append(f"{cname}.{fname}: member of the census table is missing")
    return bad, known


def constructor_checks():
    """Argument validation of the constructors (model-independent oracle)."""
    import anyio
    from puppet import World

    bad = []
    w = World()
    with w.session():
        def expect(f, exc, what):
            try:
                f()
            except exc:
                return
            except BaseException as e:  # noqa: BLE001
                bad.append(f"{what}: raised {type(e).__name__} instead of {exc.__name__}")
                return
            bad.append(f"{what}: accepted")
        expect(lambda: anyio.Semaphore(-1), ValueError, "Semaphore(-1)")
        expect(lambda: anyio.Semaphore(1.5), TypeError, "Semaphore(1.5)")
        expect(lambda: anyio.Semaphore(2, max_value=1), ValueError, "Semaphore(2, max_value=1)")
        expect(lambda: anyio.Semaphore(1, max_value=1.5), TypeError, "Semaphore(1, max_value=1.5)")
        expect(lambda: anyio.CapacityLimiter(-1), ValueError, "CapacityLimiter(-1)")
        expect(lambda: anyio.CapacityLimiter(1.5), TypeError, "CapacityLimiter(1.5)")
        expect(lambda: anyio.CapacityLimiter(-math.inf), ValueError, "CapacityLimiter(-inf)")
        expect(lambda: anyio.CapacityLimiter("x"), TypeError, "CapacityLimiter('x')")
        for v in (0, 1, math.inf):
            lim = anyio.CapacityLimiter(v)
            if lim.total_tokens != v or lim.borrowed_tokens != 0 or lim.available_tokens != v:
                bad.append(f"CapacityLimiter({v}) initial state wrong")
        s = anyio.Semaphore(0, max_value=0) if False else anyio.Semaphore(0)
        if s.value != 0 or s.max_value is not None:
            bad.append("Semaphore(0) initial state wrong")
    w.close()
    return bad


TIE_FILES = ("prims/SemGen.v", "prims/LimiterGen.v", "prims/SemGenEq.v", "prims/LimiterGenEq.v")
TIE_HELPERS = {"wloop_handoff": "release (pop loop)", "exec_release": "sem_release_entry", "exec_call_release": "sem_release_entry",
               "lift_cancel_release": "sem_release_entry called from a cancelled continuation",
               "wloop_wake": "lim_total_tokens_entry (the setter's loop)", "wake_free_rv": "lim_total_tokens_entry"}


def check(tier: str) -> int:
    rep = core.Report("C10", tier)
    rep.assumptions = core.TRUSTED_BASE_COMMON + [
        "models prims/Sem.v, prims/Limiter.v hand-written from _asyncio.py:1962-2169 (HEAD, with the F1 fix); cancellation modelled as native Task.cancel() on blocked tasks (superset of what AnyIO scope delivery does to a blocked task)",
        "tie T: tools/translate_prims.py (python ast -> coq/prims/SemGen.v, LimiterGen.v; fail-closed tables per class in the script) regenerates the segments of Semaphore.acquire/acquire_nowait/release and CapacityLimiter.acquire_on_behalf_of(_nowait)/release_on_behalf_of/total_tokens setter/_notify_next_waiter/wrappers/getters on every run; SemGenEq.v / LimiterGenEq.v prove their interpretation (prims/PrimImp.v: exec) equal to Sem.step / Limiter.step for all states, tasks and borrowers. Trusted in it: the translator's tables (Python construct -> PrimImp atom), the cutting of the async methods at their awaits, CPython/asyncio semantics at the cut points (which continuation runs; locals persist; Event.wait of a fresh event suspends: SemImp/LimiterImp.gstep), container semantics taken from the model files (remove_one, set_add, queue_set, queue_pop, free), checkpoint_if_cancelled() at the start of a call read as a no-op in a live scope (C08 covers the cancelled scope). Not the only tie: the same models are co-simulated against the running code below",
        "Limiter theorems are conditional on `tainted = false`: only release_on_behalf_of(b) before b's acquire returned (O2) taints; duplicate borrowers (F16, fixed by 44feca9) are covered, pre-fix behaviour kept as lim_duplicate_waiter_refuted_pinned; D1 (fixed in /repo by cf4519f) is kept only as the pinned witness lim_cancel_foreign_fastyield_refuted_pinned and its corpus case",
    ]
    import time
    stage = {}
    t0 = time.time()
    # tie T: regenerate SemGen.v / LimiterGen.v from the source under test, then rebuild the cone of props/C10.v (under
    # the `tiegen` lock: a concurrent check against another tree cannot swap the generated files in between)
    t_rc, t_out, proofs_ok = tiegen.translate_and_prove(rep, "props/C10.v", "translate_prims.py")
    tie_T, tie_T_broken = tiegen.describe(rep, t_rc, t_out, proofs_ok, TIE_FILES, TIE_HELPERS)
    tie_T["translator"] = "tools/translate_prims.py (python ast -> coq/prims/SemGen.v, LimiterGen.v, fail closed)"
    tie_T["equality_theorems"] = ("SemGenEq.v: tie_acquire_entry, tie_acquire_{yield,wait}_{resumed,cancelled}, tie_acquire_nowait, "
                                  "tie_release, tie_getters, gstep_eq_step; LimiterGenEq.v: tie_acquire_entry, "
                                  "tie_acquire_{yield,event}_{resumed,cancelled}, tie_acquire_nowait, tie_release, tie_set_total, "
                                  "tie_set_total_bad, tie_wrappers, tie_getters, gstep_eq_step (props C10_tie_*)")
    if tie_T.get("segment") and tie_T.get("where"):
        tie_T["segment"] = ("Semaphore: " if "Sem" in tie_T["where"] else "CapacityLimiter: ") + tie_T["segment"]
        tie_T_broken = [b + f" [{tie_T['segment']}]" for b in tie_T_broken]
    rep.coverage["tie_T"] = tie_T
    stage["proofs"] = round(time.time() - t0, 1); t0 = time.time()
    exe = {short: core.build_driver(short, mod) for short, mod in DRIVERS}
    stage["drivers"] = round(time.time() - t0, 1); t0 = time.time()

    rng = random.Random(core.seed())
    runs = []
    corpus_dir = core.VERIF / "corpus" / "C10"
    for f in sorted(corpus_dir.glob("*.json")):
        c = json.loads(f.read_text())
        runs.append(run_script(c["params"], c["ops"]))
    n_corpus = len(runs)
    quick = tier == "quick"
    lens = [6, 10, 16, 24, 40]
    for _ in range(350 if quick else 5000):
        runs.append(random_sem(rng, rng.choice(lens)))
    for _ in range(500 if quick else 7000):
        runs.append(random_lim(rng, rng.choice(lens)))
    n_out = 0
    for _ in range(60 if quick else 700):      # out-of-domain stream (O2 histories): correspondence only
        runs.append(random_lim(rng, rng.choice(lens), allow_outside=True))
        n_out += 1
    n_random = len(runs) - n_corpus
    ex = []
    if quick:
        ex += exhaustive({"prim": "sem", "fast": False, "init": 1, "max": 1, "ntasks": 2}, 4)
        ex += exhaustive({"prim": "sem", "fast": True, "init": 0, "max": None, "ntasks": 2}, 3)
        ex += exhaustive({"prim": "limiter", "total": 1, "ntasks": 2}, 4, lim_small_alphabet)
        ex += exhaustive({"prim": "limiter", "total": 1, "ntasks": 3}, 4, lim_dup_alphabet)
        ex += exhaustive({"prim": "limiter", "total": 1, "ntasks": 2}, 4, lim_entry_alphabet)
    else:
        for fast in (False, True):
            for init, mx in ((0, None), (1, 1), (1, None), (2, 2), (0, 1)):
                ex += exhaustive({"prim": "sem", "fast": fast, "init": init, "max": mx, "ntasks": 3}, 4)
            ex += exhaustive({"prim": "sem", "fast": fast, "init": 1, "max": 1, "ntasks": 2}, 6 if not fast else 5)
        for tot in (0, 1, 2, -1):
            ex += exhaustive({"prim": "limiter", "total": tot, "ntasks": 3}, 4, lim_small_alphabet)
        ex += exhaustive({"prim": "limiter", "total": 1, "ntasks": 2}, 5, lim_small_alphabet)
        ex += exhaustive({"prim": "limiter", "total": 1, "ntasks": 3}, 5, lim_dup_alphabet)
        ex += exhaustive({"prim": "limiter", "total": 0, "ntasks": 3}, 4, lim_dup_alphabet)
        ex += exhaustive({"prim": "limiter", "total": 1, "ntasks": 3}, 4, lim_entry_alphabet)
        ex += exhaustive({"prim": "limiter", "total": 1, "ntasks": 2}, 5, lim_entry_alphabet)
    runs += ex
    # second creation mode: the same script on an object created BEFORE the loop runs (SemaphoreAdapter /
    # CapacityLimiterAdapter); it must be observationally identical, so it is compared with the same model
    n_inloop = len(runs)
    twins = [run_script(r.params(), r.ops, quiesce=False, adapter=True) for r in runs if not r.adapter]
    for _ in range(40 if quick else 400):     # own walks on adapters (fast_acquire requested: finding A1 keeps replays short)
        twins.append(random_sem(rng, rng.choice(lens), adapter=True, fast=True))
    for _ in range(40 if quick else 400):
        twins.append(random_sem(rng, rng.choice(lens), adapter=True))
    runs += twins
    census_bad, census_known = adapter_census()
    observations = {OBS_A1: any(OBS_A1 in r.observed for r in runs) or OBS_A1 in census_known}
    if observations[OBS_A1] != (OBS_A1 in census_known):
        # the syntactic census and the behaviour must tell the same story about the one tolerated parameter
        census_bad.append(f"census and behaviour disagree about {OBS_A1}: census {OBS_A1 in census_known}, runs {any(OBS_A1 in r.observed for r in runs)}")
    ctor_bad = constructor_checks()
    stage["impl_runs"] = round(time.time() - t0, 1); t0 = time.time()

    kind = ["sem" if isinstance(r, SemRun) else "limiter" for r in runs]
    cases = [r.header() + r.ops for r in runs]
    expected = [r.outs for r in runs]
    model_outs = [None] * len(runs)
    for short in ("sem", "limiter"):
        idx = [i for i, k in enumerate(kind) if k == short]
        outs = core.run_driver(exe[short], [cases[i] for i in idx]) if idx else []
        for i, o in zip(idx, outs):
            model_outs[i] = o
    disagreements = []
    rejected = 0
    for r, kd, c, e, m in zip(runs, kind, cases, expected, model_outs):
        es, ms = split_obs(kd if kd == "sem" else "lim", e), split_obs(kd if kd == "sem" else "lim", m)
        rejected += sum(1 for o in ms if o and o[0] == 9)
        if e != m:
            k = next((i for i in range(min(len(es), len(ms))) if es[i] != ms[i]), min(len(es), len(ms)))
            disagreements.append({"params": r.params(), "ops": r.ops, "ops_readable": readable(r)[:k + 1],
                                  "first_diff_step": k, "impl_at_diff": es[k] if k < len(es) else None,
                                  "model_at_diff": ms[k] if k < len(ms) else None})
    monitor_hits = [(r, msg) for r in runs for msg in r.mon]

    stage["model_runs"] = round(time.time() - t0, 1); t0 = time.time()
    # kernel-checked sample
    sample_n = 50 if quick else 300
    vm_ok = True
    vm_idx = []
    for short, mod in DRIVERS:
        idx = [i for i, k in enumerate(kind) if k == short]
        rng.shuffle(idx)
        idx = idx[:sample_n]
        vm_idx += idx
        ok, _log = core.coq_eval_cases("c10" + short, mod, [cases[i] for i in idx], [expected[i] for i in idx])
        vm_ok = vm_ok and ok

    stage["vm_compute"] = round(time.time() - t0, 1); t0 = time.time()
    # ---- decide ----
    seen_msgs = set()
    seen_replays = set()
    reported = 0
    for r, msg in monitor_hits:
        key = msg_key(msg)
        if key in seen_msgs or reported >= 6:
            continue
        seen_msgs.add(key)
        reported += 1
        small = shrink(r, key)
        first = next((m for m in small.mon if msg_key(m) == key), msg)
        rkey = (json.dumps(small.params(), sort_keys=True), tuple(small.ops))
        if rkey in seen_replays:        # same minimal history as an earlier class: keep the first headline
            continue
        seen_replays.add(rkey)
        rep.violation(first,
                      {"kind": "monitor", "params": small.params(), "ops": small.ops, "quiesce": False,
                       "ops_readable": readable(small), "monitor_messages": small.mon[:6],
                       "replay_cmd": "cd /verif && VERIF_REPO=${VERIF_REPO:-/repo} /venv/bin/python harness/c10.py <this file>"})
    for b in ctor_bad:
        rep.violation("constructor validation: " + b, {"kind": "monitor", "what": b})
    tie_broken = []
    if not proofs_ok:
        tie_broken.append("proof obligation: " + str(rep.coverage.get("proof_failure", {}).get("where")))
        tie_broken += tie_T_broken
    if disagreements:
        tie_broken.append("correspondence Sem/Limiter.run_case vs anyio.Semaphore/CapacityLimiter")
    if rejected:
        tie_broken.append(f"model rejected {rejected} ops the implementation performed")
    if not vm_ok and not disagreements:
        tie_broken.append("vm_compute sample disagrees with extracted model")
    for b in census_bad:
        tie_broken.append("adapter census (tie T): " + b)
    if tie_broken and not monitor_hits and not ctor_bad:
        d = min(disagreements, key=lambda d: len(d["ops"])) if disagreements else None
        rep.violation("; ".join(tie_broken), {"kind": "tie", "broken": tie_broken, "case": d, "tie_T": tie_T}, no_input=True)

    flags = {}
    for r in runs:
        for f in r.flags:
            flags[f] = flags.get(f, 0) + 1
    interesting = {"contended_wait", "cancel_waiter", "handoff", "cancel_after_handoff", "wait", "grant_to_waiter",
                   "cancel_before_set", "cancel_after_set", "lower_below_borrowed", "raise_after_lower", "pass_on"}
    distinct = len({(k, tuple(c)) for k, c, r in zip(kind, cases, runs) if r.flags & interesting})
    opcount = {}
    for r in runs:
        names = SEM_OPS if isinstance(r, SemRun) else LIM_OPS
        pre = "sem." if isinstance(r, SemRun) else "lim."
        for i in range(0, len(r.ops), r.W):
            nm = pre + names[r.ops[i]]
            opcount[nm] = opcount.get(nm, 0) + 1
    sizes = {}
    for r in runs:
        b = min(len(r.ops) // r.W // 10 * 10, 60)
        sizes[f"{b}+"] = sizes.get(f"{b}+", 0) + 1
    rep.coverage.update({
        "trusted_base": rep.assumptions,
        "evaluations": len(runs),
        "programs": len(runs),
        "traces_validated_against_impl": len(runs) - len(disagreements),
        "disagreements_checked": len(disagreements),
        "distinct_nontrivial": distinct,
        "rule": "random walk over the ops the implementation enables (idle task: acquire/acquire_nowait/release [limiter: on behalf of itself, another task or a foreign object; total_tokens := inf/0/1/2/3 or an invalid value]; blocked task: resume if its wake-up is queued, native cancel at any cycle incl. the hand-off cycle and the shielded yield), 2-5 tasks, all initial values/totals incl. 0 and inf, max_value None/initial/above, fast_acquire on/off, then quiescence; concurrent acquire_on_behalf_of calls for the SAME borrower key (fresh equal tuples, boosted weight, incl. the call issued in the cycle in which the first waiter was cancelled) are part of the main stream; the main limiter stream excludes only O2 (release_on_behalf_of(b) before b's acquire returned), a separate stream includes it (correspondence only); plus exhaustive enumeration of all enabled op sequences to a fixed depth; non-trivial = reaches a contended wait, a cancelled waiter, a hand-off, a total_tokens lowering below borrowed or a raise after it",
        "exhaustive_small_scope_cases": len(ex),
        "corpus_cases": n_corpus,
        "random_cases": n_random,
        "out_of_domain_stream_cases": n_out,
        "reached": flags,
        "op_distribution": opcount,
        "size_distribution_steps": sizes,
        "vm_compute_sample": len(vm_idx),
        "vm_compute_ok": vm_ok,
        "model_rejected_ops": rejected,
        "monitor_hits": len(monitor_hits),
        "stage_seconds": stage,
        "creation_modes": {"inside_loop_cases": n_inloop, "adapter_cases": len(runs) - n_inloop},
        "adapter_census": {"table": {k: sorted(v[2]) for k, v in ADAPTER_TABLE.items()}, "refusals": census_bad,
                           "observations": census_known},
        "observations": dict(observations, **{OBS_A1 + "_text": OBS_A1_TEXT} if observations[OBS_A1] else {}),
        "constructor_validation_failures": ctor_bad,
        "samples": [{"params": runs[i].params(), "ops": readable(runs[i])[:30], "outs": runs[i].outs[:60]} for i in vm_idx[:2] + vm_idx[-2:]],
    })
    need = ["contended_wait", "cancel_waiter", "handoff", "cancel_after_handoff", "fastpath_yield", "cancel_fastyield",
            "release_at_max", "extra_release", "release_skips_cancelled", "cancelled_grantee_gave_back",
            "wait", "grant_by_release", "grant_by_settotal", "cancel_before_set", "cancel_after_set",
            "cancelled_then_granted", "pass_on", "lower_below_borrowed", "raise_after_lower", "total_zero", "total_inf",
            "double_borrow", "nonborrower_release", "bad_total", "on_behalf_wait", "on_behalf_foreign",
            "cancel_fastyield_foreign", "dup_waiter_rejected", "dup_waiter_same_cycle_as_cancel",
            "acquire_under_cancelled_scope", "check_passes_after_yield", "check_passes_permit_gone_meanwhile",
            "cancel_in_check_yield", "check_spins"]
    for n in need:
        if not flags.get(n):
            rep.notes.append(f"generator self-check: predicate {n} never reached")
    return rep.finish()


if __name__ == "__main__":
    import os
    import warnings

    warnings.simplefilter("ignore")
    sys.path[:0] = [os.environ.get("VERIF_REPO", "/repo") + "/src", str(core.VERIF / "harness")]
    os.chdir(core.VERIF)
    sys.exit(replay(sys.argv[1]))
