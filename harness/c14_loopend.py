"""C14 / F51 directed scenario, run in a subprocess of harness/c14.py (a stuck AnyIO worker thread is not a daemon thread:
the process must be left with os._exit).

    python c14_loopend.py <run_sync|run> <0|1 uvloop>   ->  one JSON line on stdout

Three phases, each with a fresh loop driven by loop.run_until_complete() (variant A of hunt2 finding 1: fully
deterministic, plain asyncio API):
  during     control: the thread of a waiting (non-abandon) call calls back while the loop runs      -> the value
  after_end  the thread of an ABANDONED call (abandon_on_cancel=True, caller timed out and gone) calls back after
             run_until_complete() has returned (the loop's last iteration is over) but before loop.close()
             -> RunFinishedError would be right; F51: the thread waits for ever ("stuck").  "stuck" is only F51 if the
                worker demonstrably reached the call-back (`reached_call`): a worker stuck BEFORE it is something else
  after_close control: ... calls back after loop.close()                                             -> RunFinishedError
"""

from __future__ import annotations

import asyncio
import json
import os
import sys
import threading
import time


def new_loop(uv: bool):
    if uv:
        import uvloop

        return uvloop.new_event_loop()
    return asyncio.new_event_loop()


def phase(kind: str, uv: bool, when: str) -> dict:
    import anyio
    from anyio import from_thread, move_on_after, to_thread

    gate = threading.Event()
    started = threading.Event()
    about_to_call = threading.Event()
    finished = threading.Event()
    outcome: list = []

    async def coro_func():
        return "value"

    def work():
        started.set()
        gate.wait(10)
        about_to_call.set()
        try:
            if kind == "run_sync":
                outcome.append(["returned", from_thread.run_sync(lambda: "value")])
            else:
                outcome.append(["returned", from_thread.run(coro_func)])
        except BaseException as exc:  # noqa: BLE001
            outcome.append(["raised", type(exc).__name__])
        finally:
            finished.set()

    abandoned = {"scope_cancelled": None}

    async def main_abandon():
        with move_on_after(0.05) as scope:
            await to_thread.run_sync(work, abandon_on_cancel=True)
        abandoned["scope_cancelled"] = scope.cancelled_caught

    async def main_wait():
        async def opener():
            while not started.is_set():
                await asyncio.sleep(0.001)
            gate.set()

        t = asyncio.ensure_future(opener())
        await to_thread.run_sync(work)
        await t

    loop = new_loop(uv)
    res: dict = {"when": when}
    try:
        if when == "during":
            loop.run_until_complete(main_wait())
        else:
            loop.run_until_complete(main_abandon())
            res["abandoned"] = bool(abandoned["scope_cancelled"]) and started.is_set()
            if when == "after_end":
                gate.set()                       # the abandoned thread now calls back into the loop
                res["reached_call"] = about_to_call.wait(5)   # the worker really got as far as the call-back
                time.sleep(0.2)                  # the hand-over (call_soon_threadsafe) has landed in a loop that is over
    finally:
        res["closed_before_call"] = when == "after_close"
        loop.close()
    if when == "after_close":
        gate.set()
        res["reached_call"] = about_to_call.wait(5)
    if when == "during":
        res["reached_call"] = about_to_call.is_set()
    if finished.wait(1.5):
        res["outcome"] = outcome[0]
    else:
        res["outcome"] = ["stuck", None]
    return res


def main() -> None:
    kind, uv = sys.argv[1], sys.argv[2] == "1"
    out = {"kind": kind, "uvloop": uv, "phases": []}
    try:
        for when in ("during", "after_close", "after_end"):
            out["phases"].append(phase(kind, uv, when))
    except BaseException as exc:  # noqa: BLE001
        out["error"] = repr(exc)
    out["stuck_threads"] = sum(1 for t in threading.enumerate() if t.name == "AnyIO worker thread" and t.is_alive())
    sys.stdout.write(json.dumps(out) + "\n")
    sys.stdout.flush()
    os._exit(0)


if __name__ == "__main__":
    threading.Timer(30, lambda: os._exit(3)).start()
    main()
