"""C18 — socket streams: correspondence of boundary/SockProto.v with the real StreamProtocol + SocketStream over a
fake asyncio transport, of boundary/UnixLoop.v with the real UNIXSocketStream loops over a scripted fake raw socket
(both on SchedLoop with puppet tasks), history monitors, and end-to-end monitors on real TCP / UNIX sockets
(stock asyncio loop and uvloop; implemented in c18_sock_e2e.py)."""

from __future__ import annotations

import json
import random
from asyncio import CancelledError

import core

DRIVERS = [("sockproto", "SockProto"), ("unixloop", "UnixLoop")]

# ------------------------------------------------------------------------------------------------------------
# Part (a1): SockProto  —  real StreamProtocol + SocketStream over a fake transport
# ------------------------------------------------------------------------------------------------------------

RECEIVE, SEND, SENDEOF, CLOSE, RESUME, CANCEL, DATA, EOF, LOST, PAUSEW, RESUMEW = range(11)
OPN = {0: "Receive", 1: "Send", 2: "SendEof", 3: "Close", 4: "Resume", 5: "Cancel", 6: "DataReceived",
       7: "EofReceived", 8: "ConnectionLost", 9: "PauseWriting", 10: "ResumeWriting"}
LOST_EXC = [ConnectionResetError, BrokenPipeError]
NOBS = 15  # length of the state part of an observation


def flat_ops(ops) -> list[int]:
    out: list[int] = []
    for (c, a, b, pl) in ops:
        out += [c, a, b, len(pl), *pl]
    return out


def readable(ops):
    return [(OPN[c], a, b, list(pl)) if pl else (OPN[c], a, b) for (c, a, b, pl) in ops]


class FakeTransport:
    """Records what AnyIO asks of the transport.  write() after write_eof() raises RuntimeError like the selector
    transport; write_eof() is ignored while closing; pause_next: the transport calls protocol.pause_writing()
    from inside the next write() (what a real transport does when the kernel does not take everything)."""

    def __init__(self, proto):
        self.proto = proto
        self.closing = False
        self.reading = True
        self.eof = False
        self.aborted = False
        self.writes: list[bytes] = []
        self.limits: list = []
        self.pause_next = False
        self.pending = 0
        self.calls: list[str] = []

    def set_write_buffer_limits(self, high=None, low=None):
        self.limits.append((high, low))

    def is_closing(self):
        return self.closing

    def pause_reading(self):
        self.calls.append("pause_reading")
        self.reading = False

    def resume_reading(self):
        self.calls.append("resume_reading")
        self.reading = True

    def write(self, data):
        if self.eof:
            raise RuntimeError("Cannot call write() after write_eof()")
        # items whose drain has not been signalled: a write with the gate open leaves 1 (if the transport pauses) or 0,
        # a write with the gate closed piles one more on top (codec field g_pending)
        if self.proto.write_event.is_set():
            self.pending = 1 if self.pause_next else 0
        else:
            self.pending += 1
        self.writes.append(bytes(data))
        if self.pause_next:
            self.pause_next = False
            self.proto.pause_writing()

    def write_eof(self):
        if self.closing or self.eof:
            return
        self.eof = True

    def close(self):
        self.closing = True

    def abort(self):
        self.aborted = True

    def get_extra_info(self, name, default=None):
        return default

    def get_write_buffer_size(self):
        return 0


class SockRun:
    """Executes ops against the real classes, records observations in the codec's format and runs the monitors."""

    def __init__(self, reading0: bool, ntasks: int):
        import anyio
        from anyio._backends import _asyncio as be
        from puppet import World

        self.anyio = anyio
        self.be = be
        self.world = World()
        self.reading0 = reading0
        self.ntasks = ntasks
        self.ops: list[tuple] = []
        self.outs: list[int] = []
        self.mon: list[str] = []
        self.flags: set[str] = set()
        self.nbyte = 0
        # history for the monitors (implementation-visible events only)
        self.h_recv = bytearray()      # all data_received payloads
        self.h_ret = bytearray()       # all chunks returned by receive()
        self.h_items = bytearray()     # items of the sends that reached transport.write()
        self.h_eof = False
        self.h_lost = None             # None | "clean" | "exc"
        self.h_closed = False
        self.h_gate = True             # write gate as seen from the callbacks
        self.in_recv: dict[int, dict] = {}
        self.in_send: dict[int, dict] = {}
        self.in_close: dict[int, dict] = {}

    def __enter__(self):
        self._sess = self.world.session()
        self._sess.__enter__()
        self.proto = self.be.StreamProtocol()
        self.tr = FakeTransport(self.proto)
        self.proto.connection_made(self.tr)
        if not self.reading0:
            self.tr.pause_reading()           # what connect_tcp / accept / wrap_stream_socket do
        self.stream = self.be.SocketStream(self.tr, self.proto)
        if self.tr.limits != [(0, None)] and self.tr.limits != [(0,)]:
            self.mon.append(f"connection_made did not request the zero write-buffer limit: {self.tr.limits}")
        for t in range(1, self.ntasks + 1):
            self.world.spawn(t)
        return self

    def __exit__(self, *a):
        self.world.close()
        self._sess.__exit__(*a)
        # everything the check needs later (ops, outs/final, mon, flags) is plain data: drop the loop, tasks and streams now
        self.world = self.proto = self.tr = self.stream = self._sess = None

    def fresh_bytes(self, n: int) -> list[int]:
        out = [(self.nbyte + i) % 251 for i in range(n)]
        self.nbyte += n
        return out

    # -- implementation state in the codec's format --
    def state_obs(self) -> list[int]:
        p, tr, s = self.proto, self.tr, self.stream
        exc = 0
        if p.exception is not None:
            exc = 1 + next((i for i, k in enumerate(LOST_EXC) if type(p.exception) is k), 7)
        return [len(p.read_queue), sum(len(c) for c in p.read_queue), int(p.read_event.is_set()),
                int(p.write_event.is_set()), int(p.is_at_eof), exc, int(s._closed), int(tr.closing),
                int(tr.reading), int(tr.eof), int(tr.aborted), int(s._receive_guard._guarded),
                int(s._send_guard._guarded), sum(len(w) for w in tr.writes), tr.pending]

    def final_dump(self) -> list[int]:
        out = [-1]
        for c in self.proto.read_queue:
            out += [len(c), *c]
        out.append(-2)
        for w in self.tr.writes:
            out += list(w)
        return out

    def res_obs(self, outcome) -> list[int]:
        a = self.anyio
        if outcome is None:
            return [11]
        kind, val = outcome
        if kind == "blocked":
            return [1]
        if kind == "ok":
            if isinstance(val, (bytes, bytearray)):
                return [3, len(val), *val]
            return [0]
        if isinstance(val, CancelledError):
            return [2]
        for cls, code in ((a.EndOfStream, 4), (a.ClosedResourceError, 5), (a.BrokenResourceError, 6),
                          (a.BusyResourceError, 7), (ValueError, 8), (RuntimeError, 10)):
            if isinstance(val, cls):
                return [code]
        return [12]

    def enabled(self):
        en = []
        for t, p in self.world.puppets.items():
            if p.at_decision:
                en += [(RECEIVE, t), (SEND, t), (SENDEOF, t), (CLOSE, t)]
            else:
                if self.world.runnable(p):
                    en.append((RESUME, t))
                en.append((CANCEL, t))
        en += [(DATA, 0), (EOF, 0), (LOST, 0), (PAUSEW, 0), (RESUMEW, 0)]
        return en

    def possible(self, c, a) -> bool:
        if c in (DATA, EOF, LOST, PAUSEW, RESUMEW):
            return True
        p = self.world.puppets.get(a)
        if p is None:
            return False
        if c in (RECEIVE, SEND, SENDEOF, CLOSE):
            return p.at_decision
        if c == RESUME:
            return (not p.at_decision) and self.world.runnable(p)
        return not p.at_decision

    def do(self, c, a=0, b=0, pl=()):
        w, stream, proto = self.world, self.stream, self.proto
        pl = list(pl)
        out = None
        if c == RECEIVE:
            async def cmd(p):
                return await stream.receive(b)
            out = w.act(a, cmd)
        elif c == SEND:
            data = bytes(pl)

            async def cmd(p):
                return await stream.send(data)
            out = w.act(a, cmd)
        elif c == SENDEOF:
            async def cmd(p):
                return await stream.send_eof()
            out = w.act(a, cmd)
        elif c == CLOSE:
            self._was_closing = self.tr.closing
            async def cmd(p):
                return await stream.aclose()
            out = w.act(a, cmd)
        elif c == RESUME:
            self.tr.pause_next = bool(b)
            nw = len(self.tr.writes)
            out = w.resume(a)
            self.tr.pause_next = False
            wrote = len(self.tr.writes) > nw
        elif c == CANCEL:
            w.puppets[a].task.cancel()
        elif c == DATA:
            proto.data_received(bytes(pl))
        elif c == EOF:
            proto.eof_received()
        elif c == LOST:
            self.tr.closing = True
            self.tr.pending = 0
            proto.connection_lost(None if b == 0 else LOST_EXC[b - 1]("injected"))
        elif c == PAUSEW:
            proto.pause_writing()
        elif c == RESUMEW:
            self.tr.pending = 0
            proto.resume_writing()
        r = self.res_obs(out)
        self.ops.append((c, a, b, tuple(pl)))
        self.outs += r + self.state_obs()
        self.monitor(c, a, b, pl, r, wrote if c == RESUME else False)

    # -- property monitors on the observable history (independent of the model) --
    def monitor(self, c, a, b, pl, r, wrote):
        k = r[0]
        m = self.mon.append
        if c == DATA:
            self.h_recv += bytes(pl)
        elif c == EOF:
            self.h_eof = True
        elif c == LOST:
            self.h_lost = "exc" if b else (self.h_lost or "clean")
            self.h_gate = True
            for d in self.in_send.values():
                d["opened"] = True
        elif c == PAUSEW:
            self.h_gate = False
        elif c == RESUMEW:
            self.h_gate = True
            for d in self.in_send.values():
                d["opened"] = True
        elif c == CANCEL:
            for d in (self.in_recv.get(a), self.in_send.get(a), self.in_close.get(a)):
                if d is not None:
                    d["cancel"] = True
                    self.flags.add("cancel_in_call")
        elif c == SENDEOF:
            if k != 0:
                m(f"send_eof raised (code {k})")
        elif c == CLOSE:
            self.h_closed = True
            if k == 1:
                self.in_close[a] = {"was_closing": self._was_closing, "cancel": False}
            elif k != 0:
                m(f"aclose raised (code {k})")
        elif c == RECEIVE:
            others = [t for t in self.in_recv if t != a]
            if b < 1:
                if k != 8:
                    m(f"receive({b}) did not raise ValueError (code {k})")
            elif others:
                self.flags.add("busy_recv")
                if k != 7:
                    m(f"task {a} entered receive() while task {others} is inside it (code {k}, expected BusyResourceError)")
            else:
                if k == 7:
                    m(f"receive() by task {a} raised BusyResourceError although no task is inside receive(): guard not released")
                elif k == 1:
                    self.in_recv[a] = {"mx": b, "cancel": False, "after_close": self.h_closed,
                                       "waits": not self.world.runnable(self.world.puppets[a])}
                    if self.h_closed:
                        self.flags.add("recv_after_close")
                        if not self.world.runnable(self.world.puppets[a]):
                            m("receive() on a locally closed stream blocks (no wake-up scheduled)")
                    if not self.world.runnable(self.world.puppets[a]):
                        self.flags.add("recv_waits")
                else:
                    m(f"receive() finished without a checkpoint (code {k})")
        elif c == SEND:
            others = [t for t in self.in_send if t != a]
            if others:
                self.flags.add("busy_send")
                if k != 7:
                    m(f"task {a} entered send() while task {others} is inside it (code {k}, expected BusyResourceError)")
            else:
                if k == 7:
                    m(f"send() by task {a} raised BusyResourceError although no task is inside send(): guard not released")
                elif k == 1:
                    self.in_send[a] = {"item": bytes(pl), "wrote": False, "cancel": False, "opened": False,
                                       "after_close": self.h_closed, "gate_after_write": None}
                else:
                    m(f"send() finished without a checkpoint (code {k})")
        elif c == RESUME:
            if a in self.in_recv:
                d = self.in_recv[a]
                if k == 1:
                    m("receive() suspended a second time")
                else:
                    del self.in_recv[a]
                if k == 3:
                    chunk = bytes(r[2:2 + r[1]])
                    self.h_ret += chunk
                    if not (1 <= len(chunk) <= d["mx"]):
                        m(f"receive({d['mx']}) returned {len(chunk)} bytes")
                    if len(chunk) == d["mx"]:
                        self.flags.add("chunk_split_or_exact")
                    if not bytes(self.h_recv).startswith(bytes(self.h_ret)):
                        m("received chunks are not a prefix of the bytes delivered by the transport (lost, duplicated or reordered)")
                elif k == 4:
                    self.flags.add("end_of_stream")
                    if not (self.h_eof or self.h_lost == "clean"):
                        m("EndOfStream without EOF from the transport")
                    if bytes(self.h_ret) != bytes(self.h_recv):
                        m(f"EndOfStream while {len(self.h_recv) - len(self.h_ret)} delivered bytes were never returned")
                    if self.h_closed:
                        m("EndOfStream on a locally closed stream (expected ClosedResourceError)")
                elif k == 5:
                    self.flags.add("recv_closed_error")
                    if not self.h_closed:
                        m("receive() raised ClosedResourceError on a stream that was not closed locally")
                    if bytes(self.h_ret) != bytes(self.h_recv):
                        m("ClosedResourceError from receive() while already-received data is left")
                elif k == 6:
                    self.flags.add("recv_broken")
                    if self.h_lost != "exc":
                        m("BrokenResourceError from receive() without a connection error")
                    if bytes(self.h_ret) != bytes(self.h_recv):
                        m("BrokenResourceError from receive() while already-received data is left")
                elif k == 2:
                    if not d["cancel"]:
                        m("receive() raised CancelledError without a cancel request")
                elif k != 1:
                    m(f"receive() ended with unexpected code {k}")
            elif a in self.in_send:
                d = self.in_send[a]
                if not d["wrote"] and wrote:
                    d["wrote"] = True
                    self.h_items += d["item"]
                    d["gate_after_write"] = self.h_gate if not b else False
                    if b:
                        self.h_gate = False
                    d["opened"] = False
                    if d["after_close"]:
                        m("send() on a locally closed stream wrote to the transport")
                if k != 1:
                    del self.in_send[a]
                if k == 0:
                    if self.h_closed:
                        m("send() returned normally although the stream was closed locally before it finished "
                          "(the transport discards its write buffer: data silently dropped, success reported)")
                    if self.h_lost == "exc":
                        m("send() returned normally although the connection was lost (connection_lost(exc)) before it finished")
                    if d["opened"] and not self.h_closed and self.h_lost != "exc":
                        self.flags.add("send_released_by_resume_writing")
                    if not d["wrote"]:
                        m("send() returned without handing the item to transport.write()")
                    elif not (d["gate_after_write"] or d["opened"]):
                        m("send() returned although the transport had paused writing and has not resumed it (no back-pressure)")
                    if d["gate_after_write"] is False:
                        self.flags.add("send_waited_for_gate")
                elif k == 1:
                    if d["gate_after_write"]:
                        m("send() blocked although the write gate is open")
                    self.flags.add("send_blocked")
                    if not d["wrote"]:
                        self.flags.add("send_waits_before_write")      # data of an earlier (cancelled) send() must drain first
                elif k == 5:
                    self.flags.add("send_closed_error")
                    if d["wrote"]:
                        self.flags.add("send_wait_ended_by_close")
                    if not self.h_closed:
                        m("send() raised ClosedResourceError on a stream that was not closed locally")
                elif k == 6:
                    if d["wrote"]:
                        self.flags.add("send_wait_ended_by_connection_lost")
                    if self.h_lost != "exc" and not self.tr.closing:
                        m("send() raised BrokenResourceError without a connection error")
                elif k == 2:
                    if not d["cancel"]:
                        m("send() raised CancelledError without a cancel request")
                if k in (0, 1) and d["after_close"]:
                    m(f"send() on a locally closed stream did not raise ClosedResourceError (code {k})")
            elif a in self.in_close:
                d = self.in_close[a]
                if k != 1:
                    del self.in_close[a]
                    if k == 2:
                        self.flags.add("close_cancelled")
                        if not d["cancel"]:
                            m("aclose() raised CancelledError without a cancel request")
                    if k in (0, 2) and not d["was_closing"] and not self.tr.aborted:
                        parked = sorted(list(self.in_recv) + list(self.in_send))
                        m("aclose() ended" + (" (cancelled in its checkpoint)" if k == 2 else "") + " without aborting the transport: "
                          "with a non-empty write buffer the transport never reports connection_lost, so parked calls are not woken by "
                          f"the close (tasks inside receive()/send(): {parked})")
        # global facts after every step
        if self.tr.pending > 1 and not any("more than one send" in x for x in self.mon):
            m(f"the transport's write buffer holds data of more than one send(): {self.tr.pending} items were handed to "
              "transport.write() since the transport paused writing and none of them has drained (no back-pressure: every "
              "send() after a cancelled one piles its item on top)")
        if bytes(b"".join(self.tr.writes)) != bytes(self.h_items):
            m("bytes handed to transport.write() differ from the items of the sends that reached it")
        st = self.state_obs()
        if not self.in_recv and st[11]:
            m("receive guard still held although no task is inside receive()")
        if not self.in_send and st[12]:
            m("send guard still held although no task is inside send()")
        if st[8]:
            self.flags.add("reading_resumed")
            if not self.reading0 and not any(d["waits"] for d in self.in_recv.values()):
                m("transport reading is resumed while no receive() is waiting (no receive-side back-pressure)")

    def quiesce(self):
        """Drive every task out of its call (cancelling the ones that cannot proceed)."""
        for _ in range(100):
            busy = [t for t, p in self.world.puppets.items() if not p.at_decision]
            if not busy:
                break
            t = busy[0]
            if not self.world.runnable(self.world.puppets[t]):
                self.do(CANCEL, t)
            self.do(RESUME, t, 0)
        st = self.state_obs()
        if st[11] or st[12]:
            self.mon.append("a guard is still held after every call has ended")
        if self.world.loop.errors:
            self.mon.append(f"loop errors: {self.world.loop.errors[:2]}")

    def case(self) -> list[int]:
        return [int(self.reading0)] + flat_ops(self.ops)

    def expected(self) -> list[int]:
        return self.outs + self.final_dump()


def sock_run_script(reading0, ntasks, ops, quiesce=True, tolerant=False):
    with SockRun(reading0, ntasks) as r:
        for (c, a, b, pl) in ops:
            if not r.possible(c, a):
                if tolerant:
                    continue
                # a stored script no longer fits the implementation: stop here; the executed prefix is still compared
                r.flags.add("script_diverged")
                break
            r.do(c, a, b, pl)
        if quiesce:
            r.quiesce()
        r.final = r.expected()
        return r


def sock_random_case(rng: random.Random, nsteps: int):
    reading0 = rng.random() < 0.15
    ntasks = rng.choice([1, 2, 2, 3, 3, 4])
    wenv = rng.choice([0.6, 1.0, 2.0])
    wcancel = rng.choice([0.2, 1.0, 2.5])
    contract = rng.random() < 0.7       # env follows the transport contract
    maxes = rng.choice([[1, 2, 3], [1, 2, 3, 4, 5, 8], [1, 4, 16, 65536], [2, 3, 7]])
    with SockRun(reading0, ntasks) as r:
        lost = False
        for _ in range(nsteps):
            en = r.enabled()
            ws = []
            for (c, t) in en:
                wt = {RECEIVE: 5, SEND: 3, SENDEOF: 0.3, CLOSE: 0.35, RESUME: 7, CANCEL: wcancel,
                      DATA: 4 * wenv, EOF: 0.5 * wenv, LOST: 0.3 * wenv, PAUSEW: 1.2 * wenv, RESUMEW: 1.5 * wenv}[c]
                if contract:
                    if c in (DATA, EOF) and (r.h_eof or lost or r.tr.closing):
                        wt = 0
                    if c == DATA and not r.tr.reading:
                        wt *= 0.25
                    if c == LOST and (lost or (not r.tr.closing and rng.random() < 0.5)):
                        wt = 0
                    if c == LOST and not r.tr.closing:
                        wt *= 0.6   # only with an error (chosen below)
                    if c == PAUSEW and (not r.h_gate or lost):
                        wt = 0
                    if c == RESUMEW and (r.h_gate or lost):
                        wt = 0
                ws.append(wt)
            c, t = rng.choices(en, ws)[0]
            if c == RECEIVE:
                mx = rng.choice(maxes) if rng.random() < 0.97 else 0
                r.do(RECEIVE, t, mx)
            elif c == SEND:
                n = rng.choice([0, 1, 1, 2, 3, 5])
                r.do(SEND, t, 0, r.fresh_bytes(n))
            elif c == RESUME:
                r.do(RESUME, t, 1 if rng.random() < 0.4 else 0)
            elif c == DATA:
                n = rng.choice([1, 1, 2, 3, 4, 6, 9, 13])
                r.do(DATA, 0, 0, r.fresh_bytes(n))
            elif c == LOST:
                if contract and not r.h_closed:
                    b = rng.choice([1, 2])
                else:
                    b = rng.choice([0, 0, 1, 2])
                lost = True
                r.do(LOST, 0, b)
            else:
                r.do(c, t)
        r.quiesce()
        r.final = r.expected()
        return r


def sock_shrink(r: "SockRun"):
    """Drop ops while some monitor still trips (replay tolerantly: ops that became impossible are skipped)."""
    ops = list(r.ops)
    best = r
    i = len(ops) - 1
    budget = 400
    while i >= 0 and budget > 0:
        budget -= 1
        cand = ops[:i] + ops[i + 1:]
        try:
            rr = sock_run_script(r.reading0, r.ntasks, cand, quiesce=False, tolerant=True)
        except Exception:  # noqa: BLE001
            rr = None
        if rr is not None and rr.mon:
            ops = list(rr.ops)
            best = rr
            i = min(i, len(ops)) - 1
        else:
            i -= 1
    return best


def sock_exhaustive(ntasks: int, depth: int, reading0: bool):
    """All sequences of enabled op kinds up to `depth` over a small alphabet (DFS by replay)."""
    results = []
    alphabet_env = [(DATA, 0, 0, (1, 2, 3)), (EOF, 0, 0, ()), (LOST, 0, 1, ()), (PAUSEW, 0, 0, ()), (RESUMEW, 0, 0, ())]

    def rec(prefix):
        with SockRun(reading0, ntasks) as r:
            for (c, a, b, pl) in prefix:
                r.do(c, a, b, pl)
            en = r.enabled()
            unwritten = {t for t, d in r.in_send.items() if not d["wrote"]}
            if len(prefix) >= depth:
                r.quiesce()
                r.final = r.expected()
                results.append(r)
                return
        used = {a for (c, a, b, pl) in prefix if c <= CANCEL}
        for (c, t) in en:
            if c <= CANCEL and t not in used and t != min(set(range(1, ntasks + 1)) - used, default=t):
                continue
            if c == RECEIVE:
                rec(prefix + [(RECEIVE, t, 2, ())])
            elif c == SEND:
                rec(prefix + [(SEND, t, 0, (7,))])
            elif c == RESUME:
                rec(prefix + [(RESUME, t, 0, ())])
                if t in unwritten:
                    rec(prefix + [(RESUME, t, 1, ())])
            elif c in (SENDEOF, CLOSE, CANCEL):
                rec(prefix + [(c, t, 0, ())])
        for e in alphabet_env:
            rec(prefix + [e])

    rec([])
    return results


# ------------------------------------------------------------------------------------------------------------
# Part (a2): UnixLoop  —  real UNIXSocketStream.send/receive over a scripted fake raw socket
# ------------------------------------------------------------------------------------------------------------

U_OK, U_READY, U_CANCEL, U_CLOSE, U_ERR = range(5)
U_PARK = 10   # codes 11/12/13: would-block during which OTHER tasks invoke entry points of the same stream, then Ready/Cancel/Close
UOPN = {0: "Ok", 1: "Block/Ready", 2: "Block/Cancel", 3: "Block/Close", 4: "Err",
        11: "Park[intruders]/Ready", 12: "Park[intruders]/Cancel", 13: "Park[intruders]/Close"}
E_SEND, E_SENDEOF, E_SENDFDS, E_RECEIVE, E_RECEIVEFDS = 1, 2, 3, 4, 5
ENTRYN = {1: "send", 2: "send_eof", 3: "send_fds", 4: "receive", 5: "receive_fds"}


def enc_entries(es) -> int:
    """intruders of a parked send, base 4, least significant digit first (codec of UnixLoop.decode_digits)"""
    return sum(e * 4 ** i for i, e in enumerate(es))


def dec_entries(a: int) -> list[int]:
    out = []
    for _ in range(8):
        if a % 4 == 0:
            break
        out.append(a % 4)
        a //= 4
    return out


def entry_wake(kind: int, e):
    """(wake code, intruding entry points) of a would-block script entry"""
    if e[0] > U_PARK:
        return e[0] - U_PARK, (dec_entries(e[1]) if kind == 0 else list(e[2]))
    return e[0], []


def script_readable(kind: int, script):
    out = []
    for e in script:
        if e[0] > U_PARK:
            out.append((UOPN[e[0]], [ENTRYN.get(x, x) for x in entry_wake(kind, e)[1]]))
        else:
            out.append((UOPN[e[0]],) + tuple(e[1:]))
    return out


class ScriptExhausted(BaseException):
    """The fake kernel has no answer left (the real code made more calls than the script allows)."""


class FakeRawSocket:
    def __init__(self, run):
        self.run = run
        self.closed = False
        self.family = None

    def fileno(self):
        return -1 if self.closed else 99

    def close(self):
        self.closed = True

    def shutdown(self, how):
        self.run.shut = True
        if self.run.intruding and not self.run.shut_while_parked:
            self.run.shut_while_parked = True
            self.run.shut_at = len(self.run.handed)

    def sendmsg(self, *a):
        return self._next()    # never scripted: only reached through the intrusion check below

    def recvmsg(self, *a):
        return self._next()

    def _next(self):
        r = self.run
        if r.intruding:
            # a second task got past the guard and reached the kernel while the first call is parked
            r.intr_kernel_calls += 1
            raise OSError(32, "intruder reached the socket")
        if r.pos >= len(r.script):
            raise ScriptExhausted()
        e = r.script[r.pos]
        r.pos += 1
        r.calls += 1
        return e

    def send(self, view):
        r = self.run
        arg = bytes(view)
        r.send_args.append(arg)
        e = self._next()
        if e[0] == U_OK:
            n = e[1]
            r.handed += arg[:n]
            return n
        if e[0] == U_ERR:
            raise OSError(9 if self.closed else 32, "injected")
        r.pending_wake, r.pending_intr = entry_wake(0, e)
        raise BlockingIOError()

    def recv(self, n):
        r = self.run
        r.recv_args.append(n)
        e = self._next()
        if e[0] == U_OK:
            return bytes(e[2])
        if e[0] == U_ERR:
            raise OSError(9 if self.closed else 104, "injected")
        r.pending_wake, r.pending_intr = entry_wake(1, e)
        raise BlockingIOError()


class UnixRun:
    """One call of UNIXSocketStream.send / receive against the oracle script, on SchedLoop."""

    def __init__(self, kind, cancel0, busy, closing0, mx, item, script):
        self.kind, self.cancel0, self.busy, self.closing0 = kind, cancel0, busy, closing0
        self.mx, self.item, self.script = mx, list(item), [tuple(e) for e in script]
        self.pos = 0
        self.calls = 0
        self.waits = 0
        self.handed = bytearray()
        self.send_args: list[bytes] = []
        self.recv_args: list[int] = []
        self.pending_wake = None
        self.pending_intr: list[int] = []
        self.intruding = False
        self.intr_kernel_calls = 0
        self.intr: list[tuple[int, int, int]] = []  # (entry point, outcome code, bytes accepted so far) of every intruding call
        self.shut = False
        self.shut_while_parked = False
        self.shut_at = 0
        self.mon: list[str] = []
        self.flags: set[str] = set()

    def valid(self) -> bool:
        """aclose() wakes a waiting call only once: a wait cannot end by 'close' on an already closed stream."""
        ncl = sum(1 for e in self.script if e[0] in (U_CLOSE, U_PARK + U_CLOSE))
        return ncl <= (0 if self.closing0 else 1)

    def case(self) -> list[int]:
        out = [self.kind, int(self.cancel0), int(self.busy), int(self.closing0), self.mx, len(self.item), *self.item]
        for e in self.script:
            if self.kind == 0:
                out += [e[0], e[1]]
            else:
                pl = list(e[2]) if (e[0] == U_OK or e[0] > U_PARK) else []
                out += [e[0], len(pl), *pl]
        return out

    def execute(self):
        import anyio
        from anyio._backends import _asyncio as be
        from puppet import World

        w = World()
        regs = {"r": {}, "w": {}}
        loop = w.loop

        def add_reader(fd, cb, *a):
            regs["r"][id(fd)] = (cb, a)
            self.waits += 1

        def add_writer(fd, cb, *a):
            regs["w"][id(fd)] = (cb, a)
            self.waits += 1

        loop.add_reader = add_reader
        loop.add_writer = add_writer
        loop.remove_reader = lambda fd: regs["r"].pop(id(fd), None) is not None
        loop.remove_writer = lambda fd: regs["w"].pop(id(fd), None) is not None

        def flush_other():
            # run the ready entries that are not puppet steps (future done-callbacks), FIFO
            for _ in range(20):
                hs = [h for h in loop.ready_handles()
                      if getattr(h._callback, "__self__", None) not in [p.task for p in w.puppets.values()]]
                if not hs:
                    break
                loop.run_handle(hs[0])

        with w.session():
            try:
                sock = FakeRawSocket(self)
                stream = be.UNIXSocketStream(sock)
                w.spawn(1)
                w.spawn(2)
                if self.closing0:
                    async def closer(p):
                        await stream.aclose()
                    assert w.act(2, closer) == ("ok", None)
                guard = stream._send_guard if self.kind == 0 else stream._receive_guard
                if self.busy:
                    guard._guarded = True     # another task is inside the same direction
                item = bytes(self.item)
                if self.kind == 0:
                    async def cmd(p):
                        return await stream.send(item)
                else:
                    mx = self.mx

                    async def cmd(p):
                        return await stream.receive(mx)
                out = w.act(1, cmd)
                if out[0] == "blocked" and self.cancel0:
                    w.puppets[1].task.cancel()
                steps = 0
                while out is not None and out[0] == "blocked" and steps < 200:
                    steps += 1
                    if not w.runnable(w.puppets[1]):
                        # parked on the readiness future: first the other tasks' calls on the same stream ...
                        for ent in self.pending_intr:
                            at = len(self.handed)
                            self.intr.append((ent, self.intrude(w, stream, anyio, ent), at))
                        self.pending_intr = []
                        # ... then end the wait as the script says
                        wk = self.pending_wake
                        self.pending_wake = None
                        reg = regs["w" if self.kind == 0 else "r"]
                        if wk == U_READY:
                            if not reg:
                                self.mon.append("waiting for readiness without add_reader/add_writer registration")
                                break
                            cb, a = next(iter(reg.values()))
                            cb(*a)
                        elif wk == U_CANCEL:
                            w.puppets[1].task.cancel()
                        elif wk == U_CLOSE:
                            async def closer(p):
                                await stream.aclose()
                            w.act(2, closer)
                        else:
                            self.mon.append("task suspended although the kernel did not answer would-block")
                            break
                        flush_other()
                    out = w.resume(1)
                self.outcome = out
                self.closing_after = bool(stream._closing)
                self.guard_after = bool(guard._guarded)
                if regs["r"] or regs["w"]:
                    flush_other()
                if (regs["r"] or regs["w"]) and not self.closing_after:
                    # (after a local close the done-callbacks leave the registrations to aclose(); an oracle script that
                    # answers would-block on a closed socket is outside the kernel contract - the close LTS covers that part)
                    self.mon.append("reader/writer registration leaked after the call ended")
                if loop.errors:
                    self.mon.append(f"loop errors: {loop.errors[:2]}")
            finally:
                w.close()
        self.observe(anyio)
        self.monitor()
        return self

    def intrude(self, w, stream, anyio, ent: int) -> int:
        """Puppet 2 invokes one entry point of the stream while puppet 1 is parked.  7 = BusyResourceError,
        14 = admitted (returned normally), 15 = anything else."""
        if ent == E_SEND:
            async def cmd(p):
                return await stream.send(b"\xff")
        elif ent == E_SENDEOF:
            async def cmd(p):
                return await stream.send_eof()
        elif ent == E_SENDFDS:
            async def cmd(p):
                return await stream.send_fds(b"\xff", [0])
        elif ent == E_RECEIVE:
            async def cmd(p):
                return await stream.receive(1)
        else:
            async def cmd(p):
                return await stream.receive_fds(1, 1)
        self.intruding = True
        try:
            out = w.act(2, cmd)
            for _ in range(6):
                if out is None or out[0] != "blocked" or not w.runnable(w.puppets[2]):
                    break
                out = w.resume(2)         # the intruder's own checkpoint
            if out is not None and out[0] == "blocked":
                w.puppets[2].task.cancel()
                w.resume(2)
                return 15
        finally:
            self.intruding = False
        if out is None:
            return 15
        if out[0] == "ok":
            return 14
        return 7 if isinstance(out[1], anyio.BusyResourceError) else 15

    def observe(self, anyio):
        out = self.outcome
        if out is None or out[0] == "blocked":
            r = [13]
        elif out[0] == "ok":
            v = out[1]
            r = [3, len(v), *v] if isinstance(v, (bytes, bytearray)) else [0]
        else:
            v = out[1]
            r = [12]
            for cls, code in ((CancelledError, 2), (anyio.EndOfStream, 4), (anyio.ClosedResourceError, 5),
                              (anyio.BrokenResourceError, 6), (anyio.BusyResourceError, 7), (ValueError, 8),
                              (ScriptExhausted, 9)):
                if isinstance(v, cls):
                    r = [code]
                    break
        self.res = r
        self.expected = r + [self.calls, self.waits, int(self.closing_after), int(self.guard_after), -1, *self.handed,
                             -2, int(self.shut), *[c for (_, c, _) in self.intr]]

    def monitor(self):
        m = self.mon.append
        k = self.res[0]
        item = bytes(self.item)
        if self.kind == 0:
            off = 0
            acc = 0
            for i, arg in enumerate(self.send_args):
                if arg != item[off:]:
                    m(f"send() call {i} was given {len(arg)} bytes, expected the {len(item) - off} not yet accepted ones (view not advanced correctly)")
                    break
                e = self.script[i] if i < len(self.script) else None
                if e and e[0] == U_OK:
                    off += min(e[1], len(arg))
            if not item.startswith(bytes(self.handed)):
                m("bytes accepted by the kernel are not a prefix of the item (duplicated or reordered)")
            if k == 0 and bytes(self.handed) != item:
                m(f"send() returned after the kernel accepted {len(self.handed)} of {len(item)} bytes")
            if k == 0:
                self.flags.add("send_done")
                if any(e[0] == U_OK and 0 < e[1] < len(item) for e in self.script[:self.pos]):
                    self.flags.add("partial_send")
        else:
            if any(a != self.mx for a in self.recv_args):
                m(f"recv() called with {self.recv_args}, max_bytes={self.mx}")
            if k == 3:
                data = bytes(self.res[2:])
                last = self.script[self.pos - 1] if self.pos else None
                if not last or last[0] != U_OK or bytes(last[2]) != data:
                    m("receive() returned something else than the kernel's answer")
                if len(data) == 0:
                    m("receive() returned an empty chunk")
                if len(bytes(last[2])) <= self.mx < len(data):
                    m("receive() returned more than max_bytes")
                self.flags.add("recv_data")
            if k == 4:
                self.flags.add("recv_eof")
                last = self.script[self.pos - 1] if self.pos else None
                if not last or last[0] != U_OK or len(last[2]) != 0:
                    m("EndOfStream although the kernel did not report EOF")
        if any(e[0] in (U_READY, U_CANCEL, U_CLOSE) or e[0] > U_PARK for e in self.script[:self.pos]):
            self.flags.add("would_block")
        # other tasks using the same direction while this call was parked
        call = "send" if self.kind == 0 else "receive"
        same_dir = (E_SEND, E_SENDEOF, E_SENDFDS) if self.kind == 0 else (E_RECEIVE, E_RECEIVEFDS)
        for ent, code, at in self.intr:
            self.flags.add("intruder:" + ENTRYN[ent])
            if ent in same_dir and code != 7:
                how = "was accepted" if code == 14 else "ended with another error"
                where = f"after {at} of {len(item)} bytes " if self.kind == 0 else ""
                m(f"{ENTRYN[ent]}() by a second task while {call}() was parked {where}"
                  f"{how} (expected BusyResourceError: two tasks on the same direction)")
        if self.shut_while_parked:
            m(f"the socket was shut down for writing while send() was parked after {self.shut_at} of {len(item)} "
              f"bytes: the peer reads a truncated message and then a clean EndOfStream" if self.kind == 0 else
              "the socket was shut down for writing by a task that should have been refused")
        if self.intr_kernel_calls:
            m(f"a second task reached the kernel socket {self.intr_kernel_calls} time(s) while {call}() was parked (data would interleave)")
        closed_locally = self.closing0 or any(e[0] in (U_CLOSE, U_PARK + U_CLOSE) for e in self.script[:self.pos])
        if k == 5:
            self.flags.add("closed_error")
            if not closed_locally:
                m("ClosedResourceError on a stream that was not closed locally")
        if k == 6 and closed_locally:
            m("BrokenResourceError on a locally closed stream (expected ClosedResourceError)")
        if k == 7:
            self.flags.add("busy")
            if not self.busy:
                m("BusyResourceError although nobody uses this direction")
            if self.calls:
                m("kernel called despite BusyResourceError")
        elif self.busy and k not in (2, 8):
            m(f"concurrent use of one direction was not rejected (code {k})")
        if not self.busy and self.guard_after:
            m("guard still held after the call ended")
        if k == 2:
            self.flags.add("cancelled")
            if not (self.cancel0 or any(e[0] in (U_CANCEL, U_PARK + U_CANCEL) for e in self.script[:self.pos])):
                m("CancelledError without a cancel request")
        if k in (9, 12, 13):
            m(f"call did not end as the oracle script allows (code {k}; 9 = more kernel calls than scripted)")


def unix_random_case(rng: random.Random) -> UnixRun:
    kind = rng.choice([0, 0, 1])
    cancel0 = rng.random() < 0.06
    busy = rng.random() < 0.08
    closing0 = rng.random() < 0.08
    script = []
    nb = [0]
    closing = closing0

    def fresh(n):
        out = [(nb[0] + i) % 251 for i in range(n)]
        nb[0] += n
        return out

    def block():
        return rng.choices([U_READY, U_CANCEL, U_CLOSE], [6, 1, 0 if closing else 1])[0]

    def intruders():
        """30% of the waits: 1-3 other tasks try the same direction of the stream while the call is parked"""
        if rng.random() >= 0.3:
            return []
        pool = [E_SEND, E_SENDEOF, E_SENDEOF, E_SENDFDS] if kind == 0 else [E_RECEIVE, E_RECEIVEFDS]
        return [rng.choice(pool) for _ in range(rng.choice([1, 1, 2, 3]))]

    if kind == 0:
        n = rng.choice([0, 1, 2, 3, 5, 8, 13, 40])
        item = fresh(n)
        rem = n
        for _ in range(60):
            if rem <= 0:
                break
            x = rng.random()
            if closing and x < 0.8:
                script.append((U_ERR, 0))
                break
            if x < 0.55:
                k = rng.randint(1, rem) if rng.random() < 0.9 else rng.choice([0, rem + 1, rem + 3])
                script.append((U_OK, k))
                rem -= min(k, rem)
            elif x < 0.92:
                wk = block()
                es = intruders()
                script.append((U_PARK + wk, enc_entries(es)) if es else (wk, 0))
                if wk == U_CANCEL:
                    break
                if wk == U_CLOSE:
                    closing = True
            else:
                script.append((U_ERR, 0))
                break
        else:
            script.append((U_OK, rem))
        mx = 0
    else:
        item = []
        mx = rng.choice([1, 2, 3, 8, 65536]) if rng.random() < 0.95 else 0
        for _ in range(12):
            x = rng.random()
            if closing and x < 0.8:
                script.append((U_ERR, 0, ()))
                break
            if x < 0.4:
                k = rng.randint(1, max(1, min(mx, 10))) if rng.random() < 0.9 else mx + 2
                script.append((U_OK, 0, tuple(fresh(k))))
                break
            if x < 0.5:
                script.append((U_OK, 0, ()))
                break
            if x < 0.93:
                wk = block()
                es = intruders()
                script.append((U_PARK + wk, 0, tuple(es)) if es else (wk, 0, ()))
                if wk == U_CANCEL:
                    break
                if wk == U_CLOSE:
                    closing = True
            else:
                script.append((U_ERR, 0, ()))
                break
        else:
            script.append((U_OK, 0, tuple(fresh(1))))
    if rng.random() < 0.2:   # unused trailing answers
        script.append((U_OK, 1) if kind == 0 else (U_OK, 0, (7,)))
    return UnixRun(kind, cancel0, busy, closing0, mx, item, script)


def unix_exhaustive(max_len: int):
    """Every send script over {Ok1, Ok2, Ready, Cancel, Close, Err} up to max_len for items of 0..3 bytes, and every
    receive script over {data, eof, Ready, Cancel, Close, Err}; scripts the model runs out of are dropped later."""
    import itertools
    runs = []
    salpha = [(U_OK, 1), (U_OK, 2), (U_READY, 0), (U_CANCEL, 0), (U_CLOSE, 0), (U_ERR, 0),
              (U_PARK + U_READY, enc_entries([E_SENDEOF])), (U_PARK + U_READY, enc_entries([E_SEND, E_SENDFDS]))]
    ralpha = [(U_OK, 0, (5, 6)), (U_OK, 0, ()), (U_READY, 0, ()), (U_CANCEL, 0, ()), (U_CLOSE, 0, ()), (U_ERR, 0, ()),
              (U_PARK + U_READY, 0, (E_RECEIVE, E_RECEIVEFDS))]
    for L in range(0, max_len + 1):
        for sc in itertools.product(salpha, repeat=L):
            for n in range(0, 4):
                runs.append(UnixRun(0, False, False, False, 0, [11, 12, 13][:n], sc))
        for sc in itertools.product(ralpha, repeat=L):
            runs.append(UnixRun(1, False, False, False, 2, [], sc))
    return runs


# ------------------------------------------------------------------------------------------------------------
# Part (a3): UnixLoop close LTS  —  aclose() of the real UNIXSocketStream while a receive() and/or a send() is parked,
# over a fake raw socket and fake loop registrations that record the add/remove/close order
# ------------------------------------------------------------------------------------------------------------

C_BEGIN, C_STEP, C_READY, C_CANCEL, C_CALLBACK, C_CLOSE = range(6)
COPN = {0: "Begin", 1: "Step", 2: "Ready", 3: "Cancel", 4: "Callback", 5: "Close"}
A_OK, A_BLOCK, A_ERR = range(3)
DIRN = {0: "receive", 1: "send"}


def cops_readable(ops):
    out = []
    for c, a in ops:
        if c == C_STEP:
            out.append(("Step", DIRN[a // 4], ["kernel: ok", "kernel: would-block", "kernel: error"][a % 4]))
        elif c == C_CLOSE:
            out.append(("aclose by a third task",))
        else:
            out.append((COPN[c], DIRN[a]))
    return out


class FakeSockC:
    """Raw socket of the close runs.  defer=True mimics uvloop: close() of a socket that is still registered with the
    loop only marks the object closed, the descriptor stays open and usable until the last registration is removed."""

    def __init__(self, run):
        self.run = run
        self.pyclosed = False
        self.fd_open = True
        self.nclose = 0
        self.family = None
        self.answer = [A_BLOCK, A_BLOCK]

    def fileno(self):
        return 99 if self.fd_open else -1

    def close(self):
        r = self.run
        self.nclose += 1
        self.pyclosed = True
        registered = bool(r.reg[0] or r.reg[1])
        r.order.append("close" + ("(while registered)" if registered else ""))
        if registered:
            r.closed_while_registered = True
        if not (r.defer and registered):
            self.fd_open = False

    def shutdown(self, how):
        pass

    def _answer(self, d, ok):
        if not self.fd_open:
            raise OSError(9, "Bad file descriptor")
        a = self.answer[d]
        if a == A_OK:
            return ok
        if a == A_ERR:
            raise OSError(104, "injected")
        raise BlockingIOError()

    def recv(self, n):
        return self._answer(0, b"x")

    def send(self, view):
        return self._answer(1, len(view))


class UnixCloseRun:
    def __init__(self, defer: bool):
        self.defer = bool(defer)
        self.ops: list[tuple[int, int]] = []
        self.outs: list[int] = []
        self.mon: list[str] = []
        self.flags: set[str] = set()
        self.reg = [None, None]
        self.order: list[str] = []
        self.closed_while_registered = False
        self.closed_op = False
        self.cancel_pending = [False, False]

    def __enter__(self):
        import anyio
        from anyio._backends import _asyncio as be
        from puppet import World
        self.anyio = anyio
        self.world = w = World()
        loop = w.loop
        run = self

        def add(d):
            def f(sock, cb, *a):
                run.reg[d] = (cb, a)
                run.order.append(("add_reader", "add_writer")[d])
            return f

        def remove(d):
            def f(sock):
                run.order.append(("remove_reader", "remove_writer")[d])
                if sock.pyclosed and not run.defer:
                    raise OSError(9, "Bad file descriptor")      # selector loop: the socket object is already closed
                had = run.reg[d] is not None
                run.reg[d] = None
                if sock.pyclosed and sock.fd_open and not (run.reg[0] or run.reg[1]):
                    sock.fd_open = False                          # the deferred close completes
                return had
            return f

        loop.add_reader, loop.add_writer = add(0), add(1)
        loop.remove_reader, loop.remove_writer = remove(0), remove(1)
        self._sess = w.session()
        self._sess.__enter__()
        self.sock = FakeSockC(self)
        self.stream = be.UNIXSocketStream(self.sock)
        for t in (1, 2, 3):
            w.spawn(t)
        return self

    def __exit__(self, *a):
        self.world.close()
        self._sess.__exit__(*a)
        self.world = self.stream = self.sock = self._sess = None

    # -- implementation-side state --
    def cb_handle(self, d):
        name = ("_wait_until_readable", "_wait_until_writable")[d]
        for h in self.world.loop.ready_handles():
            if name in getattr(h._callback, "__qualname__", ""):
                return h
        return None

    def phase(self, d) -> int:
        p = self.world.puppets[d + 1]
        if p.at_decision:
            return 0
        if self.world.runnable(p):
            # whether THIS call has a cancellation pending is harness history (a Cancel op since its Begin): Task.cancelling()
            # is a sticky counter - a puppet that swallowed an earlier CancelledError without uncancel() keeps it > 0
            return 2 if self.cancel_pending[d] else 1
        return 3

    def state_obs(self):
        s = self.sock
        return [int(self.stream._closing), int(s.pyclosed), int(s.fd_open), int(self.reg[0] is not None),
                int(self.reg[1] is not None), s.nclose, len(self.world.loop.errors), self.phase(0), self.phase(1),
                int(self.cb_handle(0) is not None), int(self.cb_handle(1) is not None), int(self.closed_while_registered)]

    def possible(self, c, a) -> bool:
        if c == C_CLOSE:
            return True
        d = a // 4 if c == C_STEP else a
        ph = self.phase(d)
        if c == C_BEGIN:
            return ph == 0
        if c == C_STEP:
            return ph in (1, 2) and self.cb_handle(d) is None
        if c == C_READY:
            return ph == 3 and self.reg[d] is not None
        if c == C_CANCEL:
            return ph == 3
        return self.cb_handle(d) is not None

    def enabled(self):
        en = [(C_CLOSE, 0)]
        for d in (0, 1):
            for c in (C_BEGIN, C_READY, C_CANCEL, C_CALLBACK):
                if self.possible(c, d):
                    en.append((c, d))
            if self.possible(C_STEP, 4 * d):
                en += [(C_STEP, 4 * d + x) for x in (A_OK, A_BLOCK, A_ERR)]
        return en

    def do(self, c, a):
        w, stream = self.world, self.stream
        res = 11
        if c == C_BEGIN:
            if a == 0:
                async def cmd(p):
                    return await stream.receive(4)
            else:
                async def cmd(p):
                    return await stream.send(b"m")
            self.cancel_pending[a] = False
            w.act(a + 1, cmd)
        elif c == C_STEP:
            d, ans = a // 4, a % 4
            self.sock.answer[d] = ans
            out = w.resume(d + 1)
            if out is not None and out[0] != "blocked":
                self.cancel_pending[d] = False
                an = self.anyio
                if out[0] == "ok":
                    res = 0
                elif isinstance(out[1], CancelledError):
                    res = 2
                elif isinstance(out[1], an.ClosedResourceError):
                    res = 5
                elif isinstance(out[1], an.BrokenResourceError):
                    res = 6
                else:
                    res = 15
            if self.closed_op:
                self.flags.add("step_after_close")
                what = {0: "returned normally", 6: "raised BrokenResourceError", 11: "parked again (blocked)", 15: "raised another error"}
                if res in what:
                    self.mon.append(f"{DIRN[d]}() on the locally closed UNIX stream {what[res]} instead of raising ClosedResourceError")
        elif c == C_READY:
            cb, args = self.reg[a]
            cb(*args)
        elif c == C_CANCEL:
            w.puppets[a + 1].task.cancel()
            self.cancel_pending[a] = True
        elif c == C_CALLBACK:
            w.loop.run_handle(self.cb_handle(a))
        else:
            parked = [d for d in (0, 1) if self.phase(d) == 3]
            if len(parked) == 2:
                self.flags.add("close_with_both_parked")
            elif parked:
                self.flags.add("close_with_one_parked")
            async def cmd(p):
                return await stream.aclose()
            w.act(3, cmd)
            self.closed_op = True
        self.ops.append((c, a))
        self.outs += [res] + self.state_obs()
        # model-independent monitors
        m = self.mon.append
        if self.closed_while_registered and not any("closed while" in x for x in self.mon):
            m("the raw socket was closed while it was still registered with the event loop (add_reader/add_writer): order "
              + " > ".join(self.order[-6:]))
        if self.sock.nclose > 1:
            m(f"raw socket closed {self.sock.nclose} times")
        if w.loop.errors and not any("exception handler" in x for x in self.mon):
            e = w.loop.errors[0]
            m(f"the loop's exception handler was called: {e.get('message')}: {e.get('exception')!r}")
        if self.sock.pyclosed and (self.reg[0] or self.reg[1]) and not self.closed_while_registered:
            m("a closed socket is registered with the loop")

    def quiesce(self):
        """aclose (if not done), then every callback and every task: nothing may stay blocked, the fd must be closed."""
        if not self.closed_op:
            self.do(C_CLOSE, 0)
        for _ in range(12):
            progressed = False
            for d in (0, 1):
                if self.possible(C_CALLBACK, d):
                    self.do(C_CALLBACK, d)
                    progressed = True
                if self.possible(C_STEP, 4 * d):
                    self.do(C_STEP, 4 * d + A_BLOCK)      # the worst answer the kernel could give on an open descriptor
                    progressed = True
            if not progressed:
                break
        for d in (0, 1):
            if self.phase(d) == 3:
                self.mon.append(f"{DIRN[d]}() is still blocked after aclose() (no wake-up scheduled): blocked forever")
        if self.sock.fd_open:
            self.mon.append("the descriptor is still open after aclose() and all callbacks: the peer never sees EndOfStream")

    def case(self):
        return [2, int(self.defer)] + [x for op in self.ops for x in op]


def close_run_script(defer, ops, quiesce=True):
    with UnixCloseRun(defer) as r:
        for c, a in ops:
            if not r.possible(c, a):
                r.flags.add("script_diverged")
                break
            r.do(c, a)
        if quiesce:
            r.quiesce()
        r.final = list(r.outs)
        return r


def close_random_case(rng: random.Random, nsteps: int):
    defer = rng.random() < 0.5
    with UnixCloseRun(defer) as r:
        for _ in range(nsteps):
            en = r.enabled()
            ws = []
            for c, a in en:
                wt = {C_BEGIN: 4, C_STEP: 3, C_READY: 1.5, C_CANCEL: 0.7, C_CALLBACK: 4, C_CLOSE: 0.6}[c]
                if c == C_STEP and a % 4 == A_BLOCK:
                    wt *= 2.5
                ws.append(wt)
            c, a = rng.choices(en, ws)[0]
            r.do(c, a)
        r.quiesce()
        r.final = list(r.outs)
        return r


def close_exhaustive(depth: int, defer: bool):
    results = []

    def rec(prefix):
        with UnixCloseRun(defer) as r:
            for c, a in prefix:
                r.do(c, a)
            en = r.enabled()
            if len(prefix) >= depth:
                r.quiesce()
                r.final = list(r.outs)
                results.append(r)
                return
        for (c, a) in en:
            if c == C_STEP and a % 4 == A_ERR and len(prefix) < depth - 1:
                continue      # the error answer ends the call like 'ok': keep it for the last position only
            rec(prefix + [(c, a)])

    rec([])
    return results


# ------------------------------------------------------------------------------------------------------------
# Part (b): end-to-end on real sockets (subprocesses running c18_sock_e2e.py) and the check itself
# ------------------------------------------------------------------------------------------------------------

def load_known_findings() -> dict:
    """predicate -> (id, what) for the entries of known_findings.json (read only; VERIF_KNOWN_FINDINGS overrides the path) with
    status == "known" and property == "C18".  A predicate that is not listed there is NOT a known finding: its hits are
    ordinary violations."""
    import os
    from pathlib import Path
    path = Path(os.environ.get("VERIF_KNOWN_FINDINGS") or (core.VERIF / "known_findings.json"))
    try:
        data = json.loads(path.read_text())
    except Exception:  # noqa: BLE001
        return {}
    out = {}
    for f in data.get("findings", []):
        if f.get("status") == "known" and f.get("property") == "C18":
            pred = (f.get("match") or {}).get("predicate")
            if pred:
                out[pred] = (f.get("id", "?"), f.get("what", ""))
    return out


E2E_CONFIGS = [("tcp", "asyncio"), ("tcp", "uvloop"), ("unix", "asyncio"), ("unix", "uvloop"),
               ("wrap", "asyncio"), ("wrap", "uvloop")]

NOT_EXHIBITED = [
    "not exhibited by the model: the kernel's socket buffers and TCP flow control, the asyncio selector transport and "
    "uvloop's libuv transport (when they call data_received/eof_received/connection_lost/pause_writing/resume_writing, "
    "how much they buffer) - they are the environment: arbitrary op sequences in SockProto, arbitrary oracle scripts in UnixLoop",
    "transport contract assumed where a theorem says so (validated by the end-to-end runs): data_received payloads are "
    "non-empty and only delivered while reading is resumed; connection_lost(None) only after a local close/abort; "
    "pause_writing/resume_writing alternate; write() with the zero write-buffer limit calls pause_writing synchronously "
    "whenever it could not hand everything to the kernel; kernel recv(n) returns at most n bytes, send() accepts 1..len bytes",
    "transport.is_closing() and protocol.connection_lost() are one atomic env op in the model (in asyncio the flag is set one "
    "loop iteration earlier; the checkpoint in receive()/send() makes the window unobservable on FIFO loops)",
    "receive_fds/send_fds are modelled only as entry points that must be refused while the same direction is in use "
    "(UnixLoop intruders); their own loops, UDP and listeners are out of scope; accept()/connect() are exercised end-to-end only",
    "SocketStream.send_eof() (TCP / wrapped sockets) takes no guard at HEAD, by design: transport.write_eof() shuts the socket down "
    "only after the transport's write buffer has drained, so a send_eof() of a second task during a parked send() neither truncates "
    "the message nor fails the send (SockProto models SendEof without a guard; the end-to-end scenario eof_during_send checks the "
    "peer still gets the complete message and records accepted/busy as a fact).  UNIXSocketStream.send_eof() acts on the raw socket "
    "at once and therefore must run under the send guard (UnixLoop intruders; seeded change C18/d)",
    "back-pressure bounds of the end-to-end monitors (16 MiB in flight for TCP, 4 MiB for UNIX, 12 MiB read queue) are "
    "empirical margins over the kernel defaults of this machine, not theorems",
    "closing a raw UNIX socket with unread input makes the KERNEL reset the connection (peer sees BrokenResourceError): "
    "the close scenario reads its input first; observed, not modelled",
    "closing a TCP stream with unread inbound data makes the kernel reset the connection and discard the stream's own send queue "
    "(known finding F48, predicate close_with_unread_inbound_resets): kernel behaviour outside SockProto, exercised by the directed "
    "real-socket scenario close_unread_inbound (with a control run without unread data, which must lose nothing)",
    "g_pending (SockProto) counts send() items whose drain the transport has not signalled; it equals 'number of send() calls with "
    "data in the transport's user-space buffer' only under the transport contract (pause_writing inside write() when the kernel did "
    "not take everything, resume_writing when the buffer is empty); the end-to-end scenario send_timeouts checks the real buffer",
]


def parse_sock_steps(out: list[int]):
    """Split a SockProto observation stream into per-step result codes (ignoring the final dump)."""
    codes = []
    i = 0
    while i < len(out) and out[i] != -1:
        c = out[i]
        codes.append(c)
        i += (2 + out[i + 1]) if c == 3 else 1
        i += NOBS
    return codes


def first_diff_step(e, m):
    k = next((i for i in range(min(len(e), len(m))) if e[i] != m[i]), min(len(e), len(m)))
    # translate the flat index into a step number using the implementation's stream
    i = step = 0
    while i < len(e) and e[i] != -1:
        n = ((2 + e[i + 1]) if e[i] == 3 else 1) + NOBS
        if k < i + n:
            return step
        i += n
        step += 1
    return step


def start_e2e(tier: str):
    import subprocess
    procs = []
    for fam, lp in E2E_CONFIGS:
        cmd = [core.PY, str(core.VERIF / "harness" / "c18_sock_e2e.py"), fam, lp, tier, str(core.seed())]
        p = subprocess.Popen(cmd, env=core.impl_env(), cwd=str(core.VERIF), stdout=subprocess.PIPE,
                             stderr=subprocess.PIPE, text=True)
        procs.append(((fam, lp), cmd, p))
    return procs


def collect_e2e(procs, tier):
    results = []
    for cfg, cmd, p in procs:
        try:
            out, err = p.communicate(timeout=300 if tier == "quick" else 1500)
        except Exception:  # noqa: BLE001
            p.kill()
            out, err = p.communicate()
            results.append({"config": list(cfg), "violations": [{"scenario": "run", "what": "end-to-end run timed out (deadlock?)",
                                                               "params": {}}], "facts": {}, "cmd": cmd})
            continue
        try:
            d = json.loads(out.strip().splitlines()[-1])
        except Exception:  # noqa: BLE001
            d = {"config": list(cfg), "violations": [{"scenario": "run", "what": f"end-to-end run failed: rc={p.returncode} {err[-800:]}",
                                                      "params": {}}], "facts": {}}
        d["cmd"] = cmd
        results.append(d)
    return results


def check(tier: str) -> int:
    import time
    rep = core.Report("C18", tier)
    rep.assumptions = core.TRUSTED_BASE_COMMON + [
        "models boundary/SockProto.v (StreamProtocol + SocketStream.receive/send/send_eof/aclose + ResourceGuard at HEAD; "
        "variant stepv true = pinned tree before ab750b3 / d2d2221) and boundary/UnixLoop.v (UNIXSocketStream.receive/send/send_eof, "
        "_RawSocketMixin incl. the close LTS: registrations, done-callbacks, aclose; cstep true = order before e49bd95) "
        "hand-written; cancellation modelled as native Task.cancel() on a suspended task",
        "the two loop flavours of the close LTS (selector loop: remove_reader/remove_writer on a closed socket object raises; uvloop: "
        "closing a registered socket defers the real close) are an abstraction of the observed behaviour of CPython 3.12 asyncio and "
        "uvloop 0.22, reproduced by the harness' fake loop and checked against both real loops end-to-end",
        "harness (a): real classes over a FAKE transport / FAKE raw socket on SchedLoop (loop.add_reader/add_writer replaced "
        "by recording stubs on the loop instance, in the harness only); (b): real sockets, monitors only",
    ] + NOT_EXHIBITED
    proofs_ok = core.proof_stage(rep, "props/C18.v")
    exe_s = core.build_driver("sockproto", "SockProto")
    exe_u = core.build_driver("unixloop", "UnixLoop")
    e2e_procs = start_e2e(tier)

    rng = random.Random(core.seed())
    # ---------------- (a1) SockProto ----------------
    sruns = []
    corpus_dir = core.VERIF / "corpus" / "C18"
    corpus_e2e = []
    uruns_corpus = []
    cruns = []
    for f in sorted(corpus_dir.glob("*.json")):
        c = json.loads(f.read_text())
        if c.get("kind") == "sockproto":
            sruns.append(sock_run_script(bool(c["reading0"]), c["ntasks"], [tuple(o[:3]) + (tuple(o[3]),) for o in c["ops"]]))
        elif c.get("kind") == "unixloop":
            uruns_corpus.append(UnixRun(c["call"], c["cancel0"], c["busy"], c["closing0"], c["mx"], c["item"],
                                        [tuple(e[:2]) + ((tuple(e[2]),) if len(e) > 2 else ()) for e in c["script"]]))
        elif c.get("kind") == "unixclose":
            cruns.append(close_run_script(bool(c["defer"]), [tuple(o) for o in c["ops"]]))
        elif c.get("kind") == "e2e":
            corpus_e2e.append(c)
    n_corpus = len(sruns) + len(uruns_corpus) + len(corpus_e2e) + len(cruns)
    n_random = 1500 if tier == "quick" else 30000
    for _ in range(n_random):
        sruns.append(sock_random_case(rng, rng.choice([6, 10, 16, 24, 40, 60])))
    t0 = time.time()
    if tier == "quick":
        ex = sock_exhaustive(1, 4, False) + sock_exhaustive(2, 3, False)
    else:
        ex = sock_exhaustive(2, 5, False) + sock_exhaustive(1, 5, False) + sock_exhaustive(2, 3, True)
    n_ex_s = len(ex)
    sruns += ex
    scases = [r.case() for r in sruns]
    sexp = [r.final for r in sruns]
    smodel = core.run_driver(exe_s, scases)
    sdis = []
    srejected = 0
    for r, c, e, m in zip(sruns, scases, sexp, smodel):
        if e != m:
            sdis.append({"model": "SockProto", "reading0": r.reading0, "ntasks": r.ntasks, "ops": [list(o) for o in r.ops],
                         "ops_readable": readable(r.ops), "impl": e, "model_out": m, "first_diff_step": first_diff_step(e, m)})
        srejected += sum(1 for k in parse_sock_steps(m) if k == 9)
    smon = [(r, msg) for r in sruns for msg in r.mon]

    # ---------------- (a2) UnixLoop ----------------
    ucands = uruns_corpus + [unix_random_case(rng) for _ in range(1800 if tier == "quick" else 25000)]
    ucands += unix_exhaustive(3 if tier == "quick" else 4)
    n_ex_u = len(ucands) - len(uruns_corpus) - (1800 if tier == "quick" else 25000)
    ucases = [r.case() for r in ucands]
    umodel = core.run_driver(exe_u, ucases)
    uruns, ucs, uexp, umo = [], [], [], []
    fuel_dropped = 0
    for r, c, m in zip(ucands, ucases, umodel):
        if m[:1] == [9] or not r.valid():
            fuel_dropped += 1          # script too short for the call / wait ended by a second close: not a behaviour of the code
            continue
        r.execute()
        uruns.append(r)
        ucs.append(c)
        uexp.append(r.expected)
        umo.append(m)
    udis = [{"model": "UnixLoop", "case": c, "script_readable": script_readable(r.kind, r.script),
             "impl": e, "model_out": m}
            for r, c, e, m in zip(uruns, ucs, uexp, umo) if e != m]
    umon = [(r, msg) for r in uruns for msg in r.mon]

    # ---------------- (a3) UnixLoop close LTS ----------------
    for _ in range(500 if tier == "quick" else 8000):
        cruns.append(close_random_case(rng, rng.choice([4, 8, 12, 20, 30])))
    n_before = len(cruns)
    for df in (True, False):
        cruns += close_exhaustive(5 if tier == "quick" else 7, df)
    n_ex_c = len(cruns) - n_before
    ccases = [r.case() for r in cruns]
    cexp = [r.final for r in cruns]
    cmodel = core.run_driver(exe_u, ccases)
    cdis = [{"model": "UnixLoop (close LTS)", "defer": r.defer, "ops": [list(o) for o in r.ops], "ops_readable": cops_readable(r.ops),
             "impl": e, "model_out": m,
             "first_diff_step": next((i for i in range(min(len(e), len(m))) if e[i] != m[i]), min(len(e), len(m))) // 13}
            for r, e, m in zip(cruns, cexp, cmodel) if e != m]
    crejected = sum(1 for m in cmodel for i in range(0, len(m), 13) if m[i] == 9)
    cmon = [(r, msg) for r in cruns for msg in r.mon]

    # ---------------- kernel-checked samples ----------------
    sample_n = 24 if tier == "quick" else 300
    idx = list(range(len(scases)))
    rng.shuffle(idx)
    idx = [i for i in idx if len(scases[i]) < (250 if tier == "quick" else 400)][:sample_n]
    vm_ok_s, vm_log_s = core.coq_eval_cases("c18s", "SockProto", [scases[i] for i in idx], [sexp[i] for i in idx])
    uidx = list(range(len(ucs)))
    rng.shuffle(uidx)
    uidx = uidx[:sample_n]
    cidx = list(range(len(ccases)))
    rng.shuffle(cidx)
    cidx = cidx[:sample_n // 2]
    vm_ok_u, vm_log_u = core.coq_eval_cases("c18u", "UnixLoop", [ucs[i] for i in uidx] + [ccases[i] for i in cidx],
                                            [uexp[i] for i in uidx] + [cexp[i] for i in cidx])

    # ---------------- (b) end-to-end ----------------
    e2e = collect_e2e(e2e_procs, tier)
    e2e_viol = [(d, v) for d in e2e for v in d["violations"]]
    for d in e2e:
        af = d.get("anyio_file", "")
        if af and not af.startswith(str(core.REPO)):
            e2e_viol.append((d, {"scenario": "run", "what": f"end-to-end run imported anyio from {af}", "params": {}}))
    known = load_known_findings()
    known_hits: dict[str, list] = {}
    for d in e2e:
        for k in d.get("known", []):
            pred = k["predicate"]
            if pred in known:
                known_hits.setdefault(pred, []).append({"config": d["config"], "detail": k["detail"]})
            else:
                # the predicate is not (or no longer) recorded as a known finding: an ordinary violation
                e2e_viol.append((d, {"scenario": k["scenario"], "what": k["detail"] + f" [predicate {pred}, not a recorded known finding]",
                                     "params": k.get("params", {})}))
    for pred, hits in known_hits.items():
        fid, what = known[pred]
        rep.known_finding(f"{what} ({fid}, predicate {pred})")
    planned = {(s[0], tuple(s[1])) for d in e2e for s in d.get("facts", {}).get("scenario_s", [])}
    for c in corpus_e2e:
        args = tuple(c["args"]) if "args" in c else (c["direction"], c["mode"])
        if (c["scenario"], args) not in planned:
            rep.notes.append(f"corpus e2e case {c['scenario']}/{'/'.join(map(str, args))} was not run")

    # ---------------- decide ----------------
    seen = set()
    for r, msg in smon:
        if msg in seen or len(seen) >= 4:
            continue
        seen.add(msg)
        rs = sock_shrink(r)
        msg2 = rs.mon[0] if rs.mon else msg
        rep.violation(msg2, {"kind": "monitor", "model": "SockProto", "reading0": rs.reading0, "ntasks": rs.ntasks,
                             "ops": [list(o) for o in rs.ops], "ops_readable": readable(rs.ops), "all_messages": rs.mon[:6],
                             "replay": "c18.sock_run_script(reading0, ntasks, [tuple(o) for o in ops], quiesce=False).mon"})
    seen = set()
    import re as _re
    for r, msg in sorted(umon, key=lambda x: len(x[0].case())):
        key = _re.sub(r"\d+", "N", msg)          # one replay per kind of message, the shortest case of each
        if key in seen or id(r) in seen or len(seen) >= 8:
            continue
        seen.add(key)
        seen.add(id(r))
        rep.violation(msg, {"kind": "monitor", "model": "UnixLoop", "call": "send" if r.kind == 0 else "receive",
                            "cancel0": r.cancel0, "busy": r.busy, "closing0": r.closing0, "max_bytes": r.mx, "item": r.item,
                            "script": [list(e) for e in r.script], "script_readable": script_readable(r.kind, r.script),
                            "intruders": [(ENTRYN[a], {7: "BusyResourceError", 14: "accepted"}.get(c, "other error"), f"after {at} bytes") for a, c, at in r.intr],
                            "send_call_args": [list(a) for a in r.send_args[:8]], "handed": list(r.handed), "case": r.case(),
                            "all_messages": r.mon[:6],
                            "replay": "c18.UnixRun(kind, cancel0, busy, closing0, mx, item, script).execute().mon"})
    seen = set()
    for r, msg in sorted(cmon, key=lambda x: len(x[0].ops)):
        key = _re.sub(r"\d+", "N", msg)[:60]
        if key in seen or id(r) in seen or len(seen) >= 10:
            continue
        seen.add(key)
        seen.add(id(r))
        rep.violation(msg, {"kind": "monitor", "model": "UnixLoop (close LTS)", "loop_flavour": "uvloop-like deferred close" if r.defer else "selector loop",
                            "defer": r.defer, "ops": [list(o) for o in r.ops], "ops_readable": cops_readable(r.ops),
                            "registration_and_close_order": r.order[-12:], "all_messages": r.mon[:8],
                            "replay": "c18.close_run_script(defer, [tuple(o) for o in ops], quiesce=False).mon"})
    seen = set()
    for d, v in e2e_viol:
        key = (v["scenario"].split("/")[0], v["what"][:40])
        if key in seen or len(seen) >= 6:
            continue
        seen.add(key)
        rep.violation(f"[{d['config'][0]}/{d['config'][1]}] {v['scenario']}: {v['what']}",
                      {"kind": "e2e-monitor", "config": d["config"], "scenario": v["scenario"], "params": v["params"],
                       "seed": core.seed(), "replay_cmd": " ".join(d.get("cmd", []) + [v["scenario"].split("/")[0]])})
    monitor_hits = len(smon) + len(umon) + len(cmon) + len(e2e_viol)
    tie_broken = []
    if not proofs_ok:
        tie_broken.append("proof obligation: " + str(rep.coverage.get("proof_failure", {}).get("where")))
    if sdis:
        tie_broken.append("correspondence SockProto.run_case vs StreamProtocol/SocketStream")
    if udis:
        tie_broken.append("correspondence UnixLoop.run_case vs UNIXSocketStream")
    if cdis:
        tie_broken.append("correspondence UnixLoop.run_case (close LTS) vs UNIXSocketStream.aclose with parked calls")
    if crejected:
        tie_broken.append(f"UnixLoop close LTS rejected {crejected} ops the implementation performed")
    if srejected:
        tie_broken.append(f"SockProto model rejected {srejected} ops the implementation performed")
    if not (vm_ok_s and vm_ok_u) and not (sdis or udis or cdis):
        tie_broken.append("vm_compute sample disagrees with extracted model")
    if tie_broken and not monitor_hits:
        d = min(sdis, key=lambda d: len(d["ops"])) if sdis else (min(udis, key=lambda d: len(d["case"])) if udis else
                                                                   (min(cdis, key=lambda d: len(d["ops"])) if cdis else None))
        rep.violation("; ".join(tie_broken), {"kind": "tie", "broken": tie_broken, "case": d}, no_input=True)

    # ---------------- evidence ----------------
    flags: dict[str, int] = {}
    for r in sruns:
        for f in r.flags:
            flags["sock:" + f] = flags.get("sock:" + f, 0) + 1
    for r in uruns:
        for f in r.flags:
            flags["unix:" + f] = flags.get("unix:" + f, 0) + 1
    for r in cruns:
        for f in r.flags:
            flags["close:" + f] = flags.get("close:" + f, 0) + 1
    interesting = {"chunk_split_or_exact", "busy_recv", "busy_send", "send_waited_for_gate", "recv_after_close", "cancel_in_call",
                   "end_of_stream"}
    distinct = len({tuple(c) for c, r in zip(scases, sruns) if r.flags & interesting}) + \
        len({tuple(c) for c, r in zip(ucs, uruns) if r.flags & {"partial_send", "would_block", "closed_error", "busy", "intruder:send_eof"}})
    opcount: dict[str, int] = {}
    for r in sruns:
        for o in r.ops:
            opcount[OPN[o[0]]] = opcount.get(OPN[o[0]], 0) + 1
    e2e_facts = {}
    for d in e2e:
        f = d.get("facts", {})
        key = "/".join(d["config"])
        e2e_facts[key] = {
            "scenarios": len(f.get("scenario_s", [])),
            "bytes": sum(f.get("sizes_total_bytes", [])) + sum(f.get("duplex_bytes", [])),
            "peak_read_queue": max(f.get("peak_read_queue", [0]) + f.get("bp_peak_rq", [0])),
            "writer_stalled_at_bytes": f.get("bp_stalled_at"),
            "busy_both_directions": f.get("busy"),
            "leftover_after_close": f.get("close_leftover_returned"),
            "send_eof_by_second_task_during_parked_send": f.get("eof_during_send"),
            "aclose_with_receive_and_send_parked": f.get("close_both_parked"),
            "send_waiting_when_closed_or_reset": f.get("send_lost"),
            "aclose_forcefully_with_receive_and_send_parked": f.get("forceful_close"),
            "sixty_sends_with_timeouts_against_a_stalled_peer": f.get("send_timeouts"),
            "close_with_unread_inbound_data[unread, bytes of 3000000 received, end]": f.get("close_unread_inbound"),
            "violations": len(d["violations"]),
            "wall_s": round(sum(s[2] for s in f.get("scenario_s", [])), 1),
        }
    rep.coverage.update({
        "trusted_base": rep.assumptions,
        "evaluations": len(sruns) + len(uruns) + len(cruns) + sum(v["scenarios"] for v in e2e_facts.values()),
        "programs": len(sruns) + len(uruns) + len(cruns),
        "traces_validated_against_impl": len(sruns) - len(sdis) + len(uruns) - len(udis) + len(cruns) - len(cdis),
        "disagreements_checked": len(sdis) + len(udis) + len(cdis),
        "distinct_nontrivial": distinct,
        "rule": "SockProto: random walk over the ops the implementation enables (idle task: receive/send/send_eof/aclose; suspended "
                "task: resume if its wake-up is queued, native cancel; transport callbacks at any time, 70% of the cases under the "
                "transport contract), 1-4 tasks, then quiescence; plus exhaustive enumeration of all enabled op sequences over a small "
                "alphabet to a fixed depth.  UnixLoop: random oracle scripts generated by simulating the call (10% contract-violating "
                "answers), plus every script over an 8-letter alphabet (incl. waits during which other tasks call send/send_eof/send_fds resp. receive/receive_fds on the same stream) up to a fixed length.  Non-trivial = reaches a chunk split, a "
                "rejected concurrent call, a send waiting for the gate, a call on a closed stream, a cancellation inside a call, "
                "EndOfStream, a partial send, a would-block wait.  UnixLoop close LTS: random walks and exhaustive enumeration over "
                "begin/step(kernel answer)/ready/cancel/done-callback/aclose for one receive and one send on the same stream, both loop "
                "flavours (selector loop, uvloop-like deferred close), always followed by aclose + all callbacks + all tasks.  End-to-end: 6 configurations x scenarios on real sockets",
        "exhaustive_small_scope_cases": {"SockProto": n_ex_s, "UnixLoop": n_ex_u, "UnixLoop close LTS": n_ex_c},
        "corpus_cases": n_corpus,
        "reached": flags,
        "op_distribution": opcount,
        "vm_compute_sample": len(idx) + len(uidx),
        "vm_compute_ok": bool(vm_ok_s and vm_ok_u),
        "vm_compute_log": (vm_log_s + vm_log_u)[-1200:],
        "model_rejected_ops": srejected + crejected,
        "unix_scripts_dropped_out_of_fuel_or_invalid": fuel_dropped,
        "monitor_hits": monitor_hits,
        "end_to_end": e2e_facts,
        "known_finding_hits": known_hits,
        "observations": {"/".join(d["config"]): d.get("facts", {}).get("observations") for d in e2e},
        "observations_note": "behaviour outside the clause texts of C18, recorded only: uvloop reports a peer reset after partial "
                             "data as EndOfStream when no receive() was waiting (libuv); UNIXSocketStream.send(b'') on a closed stream "
                             "returns; UNIXSocketStream.receive(2**40) raises MemoryError; send_eof() on a closed stream raises "
                             "OSError/RuntimeError or returns instead of raising ClosedResourceError",
        "samples": [{"model": "SockProto", "ops": readable(sruns[i].ops)[:25], "outs": sexp[i][:60]} for i in idx[:2]] +
                   [{"model": "UnixLoop", "case": ucs[i], "outs": uexp[i]} for i in uidx[:2]],
    })
    for need in ("sock:chunk_split_or_exact", "sock:busy_recv", "sock:busy_send", "sock:send_waited_for_gate",
                 "sock:recv_after_close", "sock:recv_closed_error", "sock:send_closed_error", "sock:end_of_stream",
                 "sock:cancel_in_call", "sock:recv_broken", "unix:partial_send", "unix:would_block", "unix:closed_error",
                 "unix:busy", "unix:cancelled", "unix:recv_eof", "unix:intruder:send", "unix:intruder:send_eof",
                 "unix:intruder:send_fds", "unix:intruder:receive", "unix:intruder:receive_fds",
                 "close:close_with_both_parked", "close:close_with_one_parked", "close:step_after_close",
                 "sock:send_wait_ended_by_close", "sock:send_wait_ended_by_connection_lost", "sock:send_released_by_resume_writing",
                 "sock:close_cancelled", "sock:send_waits_before_write"):
        if not flags.get(need):
            rep.notes.append(f"generator self-check: predicate {need} never reached")
    return rep.finish()
