"""C18 — socket streams: correspondence of boundary/SockProto.v with the real StreamProtocol + SocketStream over a
fake asyncio transport, of boundary/UnixLoop.v with the real UNIXSocketStream loops over a scripted fake raw socket
(both on SchedLoop with puppet tasks), history monitors, and end-to-end monitors on real TCP / UNIX sockets
(stock asyncio loop and uvloop; implemented in c18_sock_e2e.py)."""

from __future__ import annotations

import json
import random
from asyncio import CancelledError

import core

DRIVERS = [("sockproto", "SockProto"), ("unixloop", "UnixLoop")]

# ------------------------------------------------------------------------------------------------------------
# Part (a1): SockProto  —  real StreamProtocol + SocketStream over a fake transport
# ------------------------------------------------------------------------------------------------------------

RECEIVE, SEND, SENDEOF, CLOSE, RESUME, CANCEL, DATA, EOF, LOST, PAUSEW, RESUMEW = range(11)
OPN = {0: "Receive", 1: "Send", 2: "SendEof", 3: "Close", 4: "Resume", 5: "Cancel", 6: "DataReceived",
       7: "EofReceived", 8: "ConnectionLost", 9: "PauseWriting", 10: "ResumeWriting"}
LOST_EXC = [ConnectionResetError, BrokenPipeError]
NOBS = 14  # length of the state part of an observation


def flat_ops(ops) -> list[int]:
    out: list[int] = []
    for (c, a, b, pl) in ops:
        out += [c, a, b, len(pl), *pl]
    return out


def readable(ops):
    return [(OPN[c], a, b, list(pl)) if pl else (OPN[c], a, b) for (c, a, b, pl) in ops]


class FakeTransport:
    """Records what AnyIO asks of the transport.  write() after write_eof() raises RuntimeError like the selector
    transport; write_eof() is ignored while closing; pause_next: the transport calls protocol.pause_writing()
    from inside the next write() (what a real transport does when the kernel does not take everything)."""

    def __init__(self, proto):
        self.proto = proto
        self.closing = False
        self.reading = True
        self.eof = False
        self.aborted = False
        self.writes: list[bytes] = []
        self.limits: list = []
        self.pause_next = False
        self.calls: list[str] = []

    def set_write_buffer_limits(self, high=None, low=None):
        self.limits.append((high, low))

    def is_closing(self):
        return self.closing

    def pause_reading(self):
        self.calls.append("pause_reading")
        self.reading = False

    def resume_reading(self):
        self.calls.append("resume_reading")
        self.reading = True

    def write(self, data):
        if self.eof:
            raise RuntimeError("Cannot call write() after write_eof()")
        self.writes.append(bytes(data))
        if self.pause_next:
            self.pause_next = False
            self.proto.pause_writing()

    def write_eof(self):
        if self.closing or self.eof:
            return
        self.eof = True

    def close(self):
        self.closing = True

    def abort(self):
        self.aborted = True

    def get_extra_info(self, name, default=None):
        return default

    def get_write_buffer_size(self):
        return 0


class SockRun:
    """Executes ops against the real classes, records observations in the codec's format and runs the monitors."""

    def __init__(self, reading0: bool, ntasks: int):
        import anyio
        from anyio._backends import _asyncio as be
        from puppet import World

        self.anyio = anyio
        self.be = be
        self.world = World()
        self.reading0 = reading0
        self.ntasks = ntasks
        self.ops: list[tuple] = []
        self.outs: list[int] = []
        self.mon: list[str] = []
        self.flags: set[str] = set()
        self.nbyte = 0
        # history for the monitors (implementation-visible events only)
        self.h_recv = bytearray()      # all data_received payloads
        self.h_ret = bytearray()       # all chunks returned by receive()
        self.h_items = bytearray()     # items of the sends that reached transport.write()
        self.h_eof = False
        self.h_lost = None             # None | "clean" | "exc"
        self.h_closed = False
        self.h_gate = True             # write gate as seen from the callbacks
        self.in_recv: dict[int, dict] = {}
        self.in_send: dict[int, dict] = {}
        self.in_close: set[int] = set()

    def __enter__(self):
        self._sess = self.world.session()
        self._sess.__enter__()
        self.proto = self.be.StreamProtocol()
        self.tr = FakeTransport(self.proto)
        self.proto.connection_made(self.tr)
        if not self.reading0:
            self.tr.pause_reading()           # what connect_tcp / accept / wrap_stream_socket do
        self.stream = self.be.SocketStream(self.tr, self.proto)
        if self.tr.limits != [(0, None)] and self.tr.limits != [(0,)]:
            self.mon.append(f"connection_made did not request the zero write-buffer limit: {self.tr.limits}")
        for t in range(1, self.ntasks + 1):
            self.world.spawn(t)
        return self

    def __exit__(self, *a):
        self.world.close()
        self._sess.__exit__(*a)

    def fresh_bytes(self, n: int) -> list[int]:
        out = [(self.nbyte + i) % 251 for i in range(n)]
        self.nbyte += n
        return out

    # -- implementation state in the codec's format --
    def state_obs(self) -> list[int]:
        p, tr, s = self.proto, self.tr, self.stream
        exc = 0
        if p.exception is not None:
            exc = 1 + next((i for i, k in enumerate(LOST_EXC) if type(p.exception) is k), 7)
        return [len(p.read_queue), sum(len(c) for c in p.read_queue), int(p.read_event.is_set()),
                int(p.write_event.is_set()), int(p.is_at_eof), exc, int(s._closed), int(tr.closing),
                int(tr.reading), int(tr.eof), int(tr.aborted), int(s._receive_guard._guarded),
                int(s._send_guard._guarded), sum(len(w) for w in tr.writes)]

    def final_dump(self) -> list[int]:
        out = [-1]
        for c in self.proto.read_queue:
            out += [len(c), *c]
        out.append(-2)
        for w in self.tr.writes:
            out += list(w)
        return out

    def res_obs(self, outcome) -> list[int]:
        a = self.anyio
        if outcome is None:
            return [11]
        kind, val = outcome
        if kind == "blocked":
            return [1]
        if kind == "ok":
            if isinstance(val, (bytes, bytearray)):
                return [3, len(val), *val]
            return [0]
        if isinstance(val, CancelledError):
            return [2]
        for cls, code in ((a.EndOfStream, 4), (a.ClosedResourceError, 5), (a.BrokenResourceError, 6),
                          (a.BusyResourceError, 7), (ValueError, 8), (RuntimeError, 10)):
            if isinstance(val, cls):
                return [code]
        return [12]

    def enabled(self):
        en = []
        for t, p in self.world.puppets.items():
            if p.at_decision:
                en += [(RECEIVE, t), (SEND, t), (SENDEOF, t), (CLOSE, t)]
            else:
                if self.world.runnable(p):
                    en.append((RESUME, t))
                en.append((CANCEL, t))
        en += [(DATA, 0), (EOF, 0), (LOST, 0), (PAUSEW, 0), (RESUMEW, 0)]
        return en

    def possible(self, c, a) -> bool:
        if c in (DATA, EOF, LOST, PAUSEW, RESUMEW):
            return True
        p = self.world.puppets.get(a)
        if p is None:
            return False
        if c in (RECEIVE, SEND, SENDEOF, CLOSE):
            return p.at_decision
        if c == RESUME:
            return (not p.at_decision) and self.world.runnable(p)
        return not p.at_decision

    def do(self, c, a=0, b=0, pl=()):
        w, stream, proto = self.world, self.stream, self.proto
        pl = list(pl)
        out = None
        if c == RECEIVE:
            async def cmd(p):
                return await stream.receive(b)
            out = w.act(a, cmd)
        elif c == SEND:
            data = bytes(pl)

            async def cmd(p):
                return await stream.send(data)
            out = w.act(a, cmd)
        elif c == SENDEOF:
            async def cmd(p):
                return await stream.send_eof()
            out = w.act(a, cmd)
        elif c == CLOSE:
            async def cmd(p):
                return await stream.aclose()
            out = w.act(a, cmd)
        elif c == RESUME:
            self.tr.pause_next = bool(b)
            nw = len(self.tr.writes)
            out = w.resume(a)
            self.tr.pause_next = False
            wrote = len(self.tr.writes) > nw
        elif c == CANCEL:
            w.puppets[a].task.cancel()
        elif c == DATA:
            proto.data_received(bytes(pl))
        elif c == EOF:
            proto.eof_received()
        elif c == LOST:
            self.tr.closing = True
            proto.connection_lost(None if b == 0 else LOST_EXC[b - 1]("injected"))
        elif c == PAUSEW:
            proto.pause_writing()
        elif c == RESUMEW:
            proto.resume_writing()
        r = self.res_obs(out)
        self.ops.append((c, a, b, tuple(pl)))
        self.outs += r + self.state_obs()
        self.monitor(c, a, b, pl, r, wrote if c == RESUME else False)

    # -- property monitors on the observable history (independent of the model) --
    def monitor(self, c, a, b, pl, r, wrote):
        k = r[0]
        m = self.mon.append
        if c == DATA:
            self.h_recv += bytes(pl)
        elif c == EOF:
            self.h_eof = True
        elif c == LOST:
            self.h_lost = "exc" if b else (self.h_lost or "clean")
            self.h_gate = True
            for d in self.in_send.values():
                d["opened"] = True
        elif c == PAUSEW:
            self.h_gate = False
        elif c == RESUMEW:
            self.h_gate = True
            for d in self.in_send.values():
                d["opened"] = True
        elif c == CANCEL:
            for d in (self.in_recv.get(a), self.in_send.get(a)):
                if d is not None:
                    d["cancel"] = True
                    self.flags.add("cancel_in_call")
        elif c == SENDEOF:
            if k != 0:
                m(f"send_eof raised (code {k})")
        elif c == CLOSE:
            self.h_closed = True
            if k == 1:
                self.in_close.add(a)
            elif k != 0:
                m(f"aclose raised (code {k})")
        elif c == RECEIVE:
            others = [t for t in self.in_recv if t != a]
            if b < 1:
                if k != 8:
                    m(f"receive({b}) did not raise ValueError (code {k})")
            elif others:
                self.flags.add("busy_recv")
                if k != 7:
                    m(f"task {a} entered receive() while task {others} is inside it (code {k}, expected BusyResourceError)")
            else:
                if k == 7:
                    m(f"receive() by task {a} raised BusyResourceError although no task is inside receive(): guard not released")
                elif k == 1:
                    self.in_recv[a] = {"mx": b, "cancel": False, "after_close": self.h_closed,
                                       "waits": not self.world.runnable(self.world.puppets[a])}
                    if self.h_closed:
                        self.flags.add("recv_after_close")
                        if not self.world.runnable(self.world.puppets[a]):
                            m("receive() on a locally closed stream blocks (no wake-up scheduled)")
                    if not self.world.runnable(self.world.puppets[a]):
                        self.flags.add("recv_waits")
                else:
                    m(f"receive() finished without a checkpoint (code {k})")
        elif c == SEND:
            others = [t for t in self.in_send if t != a]
            if others:
                self.flags.add("busy_send")
                if k != 7:
                    m(f"task {a} entered send() while task {others} is inside it (code {k}, expected BusyResourceError)")
            else:
                if k == 7:
                    m(f"send() by task {a} raised BusyResourceError although no task is inside send(): guard not released")
                elif k == 1:
                    self.in_send[a] = {"item": bytes(pl), "wrote": False, "cancel": False, "opened": False,
                                       "after_close": self.h_closed, "gate_after_write": None}
                else:
                    m(f"send() finished without a checkpoint (code {k})")
        elif c == RESUME:
            if a in self.in_recv:
                d = self.in_recv[a]
                if k == 1:
                    m("receive() suspended a second time")
                else:
                    del self.in_recv[a]
                if k == 3:
                    chunk = bytes(r[2:2 + r[1]])
                    self.h_ret += chunk
                    if not (1 <= len(chunk) <= d["mx"]):
                        m(f"receive({d['mx']}) returned {len(chunk)} bytes")
                    if len(chunk) == d["mx"]:
                        self.flags.add("chunk_split_or_exact")
                    if not bytes(self.h_recv).startswith(bytes(self.h_ret)):
                        m("received chunks are not a prefix of the bytes delivered by the transport (lost, duplicated or reordered)")
                elif k == 4:
                    self.flags.add("end_of_stream")
                    if not (self.h_eof or self.h_lost == "clean"):
                        m("EndOfStream without EOF from the transport")
                    if bytes(self.h_ret) != bytes(self.h_recv):
                        m(f"EndOfStream while {len(self.h_recv) - len(self.h_ret)} delivered bytes were never returned")
                    if self.h_closed:
                        m("EndOfStream on a locally closed stream (expected ClosedResourceError)")
                elif k == 5:
                    self.flags.add("recv_closed_error")
                    if not self.h_closed:
                        m("receive() raised ClosedResourceError on a stream that was not closed locally")
                    if bytes(self.h_ret) != bytes(self.h_recv):
                        m("ClosedResourceError from receive() while already-received data is left")
                elif k == 6:
                    self.flags.add("recv_broken")
                    if self.h_lost != "exc":
                        m("BrokenResourceError from receive() without a connection error")
                    if bytes(self.h_ret) != bytes(self.h_recv):
                        m("BrokenResourceError from receive() while already-received data is left")
                elif k == 2:
                    if not d["cancel"]:
                        m("receive() raised CancelledError without a cancel request")
                elif k != 1:
                    m(f"receive() ended with unexpected code {k}")
            elif a in self.in_send:
                d = self.in_send[a]
                if not d["wrote"] and wrote:
                    d["wrote"] = True
                    self.h_items += d["item"]
                    d["gate_after_write"] = self.h_gate if not b else False
                    if b:
                        self.h_gate = False
                    d["opened"] = False
                    if d["after_close"]:
                        m("send() on a locally closed stream wrote to the transport")
                if k != 1:
                    del self.in_send[a]
                if k == 0:
                    if not d["wrote"]:
                        m("send() returned without handing the item to transport.write()")
                    elif not (d["gate_after_write"] or d["opened"]):
                        m("send() returned although the transport had paused writing and has not resumed it (no back-pressure)")
                    if d["gate_after_write"] is False:
                        self.flags.add("send_waited_for_gate")
                elif k == 1:
                    if d["gate_after_write"]:
                        m("send() blocked although the write gate is open")
                    self.flags.add("send_blocked")
                elif k == 5:
                    self.flags.add("send_closed_error")
                    if not self.h_closed:
                        m("send() raised ClosedResourceError on a stream that was not closed locally")
                elif k == 6:
                    if self.h_lost != "exc" and not self.tr.closing:
                        m("send() raised BrokenResourceError without a connection error")
                elif k == 2:
                    if not d["cancel"]:
                        m("send() raised CancelledError without a cancel request")
                if k in (0, 1) and d["after_close"]:
                    m(f"send() on a locally closed stream did not raise ClosedResourceError (code {k})")
            elif a in self.in_close:
                if k != 1:
                    self.in_close.discard(a)
        # global facts after every step
        if bytes(b"".join(self.tr.writes)) != bytes(self.h_items):
            m("bytes handed to transport.write() differ from the items of the sends that reached it")
        st = self.state_obs()
        if not self.in_recv and st[11]:
            m("receive guard still held although no task is inside receive()")
        if not self.in_send and st[12]:
            m("send guard still held although no task is inside send()")
        if st[8]:
            self.flags.add("reading_resumed")
            if not self.reading0 and not any(d["waits"] for d in self.in_recv.values()):
                m("transport reading is resumed while no receive() is waiting (no receive-side back-pressure)")

    def quiesce(self):
        """Drive every task out of its call (cancelling the ones that cannot proceed)."""
        for _ in range(100):
            busy = [t for t, p in self.world.puppets.items() if not p.at_decision]
            if not busy:
                break
            t = busy[0]
            if not self.world.runnable(self.world.puppets[t]):
                self.do(CANCEL, t)
            self.do(RESUME, t, 0)
        st = self.state_obs()
        if st[11] or st[12]:
            self.mon.append("a guard is still held after every call has ended")
        if self.world.loop.errors:
            self.mon.append(f"loop errors: {self.world.loop.errors[:2]}")

    def case(self) -> list[int]:
        return [int(self.reading0)] + flat_ops(self.ops)

    def expected(self) -> list[int]:
        return self.outs + self.final_dump()


def sock_run_script(reading0, ntasks, ops, quiesce=True, tolerant=False):
    with SockRun(reading0, ntasks) as r:
        for (c, a, b, pl) in ops:
            if tolerant and not r.possible(c, a):
                continue
            r.do(c, a, b, pl)
        if quiesce:
            r.quiesce()
        r.final = r.expected()
        return r


def sock_random_case(rng: random.Random, nsteps: int):
    reading0 = rng.random() < 0.15
    ntasks = rng.choice([1, 2, 2, 3, 3, 4])
    wenv = rng.choice([0.6, 1.0, 2.0])
    wcancel = rng.choice([0.2, 1.0, 2.5])
    contract = rng.random() < 0.7       # env follows the transport contract
    maxes = rng.choice([[1, 2, 3], [1, 2, 3, 4, 5, 8], [1, 4, 16, 65536], [2, 3, 7]])
    with SockRun(reading0, ntasks) as r:
        lost = False
        for _ in range(nsteps):
            en = r.enabled()
            ws = []
            for (c, t) in en:
                wt = {RECEIVE: 5, SEND: 3, SENDEOF: 0.3, CLOSE: 0.35, RESUME: 7, CANCEL: wcancel,
                      DATA: 4 * wenv, EOF: 0.5 * wenv, LOST: 0.3 * wenv, PAUSEW: 1.2 * wenv, RESUMEW: 1.5 * wenv}[c]
                if contract:
                    if c in (DATA, EOF) and (r.h_eof or lost or r.tr.closing):
                        wt = 0
                    if c == DATA and not r.tr.reading:
                        wt *= 0.25
                    if c == LOST and (lost or (not r.tr.closing and rng.random() < 0.5)):
                        wt = 0
                    if c == LOST and not r.tr.closing:
                        wt *= 0.6   # only with an error (chosen below)
                    if c == PAUSEW and (not r.h_gate or lost):
                        wt = 0
                    if c == RESUMEW and (r.h_gate or lost):
                        wt = 0
                ws.append(wt)
            c, t = rng.choices(en, ws)[0]
            if c == RECEIVE:
                mx = rng.choice(maxes) if rng.random() < 0.97 else 0
                r.do(RECEIVE, t, mx)
            elif c == SEND:
                n = rng.choice([0, 1, 1, 2, 3, 5])
                r.do(SEND, t, 0, r.fresh_bytes(n))
            elif c == RESUME:
                r.do(RESUME, t, 1 if rng.random() < 0.4 else 0)
            elif c == DATA:
                n = rng.choice([1, 1, 2, 3, 4, 6, 9, 13])
                r.do(DATA, 0, 0, r.fresh_bytes(n))
            elif c == LOST:
                if contract and not r.h_closed:
                    b = rng.choice([1, 2])
                else:
                    b = rng.choice([0, 0, 1, 2])
                lost = True
                r.do(LOST, 0, b)
            else:
                r.do(c, t)
        r.quiesce()
        r.final = r.expected()
        return r


def sock_shrink(r: "SockRun"):
    """Drop ops while some monitor still trips (replay tolerantly: ops that became impossible are skipped)."""
    ops = list(r.ops)
    best = r
    i = len(ops) - 1
    budget = 400
    while i >= 0 and budget > 0:
        budget -= 1
        cand = ops[:i] + ops[i + 1:]
        try:
            rr = sock_run_script(r.reading0, r.ntasks, cand, quiesce=False, tolerant=True)
        except Exception:  # noqa: BLE001
            rr = None
        if rr is not None and rr.mon:
            ops = list(rr.ops)
            best = rr
            i = min(i, len(ops)) - 1
        else:
            i -= 1
    return best


def sock_exhaustive(ntasks: int, depth: int, reading0: bool):
    """All sequences of enabled op kinds up to `depth` over a small alphabet (DFS by replay)."""
    results = []
    alphabet_env = [(DATA, 0, 0, (1, 2, 3)), (EOF, 0, 0, ()), (LOST, 0, 1, ()), (PAUSEW, 0, 0, ()), (RESUMEW, 0, 0, ())]

    def rec(prefix):
        with SockRun(reading0, ntasks) as r:
            for (c, a, b, pl) in prefix:
                r.do(c, a, b, pl)
            en = r.enabled()
            unwritten = {t for t, d in r.in_send.items() if not d["wrote"]}
            if len(prefix) >= depth:
                r.quiesce()
                r.final = r.expected()
                results.append(r)
                return
        used = {a for (c, a, b, pl) in prefix if c <= CANCEL}
        for (c, t) in en:
            if c <= CANCEL and t not in used and t != min(set(range(1, ntasks + 1)) - used, default=t):
                continue
            if c == RECEIVE:
                rec(prefix + [(RECEIVE, t, 2, ())])
            elif c == SEND:
                rec(prefix + [(SEND, t, 0, (7,))])
            elif c == RESUME:
                rec(prefix + [(RESUME, t, 0, ())])
                if t in unwritten:
                    rec(prefix + [(RESUME, t, 1, ())])
            elif c in (SENDEOF, CLOSE, CANCEL):
                rec(prefix + [(c, t, 0, ())])
        for e in alphabet_env:
            rec(prefix + [e])

    rec([])
    return results
