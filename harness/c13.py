"""C13 — memory object streams: closing wakes everyone and errors tell the truth.
Correspondence of prims/MemStream.v with anyio's memory object streams on SchedLoop + history monitors.
The generator profile emphasises clone/close histories (see memstream_common.PROFILES["C13"])."""

from __future__ import annotations

import memstream_common

DRIVERS = [("memstream", "MemStream")]


def check(tier: str) -> int:
    return memstream_common.check("C13", tier)
