"""Shared machinery of C12 / C13 — memory object streams.

Executes flat op lists (the codec of coq/prims/MemStream.v) on REAL anyio memory object streams driven by
puppets on a SchedLoop, records the per-step observations in the codec's format, and evaluates
model-independent monitors for the C12 and C13 clauses on the observed history."""

from __future__ import annotations

import asyncio
import json
import math
import random
import traceback
from asyncio import CancelledError

import core
import tiegen

# op codes (MemStream.decode_op); 12/13 = Send/Recv with the puppet inside a fresh anyio.CancelScope
SENDNW, RECVNW, SEND, RECV, CLONE, CLOSE, RESUME, CANCEL, SCANCEL, DELIVER = range(10)
SEND_SC, RECV_SC = 12, 13
# harness-only ops (model: no-op): the virtual clock passes every pending deadline (timers become due, NOT run);
# the due timer callbacks (CancelScope._timeout) run; an outer scope OUTSIDE a shield is cancelled
ADVANCE, FIRE, OUTER_CANCEL = 10, 11, 14
# Send / Recv performed inside a cancel-scope STRUCTURE: codes 20+k / 30+k (model: plain Send / Recv)
SHAPES = {
    0: "shield",                           # with CancelScope(shield=True): op
    1: "cancelled>shield",                 # outer scope cancelled before the call, inner shielded
    2: "expired(fired)>shield",            # outer deadline already passed at entry (cancelled in __enter__), inner shielded
    3: "deadline>shield",                  # outer deadline in the future at entry; ADVANCE / FIRE come later
    4: "cancelled>shield>plain",           # nested two deep, shield in the middle
    5: "cancelled>plain>shield",           # nested two deep, shield innermost
    6: "plain>plain",                      # two plain scopes; ScopeCancel cancels the OUTER one (effective through the parent)
    7: "live>shield",                      # outer scope alive at entry; OUTER_CANCEL comes later
}
SEND_SHAPE0, RECV_SHAPE0 = 20, 30


def is_send_op(c):
    return c in (SEND, SEND_SC) or 20 <= c < 30


def is_recv_op(c):
    return c in (RECV, RECV_SC) or 30 <= c < 40


def is_sendish(c):
    return c == SENDNW or is_send_op(c)


def is_recvish(c):
    return c == RECVNW or is_recv_op(c)


def shape_of(c):
    return c - 20 if 20 <= c < 30 else (c - 30 if 30 <= c < 40 else None)


def opname(c):
    k = shape_of(c)
    if k is not None:
        return ("Send" if c < 30 else "Recv") + "/" + SHAPES.get(k, str(k))
    return OPN.get(c, str(c))
OPN = {0: "SendNowait", 1: "RecvNowait", 2: "Send", 3: "Recv", 4: "Clone", 5: "Close", 6: "Resume",
       7: "Cancel", 8: "ScopeCancel", 9: "Deliver", 12: "Send/scoped", 13: "Recv/scoped",
       10: "AdvanceClock", 11: "FireTimers", 14: "OuterCancel"}
# result codes (MemStream.res_code)
DONE, BLOCKED, CANCELLED, WOULDBLOCK, CLOSED, BROKEN, EOS, ITEM, HANDLE, REJECTED, NONE = range(11)
RESN = {0: "Done", 1: "Blocked", 2: "Cancelled", 3: "WouldBlock", 4: "Closed", 5: "Broken", 6: "EndOfStream",
        7: "Item", 8: "Handle", 9: "Rejected", 10: "None", 11: "UnexpectedException", 12: "InfeasibleOp"}
OBS = 7  # integers per step in the observation list

_SWALLOWED = object()  # the CancelScope around the call swallowed its own cancellation


def readable(ops):
    out = []
    for i in range(0, len(ops), 4):
        c, a, b, d = ops[i:i + 4]
        n = opname(c)
        if is_sendish(c):
            out.append(f"{n}(t{a},h{b},x{d})")
        elif is_recvish(c):
            out.append(f"{n}(t{a},h{b})")
        elif c in (CLONE, CLOSE):
            out.append(f"{n}(h{b})")
        else:
            out.append(f"{n}(t{a})")
    return out


class MSRun:
    """One case: a real memory object stream pair, puppets, the executed flat op list and observations."""

    def __init__(self, maxbuf, ntasks: int):
        import anyio
        from puppet import World

        self.anyio = anyio
        self.maxbuf = maxbuf
        self.ntasks = ntasks
        self.world = World()
        self.ops: list[int] = []
        self.outs: list[int] = []
        self.mon: list[tuple[str, str]] = []   # (property, message)
        self.flags: set[str] = set()
        self.next_item = 1
        # --- what the harness knows about its own puppets (which call each one is inside) ---
        self.cur: dict[int, dict | None] = {}
        # --- monitor state: history of public observables only ---
        self.m_handles: dict[int, list] = {0: ["send", True], 1: ["recv", True]}
        self.m_sent: dict[int, dict] = {}      # item -> {task, state, idx}
        self.m_entered = 0
        self.m_received: dict[int, int] = {}   # item -> receiving task
        self.m_last_immediate = -1             # entered index of the last item returned by a nowait-path receive
        self.m_last_by_task: dict[int, int] = {}
        self.m_blockseq = 0
        self.m_last_blocked_recv = (-1, -1)    # (block stamp, entered index) of the last served blocked receiver
        self.m_loss_budget = 0                 # native Task.cancel() on a receiver in its hand-over cycle
        self.steps = 0
        self.infeasible = 0
        self.m_rq: list[int] = []   # receiver tasks in the order they started waiting (monitor's FIFO bookkeeping)
        self.shapes = False   # offer the scope-structure ops in enabled()
        self.tinfo = {}
        import importlib
        self.ti_cls = importlib.import_module("anyio._backends._asyncio").AsyncIOTaskInfo
        self.crash = None
        self._served: list = []

    def maxcode(self) -> int:
        return -1 if self.maxbuf == math.inf else int(self.maxbuf)

    def __enter__(self):
        self._sess = self.world.session()
        self._sess.__enter__()
        s, r = self.anyio.create_memory_object_stream(self.maxbuf)
        self.handles = {0: s, 1: r}
        for t in range(1, self.ntasks + 1):
            self.world.spawn(t)
            self.cur[t] = None
        return self

    def __exit__(self, *a):
        for h in self.handles.values():
            h.close()
        self.world.close()
        self._sess.__exit__(*a)
        # keep only the recorded history (hundreds of thousands of runs are kept in the thorough tier)
        self.world = None
        self.handles = None
        self.cur = None
        self._sess = None

    # ---------------------------------------------------------------- implementation side
    def stats(self):
        st = self.handles[0].statistics()
        return [st.current_buffer_used, st.open_send_streams, st.open_receive_streams,
                st.tasks_waiting_send, st.tasks_waiting_receive]

    def side(self, h):
        return "send" if type(self.handles[h]).__name__ == "MemoryObjectSendStream" else "recv"

    def deliver_handle(self, t):
        info = self.cur.get(t)
        sc = info and info.get("scope")
        if sc is None:
            return None
        for h in self.world.loop.ready_handles():
            cb = h._callback
            if getattr(cb, "__self__", None) is sc and getattr(cb, "__name__", "") == "_deliver_cancellation":
                return h
        return None

    def purge_stale_delivers(self):
        live = {id(i["scope"]) for i in self.cur.values() if i and i.get("scope") is not None}
        for h in list(self.world.loop.ready_handles()):
            cb = h._callback
            if getattr(cb, "__name__", "") == "_deliver_cancellation" and id(getattr(cb, "__self__", None)) not in live:
                self.world.loop.run_handle(h)

    def enabled(self):
        """Ops the implementation can be asked to perform now (the harness never acts for a busy puppet)."""
        en = []
        sends = [h for h in self.handles if self.side(h) == "send"]
        recvs = [h for h in self.handles if self.side(h) == "recv"]
        for t, p in self.world.puppets.items():
            if p.at_decision:
                for h in sends:
                    en += [(SENDNW, t, h), (SEND, t, h), (SEND_SC, t, h)]
                    if self.shapes:
                        en += [(SEND_SHAPE0 + k, t, h) for k in SHAPES]
                for h in recvs:
                    en += [(RECVNW, t, h), (RECV, t, h), (RECV_SC, t, h)]
                    if self.shapes:
                        en += [(RECV_SHAPE0 + k, t, h) for k in SHAPES]
            else:
                if self.shapes and self.cur[t] and self.cur[t].get("outer") is not None \
                        and not self.cur[t]["outer"].cancel_called:
                    en.append((OUTER_CANCEL, t, 0))
                if self.world.runnable(p):
                    en.append((RESUME, t, 0))
                en.append((CANCEL, t, 0))
                info = self.cur[t]
                if info and info.get("scope") is not None:
                    en.append((SCANCEL, t, 0))
                    if self.deliver_handle(t) is not None:
                        en.append((DELIVER, t, 0))
        if self.shapes:
            if self.world.loop.live_timers():
                en.append((ADVANCE, 0, 0))
            if any(getattr(hd._callback, "__name__", "") == "_timeout" for hd in self.world.loop.ready_handles()):
                en.append((FIRE, 0, 0))
        for h in self.handles:
            en.append((CLOSE, 0, h))
            if len([x for x in self.handles if self.side(x) == self.side(h)]) < 4:
                en.append((CLONE, 0, h))
        return en

    def _blocking_cmd(self, t, fn, scoped, shape=None):
        anyio = self.anyio
        info = self.cur[t]
        CS = anyio.CancelScope

        def tidy():
            task = asyncio.current_task()
            while task.cancelling():
                task.uncancel()

        if shape is not None:
            # the call runs inside a cancel-scope structure; no await between the scope entries/exits and the call
            async def cmd(p):
                now = asyncio.get_running_loop().time()
                try:
                    if shape == 0:
                        with CS(shield=True):
                            return await fn()
                    elif shape == 1:
                        with CS() as outer:
                            outer.cancel()
                            with CS(shield=True):
                                return await fn()
                    elif shape == 2:
                        with CS(deadline=now - 1.0):
                            with CS(shield=True):
                                return await fn()
                    elif shape == 3:
                        with CS(deadline=now + 1.0):
                            with CS(shield=True):
                                return await fn()
                    elif shape == 4:
                        with CS() as outer:
                            outer.cancel()
                            with CS(shield=True):
                                with CS():
                                    return await fn()
                    elif shape == 5:
                        with CS() as outer:
                            outer.cancel()
                            with CS():
                                with CS(shield=True):
                                    return await fn()
                    elif shape == 6:
                        with CS() as outer:
                            info["scope"] = outer
                            with CS():
                                return await fn()
                        return _SWALLOWED
                    else:
                        with CS() as outer:
                            info["outer"] = outer
                            with CS(shield=True):
                                return await fn()
                finally:
                    tidy()
            return cmd

        if not scoped:
            async def cmd(p):
                return await fn()
            return cmd

        async def cmd(p):
            sc = CS()
            info["scope"] = sc
            try:
                with sc:
                    return await fn()
                return _SWALLOWED
            finally:
                tidy()
        return cmd

    def feasible(self, c, a, b):
        """Can the implementation be asked to perform this op now?  (Scripted cases only: generated cases are built
        from enabled().  A script that stops being executable is itself a correspondence failure.)"""
        w = self.world
        if c in (CLONE, CLOSE):
            return b in self.handles
        if c in (ADVANCE, FIRE):
            return True
        p = w.puppets.get(a)
        if p is None:
            return False
        if is_sendish(c) or is_recvish(c):
            want = "send" if is_sendish(c) else "recv"
            return p.at_decision and b in self.handles and self.side(b) == want
        if c == RESUME:
            return (not p.at_decision) and w.runnable(p)
        if c == CANCEL:
            return not p.at_decision
        if c == SCANCEL:
            return (not p.at_decision) and bool(self.cur.get(a)) and self.cur[a].get("scope") is not None
        if c == OUTER_CANCEL:
            return (not p.at_decision) and bool(self.cur.get(a)) and self.cur[a].get("outer") is not None
        return True

    def do(self, c, a, b, d):
        w = self.world
        if not self.feasible(c, a, b):
            self.infeasible += 1
            self.ops += [c, a, b, d]
            self.outs += [12, 0] + self.stats()
            self.steps += 1
            return
        before = self.stats()
        pre = {t: (not p.at_decision and w.runnable(p)) for t, p in w.puppets.items()}
        out = None
        val = 0
        if c == SENDNW:
            hs = self.handles[b]

            async def cmd(p):
                hs.send_nowait(d)
            self.cur[a] = None
            out = w.act(a, cmd)
        elif c == RECVNW:
            hr = self.handles[b]

            async def cmd(p):
                return hr.receive_nowait()
            out = w.act(a, cmd)
        elif is_send_op(c):
            hs = self.handles[b]
            self.cur[a] = {"kind": "send", "h": b, "x": d, "stage": "ck", "scope": None, "creq": None,
                           "shape": shape_of(c), "outer": None, "scope_cancelled": False}
            out = w.act(a, self._blocking_cmd(a, lambda: hs.send(d), c == SEND_SC, shape_of(c)))
        elif is_recv_op(c):
            hr = self.handles[b]
            self.cur[a] = {"kind": "recv", "h": b, "x": 0, "stage": "ck", "scope": None, "creq": None,
                           "shape": shape_of(c), "outer": None, "scope_cancelled": False}
            out = w.act(a, self._blocking_cmd(a, lambda: hr.receive(), c == RECV_SC, shape_of(c)))
        elif c == ADVANCE:
            w.loop.advance(10.0)
        elif c == FIRE:
            for hd in list(w.loop.ready_handles()):
                if getattr(hd._callback, "__name__", "") == "_timeout":
                    w.loop.run_handle(hd)
        elif c == OUTER_CANCEL:
            self.cur[a]["outer"].cancel()
        elif c == CLONE:
            try:
                nh = self.handles[b].clone()
                new = len(self.handles)
                self.handles[new] = nh
                out = ("ok", None)
                val = new
            except BaseException as e:  # noqa: BLE001
                out = ("exc", e)
        elif c == CLOSE:
            try:
                self.handles[b].close()
                out = ("ok", None)
            except BaseException as e:  # noqa: BLE001
                out = ("exc", e)
        elif c == RESUME:
            out = w.resume(a)
            if out is None:
                out = ("exc", RuntimeError("resume of a task that is not runnable"))
        elif c == CANCEL:
            w.puppets[a].task.cancel()
        elif c == SCANCEL:
            self.cur[a]["scope"].cancel()
        elif c == DELIVER:
            h = self.deliver_handle(a)
            if h is not None:
                w.loop.run_handle(h)
        code, v = self.code_of(c, out)
        if code in (ITEM,):
            val = v
        if c == CLONE and code == DONE:
            code = HANDLE
        after = self.stats()
        self.ops += [c, a, b, d]
        self.outs += [code, val] + after
        self.steps += 1
        self.monitor(c, a, b, d, code, val, before, after, pre)
        # bookkeeping of the puppet's position inside its call
        if is_send_op(c) or is_recv_op(c) or c == RESUME:
            info = self.cur[a]
            if code == BLOCKED:
                if c == RESUME and info is not None:
                    info["stage"] = "wait"
            else:
                self.cur[a] = None
        if w.loop.errors:
            self.mon.append(("both", f"event loop reported errors: {w.loop.errors[:1]}"))
            w.loop.errors.clear()
        self.purge_stale_delivers()

    def code_of(self, c, out):
        anyio = self.anyio
        if out is None:
            return NONE, 0
        kind, v = out
        if kind == "blocked":
            return BLOCKED, 0
        if kind == "ok":
            if v is _SWALLOWED:
                return CANCELLED, 0
            if c == RECVNW or (c == RESUME and isinstance(v, int) and not isinstance(v, bool)):
                return ITEM, int(v)
            return DONE, 0
        if isinstance(v, CancelledError):
            return CANCELLED, 0
        if isinstance(v, anyio.WouldBlock):
            return WOULDBLOCK, 0
        if isinstance(v, anyio.ClosedResourceError):
            return CLOSED, 0
        if isinstance(v, anyio.BrokenResourceError):
            return BROKEN, 0
        if isinstance(v, anyio.EndOfStream):
            return EOS, 0
        return 11, 0

    # ---------------------------------------------------------------- monitors (model-independent)
    def _viol(self, prop, msg):
        self.mon.append((prop, f"step {self.steps}: {msg}"))

    def m_open(self, side):
        return sum(1 for s, o in self.m_handles.values() if s == side and o)

    def monitor(self, c, a, b, d, code, val, before, after, pre):
        info = self.cur.get(a) if c in (RESUME, CANCEL, SCANCEL, DELIVER) else None
        buf0, os0, or0, ws0, wr0 = before
        buf1, os1, or1, ws1, wr1 = after
        open_send = self.m_open("send")
        open_recv = self.m_open("recv")

        # receivers that are blocked with a pending wait and for which no cancellation was requested, before/after
        live_before = [t for t, i in self.cur.items()
                       if i and i["kind"] == "recv" and i["stage"] == "wait" and not i["creq"]
                       and not pre.get(t, False) and t != (a if c == RESUME else None)]

        # ---- classify the step -------------------------------------------------------------
        send_attempt = c == SENDNW or (c == RESUME and info and info["kind"] == "send" and info["stage"] == "ck")
        recv_attempt = c == RECVNW or (c == RESUME and info and info["kind"] == "recv" and info["stage"] == "ck")
        send_wake = c == RESUME and info and info["kind"] == "send" and info["stage"] == "wait"
        recv_wake = c == RESUME and info and info["kind"] == "recv" and info["stage"] == "wait"
        h = b if c in (SENDNW, RECVNW, CLONE, CLOSE) else (info["h"] if info else None)
        x = d if c == SENDNW else (info["x"] if info else 0)
        if is_send_op(c):
            self.m_sent[d] = {"task": a, "state": "ck", "idx": None}
        if c == SENDNW:
            self.m_sent[d] = {"task": a, "state": "ck", "idx": None}

        # ---- C13: ClosedResourceError exactly for a handle that has itself been closed ------
        if (send_attempt or recv_attempt or c == CLONE) and code != CANCELLED:
            closed = not self.m_handles[h][1]
            if closed and code != CLOSED:
                self._viol("C13", f"operation on closed handle h{h} did not raise ClosedResourceError (got {RESN[code]})")
            if not closed and code == CLOSED:
                self._viol("C13", f"ClosedResourceError on handle h{h} which is open")
        elif code == CLOSED:
            self._viol("C13", "ClosedResourceError from a step that performs no closed-test")

        # ---- C13: BrokenResourceError only / exactly when every receive clone is closed -----
        if code == BROKEN:
            if open_recv != 0:
                self._viol("C13", f"BrokenResourceError while {open_recv} receive clone(s) are open")
            if not (send_attempt or send_wake):
                self._viol("C13", "BrokenResourceError from a step that is not a send")
            self.flags.add("broken")
            if send_wake:
                self.flags.add("broken_wakes_blocked_sender")
        if send_attempt and code not in (CANCELLED, CLOSED) and open_recv == 0 and code != BROKEN:
            self._viol("C13", f"send with every receive clone closed returned {RESN[code]} instead of BrokenResourceError")

        # ---- C13: EndOfStream only / exactly when all send clones closed and nothing pending -
        if code == EOS:
            if open_send != 0:
                self._viol("C13", f"EndOfStream while {open_send} send clone(s) are open")
            if buf0 != 0 or ws0 != 0:
                self._viol("C13", f"EndOfStream while {buf0} buffered and {ws0} pending sender item(s) remain")
            self.flags.add("eos")
            if recv_wake:
                self.flags.add("eos_wakes_blocked_receiver")
        if recv_attempt and code not in (CANCELLED, CLOSED):
            if open_send == 0 and buf0 == 0 and ws0 == 0 and code != EOS:
                self._viol("C13", f"receive on a finished stream returned {RESN[code]} instead of EndOfStream")
            if (buf0 > 0 or ws0 > 0) and code != ITEM:
                self._viol("C12", f"receive found {buf0} buffered / {ws0} blocked-sender item(s) but returned {RESN[code]}")
            if ws0 > 0 and code == ITEM:
                self.flags.add("receive_takes_from_blocked_sender")
                if ws1 != ws0 - 1:
                    self._viol("C12", "receive with blocked senders did not take exactly one sender's item into the buffer")

        # ---- handle bookkeeping (the truth about open clones, from the history alone) -------
        if c == CLONE and code == HANDLE:
            self.m_handles[val] = [self.m_handles[b][0], True]
            self.flags.add("clone")
        if c == CLOSE:
            if self.m_handles[b][1]:
                self.m_handles[b][1] = False
                sd = self.m_handles[b][0]
                if self.m_open(sd) == 0:
                    if sd == "send" and wr0 > 0:
                        self.flags.add("last_send_close_with_blocked_receivers")
                    if sd == "recv" and ws0 > 0:
                        self.flags.add("last_recv_close_with_blocked_senders")
                    if sd == "recv" and buf0 > 0:
                        self.flags.add("receive_side_closed_with_buffered_items")
            else:
                self.flags.add("double_close")
            if code != DONE:
                self._viol("C13", f"close() raised {RESN[code]}")
        open_send = self.m_open("send")
        open_recv = self.m_open("recv")

        # ---- C13: statistics() open counts / waiting counts are the true counts ------------
        if os1 != open_send or or1 != open_recv:
            self._viol("C13", f"statistics() reports {os1} open send / {or1} open receive clones, true counts are {open_send} / {open_recv}")
        w = self.world
        in_send_wait = []
        in_recv_wait = []
        for t, i in self.cur.items():
            if not i:
                continue
            stage = i["stage"]
            if t == a and c == RESUME:
                stage = "wait" if (code == BLOCKED) else None
            if stage == "wait":
                (in_send_wait if i["kind"] == "send" else in_recv_wait).append(t)
        pend_send = [t for t in in_send_wait if not w.runnable(w.puppets[t])]
        pend_recv = [t for t in in_recv_wait if not w.runnable(w.puppets[t])]
        if not (len(pend_send) <= ws1 <= len(in_send_wait)):
            self._viol("C13", f"tasks_waiting_send={ws1} but {len(pend_send)} tasks are blocked and {len(in_send_wait)} are inside a blocked send")
        if not (len(pend_recv) <= wr1 <= len(in_recv_wait)):
            self._viol("C13", f"tasks_waiting_receive={wr1} but {len(pend_recv)} tasks are blocked and {len(in_recv_wait)} are inside a blocked receive")

        # ---- C13: nobody stays blocked once the peer side is fully closed -------------------
        if open_send == 0 and pend_recv:
            self._viol("C13", f"every send clone is closed but receiver task(s) {pend_recv} stay blocked")
        if open_recv == 0 and pend_send:
            self._viol("C13", f"every receive clone is closed but sender task(s) {pend_send} stay blocked")

        # ---- observation O-own-close (audit C13 4.1; a recorded decision, NOT a violation): a task stays blocked although
        #      every clone of its OWN side has been closed, while the peer side is still open
        if open_recv == 0 and open_send > 0 and pend_recv:
            self.flags.add("O-own-close")
        if open_send == 0 and open_recv > 0 and pend_send:
            self.flags.add("O-own-close-sender")

        # ---- C12: a receiver only ever waits when there is nothing to receive (state invariant, every step) ----
        live_after = [t for t in pend_recv if not self.cur[t]["creq"]]
        if wr1 > 0 and (buf1 > 0 or ws1 > 0):
            # (also the third conjunct of C13_close_wakes_all: it is what makes "receivers are woken after the remaining
            #  items have been handed out" true, so the C13 check reports it as well)
            self._viol("both", f"{buf1} item(s) sit in the buffer and {ws1} sender(s) are blocked while "
                              f"{wr1} receiver(s) are waiting (blocked receivers without pending cancellation: {live_after})")
        elif live_after and (buf1 > 0 or ws1 > 0):
            self._viol("C12", f"{buf1} item(s) sit in the buffer and {ws1} sender(s) are blocked while receiver task(s) "
                              f"{live_after} without pending cancellation stay blocked")
        if len(in_recv_wait) >= 2:
            self.flags.add("two_or_more_blocked_receivers")

        # ---- C13: the last send clone closes: remaining items must be handed out before any EndOfStream ------
        if c == CLOSE and open_send == 0 and os0 > 0:
            self.m_rq = []
            for t in in_recv_wait:
                self.cur[t]["closed_with"] = (buf0, ws0)
            if wr0 > 0 and (buf0 > 0 or ws0 > 0):
                self._viol("C13", f"the last send clone was closed while {wr0} receiver(s) wait although {buf0} buffered / "
                                  f"{ws0} pending sender item(s) remain: they are woken without draining them")
        if recv_wake and code == EOS:
            cw = info.get("closed_with")
            if cw and (cw[0] > 0 or cw[1] > 0):
                self._viol("C13", f"a blocked receiver (task {a}) was woken with EndOfStream although {cw[0]} buffered / "
                                  f"{cw[1]} pending sender item(s) remained when the send side closed")

        # ---- C12: buffer bound ---------------------------------------------------------------
        if buf1 > self.maxbuf:
            self._viol("C12", f"buffer holds {buf1} items, max_buffer_size is {self.maxbuf}")
        if buf1 == self.maxbuf and buf1 > 0:
            self.flags.add("buffer_full")

        # ---- C12: send outcomes -------------------------------------------------------------
        if send_attempt:
            rec = self.m_sent[x]
            if code == DONE:
                rec["state"] = "ok"
                rec["idx"] = self.m_entered
                self.m_entered += 1
                if wr0 > 0 and wr1 < wr0 and buf1 == buf0:
                    self.flags.add("handed_to_blocked_receiver")
            elif code == BLOCKED:
                rec["state"] = "wait"
                rec["idx"] = self.m_entered
                self.m_entered += 1
                self.flags.add("sender_blocks")
            elif code == CANCELLED:
                rec["state"] = "failed"
            else:
                rec["state"] = "failed"   # WouldBlock / Closed / Broken: never entered the stream
            # blocked receivers are served: a send must not buffer / block / give up while a live receiver waits,
            # and must not overtake items that arrived earlier
            if code in (DONE, BLOCKED, WOULDBLOCK) and live_before:
                handed = code == DONE and wr1 < wr0 and buf1 == buf0
                if not handed:
                    how = {DONE: "put the item into the buffer", BLOCKED: "blocked", WOULDBLOCK: "raised WouldBlock"}[code]
                    self._viol("C12", f"send of item {x} {how} although receiver task(s) {live_before} are blocked "
                                      f"without a pending cancellation (blocked receivers not served)")
            if code == DONE and wr1 < wr0 and buf1 == buf0 and (buf0 > 0 or ws0 > 0):
                self._viol("C12", f"FIFO: item {x} was handed to a waiting receiver while {buf0} buffered / {ws0} "
                                  f"blocked-sender item(s) that arrived earlier are still undelivered (overtaking)")
            if live_before and any(i and i["kind"] == "recv" and i["stage"] == "wait" and i["creq"]
                                   for i in self.cur.values()):
                self.flags.add("send_meets_cancelled_head_and_live_receiver")
            # audit C12 4.3: a receiver popped from waiting_receivers WITHOUT an item must be one whose cancellation
            # has been delivered, its wake-up must be queued, and it must end with that cancellation.  The queue is
            # FIFO, so the receivers a send pops are the first (tasks_waiting_receive before - after) waiters in the
            # order they started waiting; the last of them got the item iff the send handed it over.
            popped_n = max(wr0 - wr1, 0)
            popped = self.m_rq[:popped_n]
            self.m_rq = self.m_rq[popped_n:]
            handed_over = code == DONE and buf1 == buf0 and popped_n >= 1
            dropped = popped[:-1] if handed_over else popped
            if handed_over and popped:
                ti = self.cur.get(popped[-1])
                if ti and ti.get("creq_pending"):
                    self._viol("C12", f"item {x} was handed to receiver task {popped[-1]} although its cancellation had already "
                                      f"been delivered (the item will be lost)")
            for t in dropped:
                ti = self.cur.get(t)
                if not ti:
                    continue
                ti["skipped_at"] = self.steps
                self.flags.add("receiver_skipped_by_send")
                if not ti.get("creq_pending"):
                    self._viol("C12", f"send popped receiver task {t} from the waiting queue without giving it an item although "
                                      f"no cancellation has been delivered to it (a live receiver is lost)")
                if not self.world.runnable(self.world.puppets[t]):
                    self._viol("C12", f"receiver task {t} was popped from the waiting queue without an item and its wake-up is "
                                      f"not queued (it would hang)")
            # receivers whose cancellation is pending must be skipped
            skipped = [t for t, i in self.cur.items() if i and i["kind"] == "recv" and i["stage"] == "wait" and i["creq"]]
            if skipped and wr0 > 0 and code in (DONE, BLOCKED, WOULDBLOCK):
                self.flags.add("send_meets_receiver_with_pending_cancellation")
                if any(self.cur[t]["creq"] == "scope" for t in skipped):
                    self.flags.add("send_meets_scope_cancelled_receiver")
        if send_wake:
            rec = self.m_sent[x]
            if code == DONE:
                rec["state"] = "ok"
                self.flags.add("blocked_send_completes")
            elif code == CANCELLED:
                rec["state"] = "cancelled"
                self.flags.add("blocked_send_cancelled")
                if x in self.m_received:
                    self.flags.add("interrupted_send_item_delivered")
            elif code == BROKEN:
                rec["state"] = "failed"
                if x in self.m_received:
                    self._viol("C12", f"item {x} was delivered although its send raised BrokenResourceError")
            elif code != BLOCKED:
                self._viol("C12", f"blocked send ended with unexpected {RESN[code]}")

        # ---- C12: receive outcomes ----------------------------------------------------------
        if code == ITEM:
            rec = self.m_sent.get(val)
            if rec is None:
                self._viol("C12", f"received item {val} which was never sent (invented)")
            else:
                if val in self.m_received:
                    self._viol("C12", f"item {val} delivered twice (tasks {self.m_received[val]} and {a})")
                if rec["state"] in ("ck", "failed"):
                    self._viol("C12", f"received item {val} whose send did not succeed (state {rec['state']})")
                if rec["state"] == "cancelled":
                    self.flags.add("interrupted_send_item_delivered")
                idx = rec["idx"]
                if idx is not None:
                    if recv_attempt:
                        if idx < self.m_last_immediate:
                            self._viol("C12", f"FIFO: item {val} (arrival #{idx}) returned after arrival #{self.m_last_immediate}")
                        self.m_last_immediate = idx
                    last = self.m_last_by_task.get(a, -1)
                    if idx < last:
                        self._viol("C12", f"FIFO: task {a} received item {val} (arrival #{idx}) after arrival #{last}")
                    self.m_last_by_task[a] = idx
                    if recv_wake:
                        stamp = info["stamp"]
                        ls, li = self.m_last_blocked_recv
                        # receivers that started waiting earlier are served earlier items
                        for (s2, i2) in self._served:
                            if (s2 < stamp) != (i2 < idx):
                                self._viol("C12", f"waiting receivers not served in order: waiter #{stamp} got arrival #{idx}, waiter #{s2} got arrival #{i2}")
                                break
                        self._served.append((stamp, idx))
                        self.flags.add("blocked_receive_gets_item")
                        if info.get("shape") in (0, 1, 2, 3, 4, 5, 7):
                            self.flags.add("shielded_receiver_served")
            self.m_received[val] = a
        if recv_attempt and code == BLOCKED:
            self.m_rq.append(a)
            info["stamp"] = self.m_blockseq
            self.m_blockseq += 1
            self.flags.add("receiver_blocks")
        if recv_wake and code == CANCELLED:
            self.flags.add("blocked_receive_cancelled")
            if before != after and not (wr1 == wr0 - 1 and [buf1, os1, or1, ws1] == [buf0, os0, or0, ws0]):
                self._viol("both", f"a receive that ended with a cancellation changed the stream: buffer {buf0}->{buf1}, "
                                   f"blocked senders {ws0}->{ws1}, waiting receivers {wr0}->{wr1} (it may only remove its own "
                                   f"queue entry)")
        if recv_wake and info.get("creq_pending") and code != CANCELLED:
            what = "popped from the waiting queue without an item" if info.get("skipped_at") else "cancelled while blocked"
            self._viol("C12", f"receiver task {a} was {what} but its receive ended with {RESN[code]} instead of a cancellation")
        if recv_wake and info.get("skipped_at") and code == CANCELLED:
            self.flags.add("skipped_receiver_ends_cancelled")
        if recv_wake and a in self.m_rq:
            self.m_rq.remove(a)

        # ---- cancellation requests (what the harness did, for the loss budget and flags) ----
        if c in (CANCEL, SCANCEL) and info:
            runnable_before = pre.get(a, False)
            kind = "native" if c == CANCEL else "scope"
            if info["stage"] == "wait":
                if info["kind"] == "recv":
                    if runnable_before and not info["creq"]:
                        # its wake-up is already scheduled: an item may have been handed over
                        if c == CANCEL:
                            self.m_loss_budget += 1
                            self.flags.add("native_cancel_in_handover_cycle")
                        else:
                            self.flags.add("scope_cancel_in_handover_cycle")
                    elif not runnable_before:
                        self.flags.add("cancel_blocked_receiver")
                else:
                    if runnable_before and not info["creq"]:
                        self.flags.add("cancel_sender_after_wakeup")
                    elif not runnable_before:
                        self.flags.add("cancel_blocked_sender")
            else:
                self.flags.add("cancel_in_checkpoint")
            if c == CANCEL:
                info["native_cancel"] = True
            else:
                info["scope_cancelled"] = True
            if not (runnable_before and c == SCANCEL and info["stage"] == "wait") and not info["creq"]:
                info["creq"] = kind
                # delivered while the wait was still pending: the waiter future is cancelled, the call MUST end
                # with a cancellation
                info["creq_pending"] = info["stage"] == "wait" and not runnable_before
        if c == DELIVER:
            self.flags.add("deliver_retry_run")
            if before != after:
                self._viol("both", "a re-run of _deliver_cancellation changed the stream statistics")
        if c in (ADVANCE, FIRE, OUTER_CANCEL):
            self.flags.add({ADVANCE: "clock_passes_deadline", FIRE: "deadline_timer_fires", OUTER_CANCEL: "outer_scope_cancelled_around_shield"}[c])
            if before != after:
                self._viol("both", f"{OPN[c]} (cancel-scope activity OUTSIDE a shield) changed the stream statistics")

        if len(self.m_rq) != wr1:
            self._viol("C12", f"tasks_waiting_receive={wr1} but the history (waiters in FIFO order, pops by sends, removals by "
                              f"their own resumption, last send close) leaves {len(self.m_rq)} queued receiver(s) {self.m_rq}")
            self.m_rq = self.m_rq[:wr1] if len(self.m_rq) > wr1 else self.m_rq   # resynchronise

        # ---- the oracle read by send_nowait: has_pending_cancellation() of every task inside a blocking call must be
        #      exactly "a cancellation has been requested on the task (its waiter future is cancelled / _must_cancel)
        #      or its cancel scope is effectively cancelled", the latter computed HERE from the scope structure the
        #      puppet entered (a shield between the task and a cancelled / expired scope means: NOT cancelled)
        ti_cls = self.ti_cls
        for t, i in self.cur.items():
            pp = self.world.puppets[t]
            if not i or pp.at_decision or pp.finished:
                continue
            if t == a and c == RESUME and code != BLOCKED:
                continue
            if t not in self.tinfo:
                self.tinfo[t] = ti_cls(pp.task)
            observed = bool(self.tinfo[t].has_pending_cancellation())
            expected = bool(i.get("native_cancel")) or bool(i.get("scope_cancelled"))
            if observed != expected:
                shp = SHAPES.get(i.get("shape"), "scoped" if i.get("scope") is not None else "plain")
                self._viol("C12", f"has_pending_cancellation() of task {t} (inside {i['kind']}, scope structure '{shp}') is "
                                  f"{observed} but no cancellation can reach it" if observed else
                                  f"has_pending_cancellation() of task {t} (inside {i['kind']}, scope structure '{shp}') is "
                                  f"False although a cancellation was requested / its scope is effectively cancelled")
            sh = i.get("shape")
            if sh is not None and sh not in (6,) and i["stage"] == "wait" and i["kind"] == "recv":
                self.flags.add("receiver_blocked_inside_shield")
                if sh in (1, 4, 5) or (sh == 7 and i["outer"] is not None and i["outer"].cancel_called):
                    self.flags.add("receiver_blocked_shielded_in_cancelled_scope")
                if sh == 2 or (sh == 3 and self.world.loop.time() > 5):
                    self.flags.add("receiver_blocked_shielded_under_expired_deadline")

    # ---------------------------------------------------------------- end of case
    def quiesce(self):
        """Let every runnable task finish, free the blocked ones by (AnyIO-equivalent) cancellation of their
        pending wait, drain what is left and check conservation of the successfully sent items."""
        w = self.world
        for _ in range(4 * self.ntasks + 8):
            run = [t for t, p in w.puppets.items() if not p.at_decision and w.runnable(p)]
            if run:
                for t in run:
                    self.do(RESUME, t, 0, 0)
                continue
            blocked = [t for t, p in w.puppets.items() if not p.at_decision]
            if not blocked:
                break
            for t in blocked:
                self.do(CANCEL, t, 0, 0)   # pending waiter: identical to what scope delivery does
        stuck = [t for t, p in w.puppets.items() if not p.at_decision]
        if stuck:
            self._viol("both", f"tasks {stuck} could not be brought back to a decision point")
            return
        open_recv = [h for h, (s, o) in self.m_handles.items() if s == "recv" and o]
        if open_recv:
            for _ in range(len(self.m_sent) + 2):
                n = len(self.outs)
                self.do(RECVNW, 1, open_recv[0], 0)
                if self.outs[n] != ITEM:
                    break
        left = self.stats()[0]
        ok_items = [x for x, r in self.m_sent.items() if r["state"] == "ok"]
        missing = [x for x in ok_items if x not in self.m_received]
        if open_recv:
            if left != 0:
                self._viol("C12", f"{left} items still buffered after draining an open receive handle")
            allowed = self.m_loss_budget
        else:
            allowed = self.m_loss_budget + left
            # items that stay in the buffer because the receiving side is closed
            if left:
                self.flags.add("items_stay_in_buffer_after_receive_side_closed")
        if len(missing) > allowed:
            why = "" if not self.m_loss_budget else f" (only {self.m_loss_budget} native hand-over-cycle cancellations)"
            self._viol("C12", f"successfully sent items {missing[:6]} were never delivered and are not in the buffer{why}")
        if missing and self.m_loss_budget and len(missing) <= allowed:
            self.flags.add("item_lost_by_native_cancel_documented_scope")


def new_run(maxbuf, ntasks):
    return MSRun(maxbuf, ntasks)


def run_script(maxbuf, ntasks, flat_ops, quiesce=True):
    r = new_run(maxbuf, ntasks)
    r.enabled_at_end = []
    r.next_item_at_end = 1
    r.prefix_len = 0
    try:
        with r:
            for i in range(0, len(flat_ops), 4):
                c, a, b, d = flat_ops[i:i + 4]
                r.do(c, a, b, d)
                if is_sendish(c):
                    r.next_item = max(r.next_item, d + 1)
            r.enabled_at_end = r.enabled()
            r.next_item_at_end = r.next_item
            r.prefix_len = len(r.ops)
            if quiesce:
                r.quiesce()
    except BaseException:  # noqa: BLE001 - a harness failure on one case must not hide the others
        r.crash = traceback.format_exc()[-1500:]
    return r


PROFILES = {
    # emphasis on data flow and cancellation
    "C12": {SENDNW: 3, RECVNW: 2.5, SEND: 3, SEND_SC: 2.5, RECV: 3, RECV_SC: 3, CLONE: 0.25, CLOSE: 0.25,
            RESUME: 7, CANCEL: 1.6, SCANCEL: 2.2, DELIVER: 1.0},
    # emphasis on clone / close histories
    "C13": {SENDNW: 2, RECVNW: 2, SEND: 2.2, SEND_SC: 1, RECV: 2.6, RECV_SC: 1, CLONE: 2.2, CLOSE: 3.4,
            RESUME: 5, CANCEL: 0.7, SCANCEL: 0.5, DELIVER: 0.5},
}

BUFSIZES = [0, 0, 1, 1, 2, 3, math.inf]


def case_weights(rng: random.Random, profile: str):
    wts = dict(PROFILES[profile])
    wts[CANCEL] *= rng.choice([0.3, 1, 2.5])
    wts[SCANCEL] *= rng.choice([0.3, 1, 2.5])
    wts[RESUME] *= rng.choice([0.4, 1, 1.6])       # low: many tasks stay blocked at the same time
    wts[CLOSE] *= rng.choice([0.3, 1, 1, 2])
    for k in SHAPES:
        wts[SEND_SHAPE0 + k] = 0.35
        wts[RECV_SHAPE0 + k] = 0.9
    wts[ADVANCE], wts[FIRE], wts[OUTER_CANCEL] = 1.2, 1.5, 1.5
    return wts, rng.choice([0.5, 1, 2])


def walk(r: MSRun, rng: random.Random, wts, bias_send, nsteps: int):
    for _ in range(nsteps):
        en = r.enabled()
        ws = []
        for (c, t, h) in en:
            wgt = wts[c]
            if is_sendish(c):
                wgt *= bias_send
            if (is_sendish(c) or is_recvish(c) or c == CLONE) and not r.m_handles[h][1]:
                wgt *= 0.12          # operations on closed handles: keep some
            if c == CLOSE and not r.m_handles[h][1]:
                wgt *= 0.1
            ws.append(wgt)
        c, t, h = rng.choices(en, ws)[0]
        d = 0
        if is_sendish(c):
            d = r.next_item
            r.next_item += 1
        r.do(c, t, h, d)


def random_case(rng: random.Random, nsteps: int, profile: str, shapes: bool = False):
    """shapes=True: the combined scope+stream family - blocking calls are also made inside cancel-scope structures
    (SHAPES), the clock is moved past deadlines, timers fire, outer scopes outside a shield get cancelled."""
    maxbuf = rng.choice(BUFSIZES)
    ntasks = rng.choice([2, 3, 3, 4, 5])
    wts, bias_send = case_weights(rng, profile)
    r = new_run(maxbuf, ntasks)
    r.shapes = shapes
    r.prefix_len = 0
    try:
        with r:
            walk(r, rng, wts, bias_send, nsteps)
            r.prefix_len = len(r.ops)
            r.quiesce()
    except BaseException:  # noqa: BLE001
        r.crash = traceback.format_exc()[-1500:]
    return r


def directed_case(rng: random.Random, profile: str):
    """Directed family: >= 2 receivers blocked, the head one(s) cancelled (native or through their CancelScope) and NOT
    yet resumed, then - in the same cycle - one or more sends, optionally followed by closing every send clone;
    then everybody is resumed in a random order and a short random walk follows."""
    maxbuf = rng.choice(BUFSIZES)
    ntasks = rng.choice([3, 4, 4, 5])
    wts, bias_send = case_weights(rng, profile)
    r = new_run(maxbuf, ntasks)
    r.prefix_len = 0
    try:
        with r:
            if rng.random() < 0.3:
                walk(r, rng, wts, bias_send, rng.choice([2, 4, 6]))
            idle = [t for t, p in r.world.puppets.items() if p.at_decision]
            rh = [h for h, (sd, o) in r.m_handles.items() if sd == "recv" and o]
            sh = [h for h, (sd, o) in r.m_handles.items() if sd == "send" and o]
            if len(idle) >= 3 and rh and sh:
                sender = idle[-1]
                recvs = idle[:-1][:rng.choice([2, 2, 3])]
                for t in recvs:
                    r.do(rng.choice([RECV, RECV_SC, RECV_SC] + [RECV_SHAPE0 + k for k in SHAPES]), t, rng.choice(rh), 0)
                for t in recvs:
                    if r.world.runnable(r.world.puppets[t]):
                        r.do(RESUME, t, 0, 0)
                handover_first = rng.random() < 0.4
                if handover_first:
                    # variant: a send hands its item to the FIRST receiver, which is then cancelled NATIVELY before its
                    # wake-up runs (only a native Task.cancel() can land after the hand-over; documented scope: that
                    # item is lost with the receiver); the other receivers are still queued; then close / further sends
                    p = r.world.puppets[sender]
                    if p.at_decision:
                        x = r.next_item
                        r.next_item += 1
                        r.do(SENDNW, sender, rng.choice(sh), x)
                    t0 = recvs[0]
                    if not r.world.puppets[t0].at_decision:
                        r.do(CANCEL, t0, 0, 0)
                        if rng.random() < 0.6 and r.world.runnable(r.world.puppets[t0]):
                            r.do(RESUME, t0, 0, 0)
                    r.flags.add("directed_native_cancel_after_handover_with_queued_receivers")
                heads = [] if handover_first else (recvs[:rng.choice([1, 1, 2])] if len(recvs) > 2 else recvs[:1])
                for t in heads:
                    p = r.world.puppets[t]
                    if p.at_decision:
                        continue
                    scoped = r.cur[t] and r.cur[t].get("scope") is not None
                    r.do(SCANCEL if (scoped and rng.random() < 0.6) else CANCEL, t, 0, 0)
                for _ in range(rng.choice([0, 1, 1, 2]) if handover_first else rng.choice([1, 1, 2, 3])):
                    p = r.world.puppets[sender]
                    if not p.at_decision:
                        break
                    x = r.next_item
                    r.next_item += 1
                    kind = rng.choice([SENDNW, SENDNW, SEND, SEND_SC])
                    r.do(kind, sender, rng.choice(sh), x)
                    if kind != SENDNW and r.world.runnable(p):
                        r.do(RESUME, sender, 0, 0)
                if rng.random() < (0.6 if profile == "C13" else 0.3) or (handover_first and rng.random() < 0.5):
                    for h in [h for h, (sd, o) in r.m_handles.items() if sd == "send" and o]:
                        r.do(CLOSE, 0, h, 0)
                order = [t for t, p in r.world.puppets.items() if not p.at_decision]
                rng.shuffle(order)
                for t in order:
                    p = r.world.puppets[t]
                    if not p.at_decision and r.world.runnable(p) and rng.random() < 0.8:
                        r.do(RESUME, t, 0, 0)
            walk(r, rng, wts, bias_send, rng.choice([0, 3, 8]))
            r.prefix_len = len(r.ops)
            r.quiesce()
    except BaseException:  # noqa: BLE001
        r.crash = traceback.format_exc()[-1500:]
    return r


def exhaustive_cases(maxbuf, ntasks: int, depth: int, alphabet, with_close=True):
    """All sequences up to `depth` over a restricted alphabet that the implementation enables (DFS by replay)."""
    results = []

    def rec(prefix):
        r = run_script(maxbuf, ntasks, prefix, quiesce=True)
        if len(prefix) // 4 >= depth:
            results.append(r)
            return
        used = {prefix[i + 1] for i in range(0, len(prefix), 4) if prefix[i] not in (CLONE, CLOSE)}
        fresh = min(set(range(1, ntasks + 1)) - used, default=None)
        leaf = True
        for (c, t, h) in r.enabled_at_end:
            if c not in alphabet:
                continue
            if c in (CLONE, CLOSE):
                if not with_close or (c == CLOSE and not r.m_handles[h][1] and False):
                    continue
            elif t not in used and t != fresh:
                continue   # symmetry: a fresh task may only be the smallest unused one
            d = 0
            if c in (SENDNW, SEND, SEND_SC):
                d = r.next_item_at_end
            leaf = False
            rec(prefix + [c, t, h, d])
        if leaf:
            results.append(r)

    rec([])
    return results


# -------------------------------------------------------------------------------------------------
# hand-written scenarios run before the generated ones (the interesting corners, always present)
# -------------------------------------------------------------------------------------------------
def scenario_cases():
    S = []
    # pending-cancellation test through a real CancelScope: receiver blocked, its scope cancelled, then send_nowait
    S.append((0, 2, [RECV_SC, 1, 1, 0, RESUME, 1, 0, 0, SCANCEL, 1, 0, 0, SENDNW, 2, 0, 1, RESUME, 1, 0, 0]))
    S.append((1, 3, [RECV_SC, 1, 1, 0, RESUME, 1, 0, 0, RECV, 2, 1, 0, RESUME, 2, 0, 0, SCANCEL, 1, 0, 0,
                     SENDNW, 3, 0, 1, RESUME, 1, 0, 0, RESUME, 2, 0, 0]))
    # two receivers blocked, the head one cancelled in the same cycle as the send: the live one must get the item;
    # the next send must not overtake; closing the send side afterwards must not produce EndOfStream before the drain
    S.append((1, 3, [RECV, 1, 1, 0, RESUME, 1, 0, 0, RECV, 2, 1, 0, RESUME, 2, 0, 0, CANCEL, 1, 0, 0,
                     SENDNW, 3, 0, 1, SENDNW, 3, 0, 2, RESUME, 2, 0, 0, RESUME, 1, 0, 0, RECVNW, 1, 1, 0]))
    S.append((1, 3, [RECV_SC, 1, 1, 0, RESUME, 1, 0, 0, RECV, 2, 1, 0, RESUME, 2, 0, 0, SCANCEL, 1, 0, 0,
                     SENDNW, 3, 0, 1, CLOSE, 0, 0, 0, RESUME, 2, 0, 0, RESUME, 1, 0, 0]))
    S.append((0, 3, [RECV, 1, 1, 0, RESUME, 1, 0, 0, RECV, 2, 1, 0, RESUME, 2, 0, 0, CANCEL, 1, 0, 0,
                     SEND, 3, 0, 1, RESUME, 3, 0, 0, RESUME, 2, 0, 0, RESUME, 1, 0, 0]))
    S.append((0, 3, [RECV, 1, 1, 0, RESUME, 1, 0, 0, RECV, 2, 1, 0, RESUME, 2, 0, 0, CANCEL, 1, 0, 0,
                     SENDNW, 3, 0, 1, RESUME, 2, 0, 0, RESUME, 1, 0, 0]))
    # same with native cancellation of the pending wait
    S.append((0, 2, [RECV, 1, 1, 0, RESUME, 1, 0, 0, CANCEL, 1, 0, 0, SENDNW, 2, 0, 1, RESUME, 1, 0, 0]))
    # hand-over cycle: item handed over, then the receiver's scope is cancelled: the item must arrive
    S.append((0, 2, [RECV_SC, 1, 1, 0, RESUME, 1, 0, 0, SENDNW, 2, 0, 1, SCANCEL, 1, 0, 0, DELIVER, 1, 0, 0, RESUME, 1, 0, 0]))
    # hand-over cycle with a NATIVE cancel: documented loss
    S.append((0, 2, [RECV, 1, 1, 0, RESUME, 1, 0, 0, SENDNW, 2, 0, 1, CANCEL, 1, 0, 0, RESUME, 1, 0, 0]))
    # blocked sender served by receive_nowait, buffer 0 and 1
    S.append((0, 2, [SEND, 1, 0, 1, RESUME, 1, 0, 0, RECVNW, 2, 1, 0, RESUME, 1, 0, 0]))
    S.append((1, 3, [SENDNW, 1, 0, 1, SEND, 1, 0, 2, RESUME, 1, 0, 0, SEND, 2, 0, 3, RESUME, 2, 0, 0,
                     RECVNW, 3, 1, 0, RECVNW, 3, 1, 0, RECVNW, 3, 1, 0, RESUME, 1, 0, 0, RESUME, 2, 0, 0]))
    # cancelled blocked sender whose item is taken before it resumes
    S.append((0, 2, [SEND_SC, 1, 0, 1, RESUME, 1, 0, 0, SCANCEL, 1, 0, 0, RECVNW, 2, 1, 0, RESUME, 1, 0, 0]))
    # close last send clone while receivers are blocked; close last receive clone while senders are blocked
    S.append((0, 3, [RECV, 1, 1, 0, RESUME, 1, 0, 0, RECV, 2, 1, 0, RESUME, 2, 0, 0, CLONE, 0, 0, 0, CLOSE, 0, 0, 0,
                     CLOSE, 0, 2, 0, RESUME, 1, 0, 0, RESUME, 2, 0, 0]))
    S.append((0, 3, [SEND, 1, 0, 1, RESUME, 1, 0, 0, SEND, 2, 0, 2, RESUME, 2, 0, 0, CLONE, 0, 1, 0, CLOSE, 0, 1, 0,
                     CLOSE, 0, 2, 0, RESUME, 1, 0, 0, RESUME, 2, 0, 0]))
    # items remain while the send side closes: drained in order before EndOfStream
    S.append((3, 2, [SENDNW, 1, 0, 1, SENDNW, 1, 0, 2, CLOSE, 0, 0, 0, RECVNW, 2, 1, 0, RECV, 2, 1, 0, RESUME, 2, 0, 0,
                     RECVNW, 2, 1, 0]))
    # blocked sender's handle closed under it: its item is still delivered, then EndOfStream
    S.append((0, 2, [SEND, 1, 0, 1, RESUME, 1, 0, 0, CLOSE, 0, 0, 0, RECVNW, 2, 1, 0, RECVNW, 2, 1, 0, RESUME, 1, 0, 0]))
    # combined scope + stream: a receiver blocked inside a shield under an expired / cancelled outer scope is LIVE: it is
    # first in line and must get the first item (second receiver plain)
    for k in (2, 1, 4, 5):
        S.append((1, 3, [RECV_SHAPE0 + k, 1, 1, 0, RESUME, 1, 0, 0, RECV, 2, 1, 0, RESUME, 2, 0, 0, SENDNW, 3, 0, 1,
                         SENDNW, 3, 0, 2, RESUME, 1, 0, 0, RESUME, 2, 0, 0]))
    # deadline passes while blocked inside the shield: timer not fired yet / fired
    S.append((0, 2, [RECV_SHAPE0 + 3, 1, 1, 0, RESUME, 1, 0, 0, ADVANCE, 0, 0, 0, SENDNW, 2, 0, 1, RESUME, 1, 0, 0]))
    S.append((0, 2, [RECV_SHAPE0 + 3, 1, 1, 0, RESUME, 1, 0, 0, ADVANCE, 0, 0, 0, FIRE, 0, 0, 0, SENDNW, 2, 0, 1, RESUME, 1, 0, 0]))
    # outer scope cancelled around a shielded blocked receiver; a blocked sender inside a shield under an expired deadline
    S.append((0, 2, [RECV_SHAPE0 + 7, 1, 1, 0, RESUME, 1, 0, 0, OUTER_CANCEL, 1, 0, 0, SENDNW, 2, 0, 1, RESUME, 1, 0, 0]))
    S.append((0, 2, [SEND_SHAPE0 + 2, 1, 0, 1, RESUME, 1, 0, 0, RECVNW, 2, 1, 0, RESUME, 1, 0, 0]))
    # effectively cancelled through the PARENT scope: equivalent to ScopeCancel
    S.append((0, 2, [RECV_SHAPE0 + 6, 1, 1, 0, RESUME, 1, 0, 0, SCANCEL, 1, 0, 0, SENDNW, 2, 0, 1, RESUME, 1, 0, 0]))
    # hand-over to the first of two receivers, native cancel of it before it runs (documented loss of THAT item), the
    # second receiver still queued: then the send side closes (EndOfStream, nothing buffered) / a further item arrives
    S.append((0, 3, [RECV, 1, 1, 0, RESUME, 1, 0, 0, RECV, 2, 1, 0, RESUME, 2, 0, 0, SENDNW, 3, 0, 1, CANCEL, 1, 0, 0,
                     RESUME, 1, 0, 0, CLOSE, 0, 0, 0, RESUME, 2, 0, 0]))
    S.append((1, 3, [RECV, 1, 1, 0, RESUME, 1, 0, 0, RECV, 2, 1, 0, RESUME, 2, 0, 0, SENDNW, 3, 0, 1, CANCEL, 1, 0, 0,
                     RESUME, 1, 0, 0, SENDNW, 3, 0, 2, RESUME, 2, 0, 0, RECVNW, 1, 1, 0]))
    # O-own-close (recorded decision): a receiver blocked on a handle that someone else closes stays blocked while the
    # send side is open, every send is refused, the close of the send side releases it with EndOfStream
    S.append((0, 2, [RECV, 1, 1, 0, RESUME, 1, 0, 0, CLOSE, 0, 1, 0, SENDNW, 2, 0, 1, CLOSE, 0, 0, 0, RESUME, 1, 0, 0]))
    # ... and a sender blocked on a handle that someone else closes stays queued, its item is still delivered
    S.append((0, 2, [SEND, 1, 0, 1, RESUME, 1, 0, 0, CLOSE, 0, 0, 0, RECVNW, 2, 1, 0, RESUME, 1, 0, 0, RECVNW, 2, 1, 0]))
    # operations on closed handles
    S.append((1, 2, [CLONE, 0, 0, 0, CLOSE, 0, 0, 0, SENDNW, 1, 0, 1, SEND, 1, 0, 2, RESUME, 1, 0, 0, CLONE, 0, 0, 0,
                     SENDNW, 1, 2, 3, CLOSE, 0, 1, 0, RECVNW, 2, 1, 0, SENDNW, 1, 2, 4]))
    return S


# -------------------------------------------------------------------------------------------------
# the check shared by c12.py and c13.py
# -------------------------------------------------------------------------------------------------
NEED_FLAGS = {
    "C12": ["handed_to_blocked_receiver", "sender_blocks", "receive_takes_from_blocked_sender", "buffer_full",
            "cancel_blocked_receiver", "cancel_blocked_sender", "native_cancel_in_handover_cycle",
            "scope_cancel_in_handover_cycle", "send_meets_receiver_with_pending_cancellation",
            "send_meets_scope_cancelled_receiver", "blocked_receive_gets_item", "blocked_send_cancelled",
            "interrupted_send_item_delivered", "cancel_sender_after_wakeup", "cancel_in_checkpoint",
            "deliver_retry_run", "item_lost_by_native_cancel_documented_scope",
            "two_or_more_blocked_receivers", "send_meets_cancelled_head_and_live_receiver",
            "receiver_skipped_by_send", "skipped_receiver_ends_cancelled", "receiver_blocked_inside_shield",
            "receiver_blocked_shielded_in_cancelled_scope", "receiver_blocked_shielded_under_expired_deadline",
            "shielded_receiver_served", "clock_passes_deadline", "deadline_timer_fires",
            "outer_scope_cancelled_around_shield", "directed_native_cancel_after_handover_with_queued_receivers"],
    "C13": ["clone", "double_close", "eos", "broken", "eos_wakes_blocked_receiver", "broken_wakes_blocked_sender",
            "last_send_close_with_blocked_receivers", "last_recv_close_with_blocked_senders",
            "receive_side_closed_with_buffered_items", "items_stay_in_buffer_after_receive_side_closed",
            "two_or_more_blocked_receivers", "send_meets_cancelled_head_and_live_receiver", "O-own-close",
            "O-own-close-sender", "directed_native_cancel_after_handover_with_queued_receivers",
            "native_cancel_in_handover_cycle"],
}
NONTRIVIAL = {
    "C12": {"handed_to_blocked_receiver", "receive_takes_from_blocked_sender", "cancel_blocked_receiver",
            "cancel_blocked_sender", "native_cancel_in_handover_cycle", "scope_cancel_in_handover_cycle",
            "send_meets_receiver_with_pending_cancellation", "send_meets_cancelled_head_and_live_receiver"},
    "C13": {"eos", "broken", "last_send_close_with_blocked_receivers", "last_recv_close_with_blocked_senders",
            "double_close"},
}


def observe_skip_prediction_averted():
    """Real-code scenario OUTSIDE the P model (it needs cancel-scope state: nested scopes, shields and the retry callback of
    _deliver_cancellation), after hunt/C12/borderline_shield_toggle.py.  A receiver blocked in receive() inside a
    shielded scope, inside an already cancelled task-group scope whose delivery retry callback is pending (a sibling is
    slow to die).  In ONE loop cycle a third party un-shields the inner scope (delivery is deferred to the pending
    retry), calls send_nowait (has_pending_cancellation() is true through _effectively_cancelled, so the receiver is
    popped and the item buffered) and re-shields the scope (the retry now skips the receiver).  The prediction "this
    receiver is about to be cancelled" has been averted: the receiver is neither cancelled nor ever served.
    Runs on a plain asyncio loop.  Returns the observation; it is recorded in the evidence, it is not a violation
    (the property quantifies over cancellation, not over shield toggling by a third party inside one cycle)."""
    import anyio
    from anyio import CancelScope, create_memory_object_stream, create_task_group, sleep_forever

    out = {"ran": False}

    async def main():
        tx, rx = create_memory_object_stream(5)
        res, st = [], {}

        async def receiver():
            with CancelScope(shield=True) as inner:
                st["inner"] = inner
                try:
                    res.append(await rx.receive())
                except BaseException as e:  # noqa: BLE001
                    res.append(type(e).__name__)
                    raise

        async def slow_to_die():
            try:
                await asyncio.sleep(100)
            except BaseException:  # noqa: BLE001
                for _ in range(6):
                    try:
                        await asyncio.sleep(0)
                    except BaseException:  # noqa: BLE001
                        pass
                raise

        async def group():
            async with create_task_group() as outer:
                st["outer"] = outer
                outer.start_soon(receiver)
                outer.start_soon(slow_to_die)
                await sleep_forever()

        async with create_task_group() as top:
            top.start_soon(group)
            for _ in range(4):
                await asyncio.sleep(0)
            st["outer"].cancel_scope.cancel()
            await asyncio.sleep(0)
            waiting_before = tx.statistics().tasks_waiting_receive
            st["inner"].shield = False      # --- one loop cycle, no awaits ---
            tx.send_nowait("a")
            st["inner"].shield = True       # ---------------------------------
            for _ in range(20):
                await asyncio.sleep(0)
            tx.send_nowait("b")
            for _ in range(5):
                await asyncio.sleep(0)
            stats = tx.statistics()
            out.update({
                "ran": True, "receiver_result": list(res), "tasks_waiting_receive_before": waiting_before,
                "current_buffer_used": stats.current_buffer_used, "tasks_waiting_receive": stats.tasks_waiting_receive,
                "skip_prediction_averted": (not res and stats.current_buffer_used == 2
                                            and stats.tasks_waiting_receive == 0 and waiting_before == 1),
            })
            st["inner"].shield = False      # let everything unwind
            tx.close()
            rx.close()

    try:
        asyncio.run(asyncio.wait_for(main(), 20))
    except BaseException as e:  # noqa: BLE001
        out["error"] = repr(e)[:200]
    return out


def case_of(r: MSRun):
    return [r.maxcode()] + r.ops


def msg_key(msg: str) -> str:
    return msg.split(":", 1)[-1][:40]


def shrink(maxbuf, ntasks, ops, prop, want_key=None):
    """Drop ops while a monitor of `prop` still trips - the SAME monitor (message class `want_key`) if given, so that a
    clause-level violation is not shrunk away into a simpler symptom of the same defect (cheap greedy pass)."""
    def trips(o):
        try:
            r = run_script(maxbuf, ntasks, o)
        except BaseException:  # noqa: BLE001
            return None
        if r.infeasible or r.crash:
            return None
        hits = [m for (p, m) in r.mon if p in (prop, "both")]
        if want_key is not None:
            hits = [m for m in hits if msg_key(m) == want_key] + [m for m in hits if msg_key(m) != want_key] \
                if any(msg_key(m) == want_key for m in hits) else []
        return (r, hits) if hits else None

    # a scripted case may contain ops the (possibly modified) implementation could not perform: drop those first
    r0 = run_script(maxbuf, ntasks, ops, quiesce=False)
    keep = [i for i in range(0, len(ops), 4) if i // 4 * OBS < len(r0.outs) and r0.outs[i // 4 * OBS] != 12]
    ops = [x for i in keep for x in ops[i:i + 4]]
    best = trips(ops)
    if best is None:
        return None
    cur = list(ops)
    changed = True
    rounds = 0
    while changed and rounds < 6:
        changed = False
        rounds += 1
        i = len(cur) - 4
        while i >= 0:
            cand = cur[:i] + cur[i + 4:]
            t = trips(cand)
            if t is not None:
                cur = cand
                best = t
                changed = True
            i -= 4
    return cur, best[0], best[1]


TIE_FILES = ("prims/MemGen.v", "prims/MemGenEq.v")
TIE_HELPERS = {"wloop_pop_live": "snd_send_nowait_entry (the pop loop with the pending-cancellation skip)",
               "send_nowait_sim": "snd_send_nowait_entry", "recv_nowait_sim": "rcv_receive_nowait_entry",
               "for_keys_set": "close (the wake-up loop)", "step_runs_generated": "dispatch (whole machine)",
               "cancelled_entry_noeffect": "snd_send_entry / rcv_receive_entry"}


def check(prop: str, tier: str) -> int:
    rep = core.Report(prop, tier)
    rep.assumptions = core.TRUSTED_BASE_COMMON + [
        "model prims/MemStream.v hand-written from streams/memory.py:55-326, _core/_streams.py:36-52 and "
        "_asyncio.py:2238-2253 (has_pending_cancellation); cancellation modelled as native Task.cancel() on a blocked "
        "task (op Cancel) and as CancelScope.cancel() of a scope entered around the blocked call (op ScopeCancel, "
        "which by _asyncio.py:605-607 never cancels a task whose waiter future is done)",
        "tie T: tools/translate_mem.py (python ast -> coq/prims/MemGen.v; fail-closed tables in the script) regenerates the segments of MemoryObjectSendStream.send_nowait/send/clone/close and MemoryObjectReceiveStream.receive_nowait/receive/clone/close (send/receive cut at `await checkpoint()` and at `await <event>.wait()`, the finally block of receive copied into both continuations) on every run and checks the dataclass fields, __post_init__, aclose, statistics, __enter__/__exit__ and _MemoryObjectStreamState literally; MemGenEq.v proves that interpreting them (prims/MemImp.v) is MemStream.step on everything the code reads and writes (buffer, open-channel counters, both wait queues, receiver item slots, the waiter futures of the events, the object's _closed flag; pointwise on function-valued fields), with step_runs_generated / grun_iff_reach for the whole machine. Trusted in it: the translator's tables, CPython await/exception semantics at the cut points (MemImp.dispatch: which continuation runs, locals persist; the exception raised at <event>.wait() is CancelledError), the Event created by a blocked call modelled as its single waiter future, TaskInfo.has_pending_cancellation() as an oracle (= MemStream.has_pending), OrderedDict/deque semantics (append at the end for a fresh key, popitem(last=False), pop(k, None)). The ghost fields of the model are not tied (history variables never read by the code). Not the only tie: the same model is co-simulated against the running code below",
        "items are distinct integers chosen by the harness (the theorems assume fresh item ids, enforced by the model)",
    ]
    import time as _time
    stage_t = {}
    _t0 = _time.time()
    # tie T: regenerate MemGen.v from the source under test, then rebuild the cone of props/<prop>.v, under the `tiegen`
    # lock (harness/tiegen.py)
    t_rc, t_out, proofs_ok = tiegen.translate_and_prove(rep, f"props/{prop}.v", "translate_mem.py")
    tie_T, tie_T_broken = tiegen.describe(rep, t_rc, t_out, proofs_ok, TIE_FILES, TIE_HELPERS)
    tie_T["translator"] = "tools/translate_mem.py (python ast -> coq/prims/MemGen.v, fail closed)"
    tie_T["equality_theorems"] = ("MemGenEq.v: tie_send_nowait, tie_recv_nowait, tie_send_entry, tie_send_ck_{resumed,cancelled}, "
                                  "tie_send_event_{resumed,cancelled}, tie_recv_entry, tie_recv_ck_{resumed,cancelled}, "
                                  "tie_recv_event_{resumed,cancelled}, tie_clone, tie_close, step_runs_generated, grun_iff_reach "
                                  "(props C12_tie_* / C13_tie_*)")
    rep.coverage["tie_T"] = tie_T
    stage_t["proofs_make_gate_print_assumptions"] = round(_time.time() - _t0, 1)
    _t0 = _time.time()
    exe = core.build_driver("memstream", "MemStream")
    stage_t["extraction_and_driver_build"] = round(_time.time() - _t0, 1)
    _t0 = _time.time()

    rng = random.Random(core.seed() + (12 if prop == "C12" else 13))
    runs = []
    corpus_dir = core.VERIF / "corpus" / prop
    n_corpus = 0
    if corpus_dir.is_dir():
        for f in sorted(corpus_dir.glob("*.json")):
            c = json.loads(f.read_text())
            mb = math.inf if c["maxbuf"] in (-1, "inf") else c["maxbuf"]
            runs.append(run_script(mb, c["ntasks"], c["ops"]))
            n_corpus += 1
    for (mb, nt, ops) in scenario_cases():
        runs.append(run_script(mb, nt, ops))
    n_scen = len(runs) - n_corpus
    n_random = 500 if tier == "quick" else 9000
    n_directed = 0
    n_shapes = 0
    for i in range(n_random):
        if i % 5 == 0:
            runs.append(directed_case(rng, prop))
            n_directed += 1
        elif i % 5 == 2:
            runs.append(random_case(rng, rng.choice([8, 12, 18, 26, 40]), prop, shapes=True))
            n_shapes += 1
        else:
            runs.append(random_case(rng, rng.choice([8, 12, 18, 26, 40, 60]), prop))
    # exhaustive small scope
    if prop == "C12":
        alpha = {SENDNW, RECVNW, SEND, RECV, RESUME, CANCEL}
        scopes = [(0, 2, 5), (1, 2, 4)] if tier == "quick" else [(0, 2, 7), (1, 2, 6), (0, 3, 5), (2, 2, 5)]
        wc = False
    else:
        alpha = {SENDNW, RECVNW, SEND, RECV, RESUME, CLOSE, CLONE}
        scopes = [(0, 2, 4), (1, 2, 3)] if tier == "quick" else [(0, 2, 5), (1, 2, 5)]
        wc = True
    n_ex = 0
    for (mb, nt, dp) in scopes:
        ex = exhaustive_cases(mb, nt, dp, alpha, with_close=wc)
        n_ex += len(ex)
        runs += ex

    stage_t["run_on_implementation"] = round(_time.time() - _t0, 1)
    _t0 = _time.time()
    cases = [case_of(r) for r in runs]
    expected = [r.outs for r in runs]
    model_outs = core.run_driver(exe, cases)
    stage_t["extracted_model_driver"] = round(_time.time() - _t0, 1)
    disagreements = []
    for r, c, e, m in zip(runs, cases, expected, model_outs):
        if e != m:
            k = next((i for i in range(min(len(e), len(m))) if e[i] != m[i]), min(len(e), len(m)))
            disagreements.append({"maxbuf": r.maxcode(), "ntasks": r.ntasks, "ops": r.ops,
                                  "ops_readable": readable(r.ops), "impl": e, "model": m,
                                  "first_diff_step": k // OBS,
                                  "impl_step": e[(k // OBS) * OBS:(k // OBS) * OBS + OBS],
                                  "model_step": m[(k // OBS) * OBS:(k // OBS) * OBS + OBS]})
    rejected = sum(1 for m in model_outs for i in range(0, len(m), OBS) if m[i] == REJECTED)
    unexpected = sum(1 for e in expected for i in range(0, len(e), OBS) if e[i] in (11, 12))
    monitor_hits = [(r, msg) for r in runs for (p, msg) in r.mon if p in (prop, "both")]
    other_hits = sum(1 for r in runs for (p, msg) in r.mon if p not in (prop, "both"))

    # kernel-checked sample (vm_compute): corpus + scenarios + a random sample of the shorter cases
    sample_n = 40 if tier == "quick" else 300
    idx = [i for i in range(len(cases)) if len(cases[i]) <= 4 * 45]
    rng.shuffle(idx)
    idx = list(range(0, n_corpus + n_scen)) + [i for i in idx if i >= n_corpus + n_scen][:sample_n]
    _t0 = _time.time()
    vm_ok, vm_log = core.coq_eval_cases(prop.lower(), "MemStream", [cases[i] for i in idx], [expected[i] for i in idx])
    stage_t["vm_compute_sample"] = round(_time.time() - _t0, 1)

    # ---- decide ----
    seen_msgs = set()
    reported = 0
    for r, msg in sorted(monitor_hits, key=lambda rm: len(rm[0].ops)):
        key = msg_key(msg)
        if key in seen_msgs or reported >= 6:
            continue
        seen_msgs.add(key)
        reported += 1
        ops = r.ops[:r.prefix_len] if hasattr(r, "prefix_len") else r.ops
        sh = None
        try:
            sh = shrink(r.maxbuf, r.ntasks, ops, prop, want_key=key)
        except BaseException:  # noqa: BLE001
            sh = None
        if sh is not None:
            sops, sr, shits = sh
            rep.violation(shits[0], {"kind": "monitor", "maxbuf": r.maxcode(), "ntasks": r.ntasks, "ops": sops,
                                     "ops_readable": readable(sops), "all_hits": shits[:5],
                                     "executed_ops_readable": readable(sr.ops), "observations": sr.outs,
                                     "replay": "harness/memstream_common.run_script(maxbuf, ntasks, ops)"})
        else:
            rep.violation(msg, {"kind": "monitor", "maxbuf": r.maxcode(), "ntasks": r.ntasks, "ops": r.ops,
                                "ops_readable": readable(r.ops), "observations": r.outs})
    tie_broken = []
    if not proofs_ok:
        tie_broken.append("proof obligation: " + str(rep.coverage.get("proof_failure", {}).get("where")))
        tie_broken += tie_T_broken
    if disagreements:
        tie_broken.append("correspondence MemStream.run_case vs anyio memory object streams")
    if rejected:
        tie_broken.append(f"model rejected {rejected} ops the implementation performed")
    if unexpected:
        tie_broken.append(f"{unexpected} steps raised an exception class outside the model's result enum or could not be executed as scripted")
    crashed = [r for r in runs if r.crash]
    if crashed:
        tie_broken.append(f"the harness could not complete {len(crashed)} case(s) on the implementation: "
                          + crashed[0].crash.strip().splitlines()[-1][:200])
    if not vm_ok and not disagreements:
        tie_broken.append("vm_compute sample disagrees with extracted model")
    if tie_broken and not monitor_hits:
        d = min(disagreements, key=lambda d: len(d["ops"])) if disagreements else None
        if d is None and crashed:
            c0 = min(crashed, key=lambda r: len(r.ops))
            d = {"maxbuf": c0.maxcode(), "ntasks": c0.ntasks, "ops": c0.ops, "ops_readable": readable(c0.ops),
                 "harness_traceback": c0.crash}
        rep.violation("; ".join(tie_broken), {"kind": "tie", "broken": tie_broken, "case": d, "tie_T": tie_T,
                                               "monitor_hits_of_the_sibling_property": other_hits}, no_input=True)

    _t0 = _time.time()
    skip_obs = observe_skip_prediction_averted()
    skip_obs["what"] = ("real-code scenario outside the P model (needs cancel-scope state): a receiver skipped by send_nowait on "
                        "the prediction that it will be cancelled (shield toggled off) and re-shielded in the same cycle "
                        "stays blocked with items in the buffer; recorded, not a violation (see props/C12.v header)")
    stage_t["skip_prediction_scenario"] = round(_time.time() - _t0, 1)
    flags = {}
    for r in runs:
        for f in r.flags:
            flags[f] = flags.get(f, 0) + 1
    distinct = len({tuple(c) for c, r in zip(cases, runs) if r.flags & NONTRIVIAL[prop]})
    opcount = {}
    bufcount = {}
    for r in runs:
        for i in range(0, len(r.ops), 4):
            opcount[opname(r.ops[i])] = opcount.get(opname(r.ops[i]), 0) + 1
        k = "inf" if r.maxbuf == math.inf else str(r.maxbuf)
        bufcount[k] = bufcount.get(k, 0) + 1
    rescount = {}
    for e in expected:
        for i in range(0, len(e), OBS):
            rescount[RESN[e[i]]] = rescount.get(RESN[e[i]], 0) + 1
    maxclones = max((sum(1 for s, o in r.m_handles.values() if s == "send") for r in runs), default=0)
    rep.coverage.update({
        "trusted_base": rep.assumptions,
        "evaluations": len(runs),
        "programs": len(runs),
        "steps_compared": sum(len(e) // OBS for e in expected),
        "traces_validated_against_impl": len(runs) - len(disagreements),
        "disagreements_checked": len(disagreements),
        "distinct_nontrivial": distinct,
        "rule": "weighted random walk over the ops the implementation enables (idle task: send/send_nowait/receive/"
                "receive_nowait on any clone incl. closed ones, with or without an enclosing CancelScope; blocked task: "
                "resume if its wake-up is queued, native Task.cancel(), cancel() of its CancelScope, re-run of "
                "_deliver_cancellation; clone/close of any handle), buffer sizes 0,1,2,3,inf, 2-5 tasks, up to 4 "
                "clones per side, then quiescence + drain; plus the combined scope+stream family (every 5th case: blocking calls "
                "inside cancel-scope structures - shielded, shielded inside a cancelled / expired-deadline / live outer "
                "scope, nested two deep, plain inside plain - with the virtual clock moved past deadlines, timers fired "
                "or not, outer scopes cancelled; has_pending_cancellation() of every waiter compared with the value "
                "computed from the structure) and a directed family (every 5th case: >= 2 receivers "
                "blocked, head one(s) cancelled natively or through their CancelScope and not yet resumed, sends in "
                "the same cycle, optionally all send clones closed, random resume order), hand-written corner "
                "scenarios and exhaustive enumeration of all enabled sequences over a restricted alphabet to a fixed depth; profile "
                + prop + "; non-trivial = reaches one of " + ", ".join(sorted(NONTRIVIAL[prop])),
        "exhaustive_small_scope_cases": n_ex,
        "exhaustive_scopes_(maxbuf,tasks,depth)": scopes,
        "scenario_cases": n_scen,
        "scope_structure_cases_(calls_inside_shield/cancelled/expired/nested_scopes,_clock,_timers)": n_shapes,
        "directed_cases_(>=2_blocked_receivers,_head_cancelled,_send_in_the_same_cycle)": n_directed,
        "corpus_cases": n_corpus,
        "reached": flags,
        "op_distribution": opcount,
        "result_distribution": rescount,
        "buffer_size_distribution": bufcount,
        "max_send_clones_in_a_case": maxclones,
        "vm_compute_sample": len(idx),
        "vm_compute_ok": vm_ok,
        "model_rejected_ops": rejected,
        "monitor_hits": len(monitor_hits),
        "stage_seconds": stage_t,
        "observations": {
            "O-own-close": {"cases": flags.get("O-own-close", 0), "sender_variant_cases": flags.get("O-own-close-sender", 0),
                            "what": "a task stays blocked on a stream although every clone of its OWN side was closed by "
                                    "someone else while the peer side is open (recorded decision, theorem "
                                    "C13_blocked_on_own_closed_side; the property text speaks of the peer side only)"},
            "skip_prediction_averted": skip_obs,
        },
        "samples": [{"maxbuf": runs[i].maxcode(), "ops": readable(runs[i].ops)[:30], "outs": runs[i].outs[:70]}
                    for i in idx[:2]],
    })
    for need in NEED_FLAGS[prop]:
        if not flags.get(need):
            rep.notes.append(f"generator self-check: predicate {need} never reached")
    return rep.finish()
