"""
anyio.functools.lru_cache: the entries are kept per event loop, but the entry counter
(_currsize) lives on the wrapper and is shared by all event loops.

After one event loop has filled the cache, the same cached function used in a second
event loop (a second asyncio.run(), the next test of a test suite, another thread's
loop, ...) believes that its (empty) cache is already full:
  * every miss "evicts" - the first victim being the caller's own in-flight placeholder,
    so concurrent callers with equal arguments each run the wrapped function
    (single flight is lost although there is only ONE key and nothing to evict);
  * the cache retains 1 result instead of maxsize (f(1), f(2), f(1) recomputes f(1)
    with maxsize=2);
  * cache_clear() in the new loop is a no-op (nothing cached there yet), so the stale
    counter cannot even be reset.

Run: PYTHONPATH=<worktree>/src python demo.py
"""

import asyncio
import os
import sys
import threading

from anyio.functools import lru_cache


def watchdog() -> None:
    print("PROPERTY VIOLATED: demo hung (watchdog)")
    os._exit(1)


timer = threading.Timer(50, watchdog)
timer.daemon = True
timer.start()

calls: list[int] = []
running = 0
max_running = 0


@lru_cache(maxsize=2)
async def f(x: int) -> int:
    global running, max_running
    running += 1
    max_running = max(max_running, running)
    calls.append(x)
    try:
        await asyncio.sleep(0.01)
        return x * 10
    finally:
        running -= 1


async def first_loop() -> None:
    # Fill the cache (2 entries == maxsize) in the first event loop
    assert await f(1) == 10
    assert await f(2) == 20


problems: list[str] = []


async def second_loop() -> None:
    global max_running
    # A user trying to start from a clean slate
    f.cache_clear()
    info = f.cache_info()
    if info.currsize != 0:
        problems.append(
            f"cache_info().currsize == {info.currsize} in a fresh event loop whose "
            f"cache is empty, even after cache_clear()"
        )

    # (a) single flight: three concurrent callers, one key, nothing else in the cache
    calls.clear()
    max_running = 0
    results = await asyncio.gather(f(7), f(7), f(7))
    assert results == [70, 70, 70]
    if len(calls) != 1 or max_running != 1:
        problems.append(
            f"3 concurrent f(7) calls ran the wrapped function {len(calls)} times, "
            f"{max_running} at the same time (expected one flight)"
        )

    # (b) retention: maxsize=2 must keep the two most recently used results
    calls.clear()
    await f(11)
    await f(12)
    await f(11)
    if calls != [11, 12]:
        problems.append(
            f"f(11), f(12), f(11) with maxsize=2 ran the function for {calls} "
            f"(f(11) was evicted from a cache that held a single result)"
        )


asyncio.run(first_loop())
asyncio.run(second_loop())

if problems:
    for p in problems:
        print("PROPERTY VIOLATED:", p)
    sys.exit(1)

print("ok")
