"""
anyio.functools.lru_cache(maxsize=0) (and any negative maxsize, which is clamped to 0)
takes a shortcut that bypasses the per-key lock altogether:

  (a) concurrent calls with equal arguments all run the wrapped function at the same
      time - no single flight;
  (b) always_checkpoint=True is ignored: a call does not yield to the event loop if the
      wrapped function does not (the docstring promises "every call to the cached
      function will be guaranteed to yield control to the event loop at least once").

Run: PYTHONPATH=<worktree>/src python demo.py
"""

import asyncio
import os
import sys
import threading

from anyio.functools import lru_cache


def watchdog() -> None:
    print("PROPERTY VIOLATED: demo hung (watchdog)")
    os._exit(1)


timer = threading.Timer(50, watchdog)
timer.daemon = True
timer.start()

running = 0
max_running = 0
runs = 0


@lru_cache(maxsize=0)
async def f(x: int) -> int:
    global running, max_running, runs
    running += 1
    runs += 1
    max_running = max(max_running, running)
    try:
        await asyncio.sleep(0.01)
        return x * 10
    finally:
        running -= 1


@lru_cache(maxsize=0, always_checkpoint=True)
async def g(x: int) -> int:
    return x


problems: list[str] = []


async def main() -> None:
    global runs
    # (a) single flight
    assert await asyncio.gather(f(1), f(1), f(1)) == [10, 10, 10]
    if max_running != 1:
        problems.append(
            f"maxsize=0: 3 concurrent f(1) calls ran the wrapped function "
            f"{max_running} at a time (single flight expected, later callers reuse the "
            f"first result)"
        )

    # ... while nothing must be retained once the callers are gone
    runs = 0
    await f(1)
    if runs != 1:
        problems.append("maxsize=0: a result was retained")

    # (b) always_checkpoint
    other_ran = False

    def callback() -> None:
        nonlocal other_ran
        other_ran = True

    asyncio.get_running_loop().call_soon(callback)
    assert await g(1) == 1
    if not other_ran:
        problems.append(
            "maxsize=0, always_checkpoint=True: the call returned without yielding "
            "control to the event loop"
        )


asyncio.run(main())

if problems:
    for p in problems:
        print("PROPERTY VIOLATED:", p)
    sys.exit(1)

print("ok")
