"""
anyio.functools.lru_cache: cache_clear() while a call is in flight leaves a phantom
count behind, after which single flight is lost for good.

cache_clear() throws the entries dict away and zeroes wrapper._currsize, but calls that
are in flight (or queued on a key's lock) keep working on the old, orphaned dict and
keep updating the *shared* counter.  If such a call counts its entry after the clear
(here: a queued caller that takes over because the first caller was cancelled), the new,
empty cache has currsize == 1.  With maxsize=1 the cache now looks full forever: every
miss "evicts" its own in-flight placeholder, so concurrent callers with equal arguments
all run the wrapped function.

Run: PYTHONPATH=<worktree>/src python demo.py
"""

import asyncio
import os
import sys
import threading

from anyio.functools import lru_cache


def watchdog() -> None:
    print("PROPERTY VIOLATED: demo hung (watchdog)")
    os._exit(1)


timer = threading.Timer(50, watchdog)
timer.daemon = True
timer.start()

calls: list[int] = []
gate: asyncio.Event


@lru_cache(maxsize=1)
async def f(x: int) -> int:
    calls.append(x)
    await gate.wait()
    return x


problems: list[str] = []


async def main() -> None:
    global gate
    gate = asyncio.Event()

    a = asyncio.ensure_future(f(1))  # first caller: in flight, holds the key's lock
    await asyncio.sleep(0)
    w = asyncio.ensure_future(f(1))  # second caller: queued on the lock
    await asyncio.sleep(0)

    f.cache_clear()  # e.g. a configuration reload

    a.cancel()  # first caller is cancelled, the queued caller takes over
    await asyncio.sleep(0)
    await asyncio.sleep(0)
    gate.set()
    assert await w == 1

    info = f.cache_info()
    # The result of w went to the orphaned dict; the live cache is empty.
    # Later, unrelated use of the cache: three concurrent callers, one key.
    calls.clear()
    gate = asyncio.Event()
    tasks = [asyncio.ensure_future(f(5)) for _ in range(3)]
    await asyncio.sleep(0.01)
    concurrent_flights = list(calls)
    gate.set()
    assert await asyncio.gather(*tasks) == [5, 5, 5]
    if len(concurrent_flights) != 1:
        problems.append(
            f"after cache_clear() raced an in-flight call, 3 concurrent f(5) calls "
            f"ran the wrapped function {len(concurrent_flights)} times concurrently "
            f"(cache_info before them: {info})"
        )


asyncio.run(main())

if problems:
    for p in problems:
        print("PROPERTY VIOLATED:", p)
    sys.exit(1)

print("ok")
