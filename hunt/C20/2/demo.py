"""
anyio.functools.lru_cache: a call that is cancelled while entering the per-key lock
(e.g. any call made in an already cancelled scope) leaves an *uncounted* placeholder in
the cache.  When the cache is full, the next miss evicts that placeholder instead of a
real result and - because it evicted something - does not increase currsize.  Every such
aborted call therefore makes the cache retain one more result than maxsize, forever:
bounded retention is lost (cache_info().currsize still claims maxsize).

Run: PYTHONPATH=<worktree>/src python demo.py
"""

import asyncio
import gc
import os
import sys
import threading
import weakref

import anyio
from anyio.functools import lru_cache


def watchdog() -> None:
    print("PROPERTY VIOLATED: demo hung (watchdog)")
    os._exit(1)


timer = threading.Timer(50, watchdog)
timer.daemon = True
timer.start()

MAXSIZE = 2
ABORTED_CALLS = 5


class Result:
    """A (possibly big) result object; we count how many of them are kept alive."""

    def __init__(self, key: int) -> None:
        self.key = key


live_results: weakref.WeakSet[Result] = weakref.WeakSet()


@lru_cache(maxsize=MAXSIZE)
async def f(key: int) -> Result:
    await asyncio.sleep(0)
    result = Result(key)
    live_results.add(result)
    return result


problems: list[str] = []


async def main() -> None:
    # Calls that are cancelled before they even start: the enclosing scope has already
    # been cancelled (think: a timed out request handler, a cancelled task group whose
    # children are just about to call the cached function, ...)
    for key in range(100, 100 + ABORTED_CALLS):
        with anyio.CancelScope() as scope:
            scope.cancel()
            await f(key)

        assert scope.cancelled_caught

    # Normal use afterwards: ten different keys, results are dropped by the callers
    for key in range(10):
        assert (await f(key)).key == key

    gc.collect()
    retained = sorted(r.key for r in live_results)
    info = f.cache_info()
    if len(retained) > MAXSIZE:
        problems.append(
            f"maxsize={MAXSIZE} but the cache retains {len(retained)} results "
            f"(keys {retained}) after {ABORTED_CALLS} calls were cancelled on entry; "
            f"cache_info() = {info}"
        )


asyncio.run(main())

if problems:
    for p in problems:
        print("PROPERTY VIOLATED:", p)
    sys.exit(1)

print("ok")
