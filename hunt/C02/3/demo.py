import anyio, asyncio
from anyio import CancelScope, create_task_group
log=[]
async def main():
    with CancelScope() as outer:
        async with create_task_group() as tg:
            async def A():
                with CancelScope(shield=True):
                    await anyio.sleep(0.1)
                try:
                    await anyio.sleep(0.3); log.append("A ran to completion")
                except BaseException: log.append("A cancelled"); raise
            async def B():
                with CancelScope(shield=True):
                    await anyio.sleep(0.05)
                raise ValueError("boom")
            tg.start_soon(A); tg.start_soon(B)
            outer.cancel()
            with CancelScope(shield=True):
                await anyio.sleep(0.07)       # B has failed by now; the group was only effectively cancelled via outer
            tg.cancel_scope.shield = True     # hide the outer cancellation from the group
            try:
                await anyio.sleep(0.3); log.append("body ran to completion")
            except BaseException: log.append("body cancelled"); raise
try:
    asyncio.run(main())
except BaseException as e: log.append(repr(e)[:60])
print(log)
print("PROPERTY VIOLATED" if "A ran to completion" in log or "body ran to completion" in log else "ok")
