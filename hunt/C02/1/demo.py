"""
A non-cancellation exception raised by a child started with TaskGroup.start()
(before it calls task_status.started()) is silently dropped when the task that
awaits start() is cancelled (asyncio-natively: Task.cancel(), asyncio.timeout(),
asyncio.wait_for(), asyncio.TaskGroup shutdown, ...) in the same event loop cycle
in which the child's failure is handed over to it.

Only public API is used (anyio + asyncio).  The exact cycle is found by a
deterministic sweep over "cancel the starter after k loop cycles".
"""

import asyncio
import signal
import sys

import anyio
from anyio import TASK_STATUS_IGNORED, create_task_group


def leaves(exc):
    if isinstance(exc, BaseExceptionGroup):
        for e in exc.exceptions:
            yield from leaves(e)
    else:
        yield exc


async def scenario(k: int, starter_kind: str):
    """Returns (raised, surfaced): the exception the child raised (or None if it was
    cancelled before raising) and the list of places where it surfaced."""
    raised = []
    surfaced = []
    starter_task = None

    async def child(*, task_status=TASK_STATUS_IGNORED):
        # initialisation takes two checkpoints and then fails, before started()
        await asyncio.sleep(0)
        await asyncio.sleep(0)
        exc = ValueError("initialisation of the child failed")
        raised.append(exc)
        raise exc

    async def starter(tg):
        nonlocal starter_task
        starter_task = asyncio.current_task()
        await tg.start(child)

    async def canceller():
        for _ in range(k):
            await asyncio.sleep(0)
        if starter_task is not None and not starter_task.done():
            starter_task.cancel()  # plain asyncio cancellation of the starter

    cancel_task = asyncio.ensure_future(canceller())
    foreign = None
    try:
        async with create_task_group() as tg:
            if starter_kind == "child":
                # the starter is itself a child of the same task group
                tg.start_soon(starter, tg)
            else:
                # the starter is a plain asyncio task outside the task group
                foreign = asyncio.ensure_future(starter(tg))
                for _ in range(3):
                    await asyncio.sleep(0)
    except BaseException as exc:
        surfaced += [("task group", e) for e in leaves(exc)]

    if foreign is not None:
        try:
            await foreign
        except BaseException as exc:
            surfaced += [("start() caller", e) for e in leaves(exc)]

    await cancel_task
    return raised, surfaced


async def main() -> int:
    violations = []
    for starter_kind in ("child", "foreign"):
        for k in range(0, 10):
            raised, surfaced = await scenario(k, starter_kind)
            for exc in raised:
                count = sum(1 for _, e in surfaced if e is exc)
                if count != 1:
                    violations.append(
                        f"starter={starter_kind}, starter cancelled after {k} cycles: "
                        f"{exc!r} raised by the start()ed child surfaced {count} times "
                        f"(surfaced: {[(w, repr(e)) for w, e in surfaced]})"
                    )

    if violations:
        for v in violations:
            print("PROPERTY VIOLATED:", v)
        return 1

    print("ok")
    return 0


def on_alarm(*args):
    print("PROPERTY VIOLATED: watchdog: demo hung")
    sys.exit(1)


if __name__ == "__main__":
    signal.signal(signal.SIGALRM, on_alarm)
    signal.alarm(50)
    # silence "Future exception was never retrieved" noise from the dropped error
    import logging

    logging.getLogger("asyncio").setLevel(logging.CRITICAL)
    sys.exit(anyio.run(main))
