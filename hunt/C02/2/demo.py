"""
The cancellation that a task group delivers to its own children when it shuts down
(after one of its children failed) leaks, as a CancelledError, into the task that is
awaiting TaskGroup.start() on that group from the outside -- a task that is not in any
cancelled cancel scope.

Scenario 1: the caller of start() is the body of another task group in which nothing
            failed and which nobody cancelled -> that group is silently cancelled
            (its body is aborted, its other children are cancelled).
Scenario 2: the caller of start() is the main task -> anyio.run() raises CancelledError.
"""

import asyncio
import signal
import sys

import anyio
from anyio import TASK_STATUS_IGNORED, create_task_group, get_cancelled_exc_class

violations = []


async def slow_service(*, task_status=TASK_STATUS_IGNORED):
    await anyio.sleep(0.5)  # slow initialisation, started() not called yet
    task_status.started()
    await anyio.sleep_forever()


async def failing_service():
    await anyio.sleep(0.05)
    raise ValueError("a sibling service failed")


class ServiceManager:
    """Owns a task group in which services run; its failures are handled here."""

    def __init__(self):
        self.tg = None
        self.ready = anyio.Event()
        self.errors = []

    async def run(self):
        try:
            async with create_task_group() as tg:
                self.tg = tg
                self.ready.set()
                tg.start_soon(failing_service)
                await anyio.sleep_forever()
        except* ValueError as excgrp:
            # every error of the service group surfaces here (and is handled)
            self.errors.extend(excgrp.exceptions)


async def scenario1():
    manager = ServiceManager()
    sibling_outcome = []

    async def innocent_sibling():
        try:
            await anyio.sleep(0.3)
            sibling_outcome.append("finished")
        except get_cancelled_exc_class():
            sibling_outcome.append("cancelled")
            raise

    body_finished = False
    async with create_task_group() as outer:
        outer.start_soon(manager.run)
        outer.start_soon(innocent_sibling)
        await manager.ready.wait()
        try:
            await manager.tg.start(slow_service)
        except get_cancelled_exc_class() as exc:
            if not outer.cancel_scope.cancel_called:
                violations.append(
                    "scenario 1: start() raised a cancellation exception in a task that "
                    f"nobody cancelled: {exc!r:.80}"
                )
            raise
        except Exception as exc:
            print("scenario 1: start() reported a regular error:", repr(exc))

        await anyio.sleep(0.4)
        body_finished = True

    # Nothing failed in 'outer' and nobody cancelled it: the service group's failure
    # was fully handled inside manager.run()
    assert [str(e) for e in manager.errors] == ["a sibling service failed"]
    if not body_finished or sibling_outcome != ["finished"]:
        violations.append(
            "scenario 1: the enclosing task group was silently cancelled by the "
            "shutdown of another task group: body_finished="
            f"{body_finished}, innocent sibling: {sibling_outcome}, "
            f"outer.cancel_called={outer.cancel_scope.cancel_called}"
        )


async def scenario2_main():
    # The main task is not inside any task group or cancel scope of its own; the
    # service manager runs in a separate (plain asyncio) task.
    manager = ServiceManager()
    manager_task = asyncio.ensure_future(manager.run())
    await manager.ready.wait()
    try:
        await manager.tg.start(slow_service)
    except Exception as exc:
        print("scenario 2: start() reported a regular error:", repr(exc))
    finally:
        with anyio.CancelScope(shield=True):
            await manager_task


def scenario2():
    try:
        anyio.run(scenario2_main)
    except asyncio.CancelledError as exc:
        violations.append(
            f"scenario 2: anyio.run() raised {type(exc).__name__} although nothing "
            "cancelled the main task"
        )
    except BaseException as exc:
        print("scenario 2: anyio.run() raised", repr(exc))


def on_alarm(*args):
    print("PROPERTY VIOLATED: watchdog: demo hung")
    sys.exit(1)


if __name__ == "__main__":
    signal.signal(signal.SIGALRM, on_alarm)
    signal.alarm(50)
    anyio.run(scenario1)
    scenario2()
    if violations:
        for v in violations:
            print("PROPERTY VIOLATED:", v)
        sys.exit(1)

    print("ok")
