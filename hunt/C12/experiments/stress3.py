import asyncio, random, sys, math, itertools, os
import anyio
from anyio import (CancelScope, create_memory_object_stream, WouldBlock, EndOfStream,
                   BrokenResourceError, ClosedResourceError, create_task_group)

class Viol(Exception): pass

async def run(seed, maxbuf, nsteps=250, verbose=False):
    rnd = random.Random(seed)
    tx0, rx0 = create_memory_object_stream(maxbuf)
    txs = [tx0]; rxs = [rx0]
    ids = itertools.count()
    sent_ok = {}; sent_cancelled = set(); sent_failed = set()
    received = []
    workers = {}
    wid_c = itertools.count()
    groups = []  # nested task groups (live)
    handles = {}
    def L(*a):
        if verbose: print(*a)

    async def sender(wid, tx, nitems, nested, retry):
        w = workers[wid]
        k = 0
        try:
            while k < nitems:
                it = (wid, k)
                with CancelScope() as sc:
                    w['scope'] = sc
                    with CancelScope(shield=nested) as inner:
                        w['inner'] = inner
                        try:
                            await tx.send(it)
                        except (BrokenResourceError, ClosedResourceError) as e:
                            sent_failed.add(it); L('send-fail', wid, it); return
                        except BaseException as e:
                            sent_cancelled.add(it); L('send-cancel', wid, it)
                            raise
                        sent_ok[it] = wid; L('send-ok', wid, it)
                k += 1   # on cancel (swallowed by sc) also move on to next item
                if sc.cancelled_caught and not retry: return
        finally:
            w['state'] = 'done'

    async def receiver(wid, rx, n, nested, retry):
        w = workers[wid]
        try:
            for _ in range(n):
                with CancelScope() as sc:
                    w['scope'] = sc
                    with CancelScope(shield=nested) as inner:
                        w['inner'] = inner
                        try:
                            it = await rx.receive()
                        except (EndOfStream, ClosedResourceError, BrokenResourceError) as e:
                            L('recv-end', wid); return
                        except BaseException as e:
                            L('recv-cancel', wid); raise
                        received.append((it, wid)); L('recv-ok', wid, it)
                if sc.cancelled_caught and not retry: return
        finally:
            w['state'] = 'done'

    async def subgroup(gid, task_status):
        try:
            async with create_task_group() as g:
                groups.append(g)
                task_status.started()
                await anyio.sleep_forever()
        finally:
            if g in groups: groups.remove(g)

    async def started_receiver(wid, rx, n, nested, retry, *, task_status):
        task_status.started()
        await receiver(wid, rx, n, nested, retry)

    async with create_task_group() as tg:
        groups.append(tg)
        for step in range(nsteps):
            op = rnd.choice(['S','S','R','R','sn','rn','cancel','cancel','clone_tx','clone_rx','close_tx','close_rx','unshield','newgroup','cancelgroup','hcancel'])
            open_tx = [t for t in txs if not t._closed]
            open_rx = [r for r in rxs if not r._closed]
            live_groups = [g for g in groups if g.cancel_scope._active and not g.cancel_scope.cancel_called] if hasattr(tg.cancel_scope,'_active') else groups
            g = rnd.choice(groups)
            def spawn(f,*a):
                try:
                    h = g.start_soon(f,*a)
                    return h
                except RuntimeError:
                    return None
            if op == 'S' and open_tx:
                wid = next(wid_c)
                workers[wid] = dict(kind='S', state='run')
                h = spawn(sender, wid, rnd.choice(open_tx), rnd.randint(1,3), rnd.random()<0.2, rnd.random()<0.5)
                if h is None: workers[wid]['state']='done'
                else: handles[wid]=h
                L('spawn S', wid)
            elif op == 'R' and open_rx:
                wid = next(wid_c)
                workers[wid] = dict(kind='R', state='run')
                h = spawn(receiver, wid, rnd.choice(open_rx), rnd.randint(1,3), rnd.random()<0.2, rnd.random()<0.5)
                if h is None: workers[wid]['state']='done'
                else: handles[wid]=h
                L('spawn R', wid)
            elif op == 'sn' and open_tx:
                it = ('n', next(ids))
                try:
                    rnd.choice(open_tx).send_nowait(it)
                    sent_ok[it] = 'n'; L('sn-ok', it)
                except WouldBlock: L('sn-wb')
                except BrokenResourceError: L('sn-broken')
            elif op == 'rn' and open_rx:
                try:
                    it = rnd.choice(open_rx).receive_nowait()
                    received.append((it,'n')); L('rn-ok', it)
                except WouldBlock: L('rn-wb')
                except EndOfStream: L('rn-eos')
            elif op == 'cancel':
                cands = [ (k,w) for k,w in workers.items() if w['state']=='run' and 'scope' in w]
                if cands:
                    k,w = rnd.choice(cands); w['scope'].cancel(); L('cancel', k)
            elif op == 'hcancel':
                cands = [ k for k,w in workers.items() if w['state']=='run' and k in handles and handles[k] is not None]
                if cands:
                    k = rnd.choice(cands)
                    try: handles[k].cancel(); L('hcancel', k)
                    except AttributeError: pass
            elif op == 'unshield':
                cands = [ (k,w) for k,w in workers.items() if w['state']=='run' and 'inner' in w and w['inner'].shield]
                if cands:
                    k,w = rnd.choice(cands); w['inner'].shield=False; L('unshield', k)
            elif op == 'newgroup' and len(groups) < 4:
                try:
                    await g.start(subgroup, 0)
                except BaseException as e:
                    L('newgroup fail', type(e))
            elif op == 'cancelgroup' and len(groups) > 1 and rnd.random()<0.5:
                gg = rnd.choice(groups[1:]); gg.cancel_scope.cancel(); L('cancelgroup')
            elif op == 'clone_tx' and open_tx and len(txs)<4:
                txs.append(rnd.choice(open_tx).clone())
            elif op == 'clone_rx' and open_rx and len(rxs)<4:
                rxs.append(rnd.choice(open_rx).clone())
            elif op == 'close_tx' and len(open_tx)>1 and rnd.random()<0.3:
                rnd.choice(open_tx).close(); L('close_tx')
            elif op == 'close_rx' and len(open_rx)>1 and rnd.random()<0.3:
                rnd.choice(open_rx).close(); L('close_rx')
            st = tx0.statistics()
            if st.current_buffer_used > maxbuf:
                raise Viol(f'buffer {st.current_buffer_used} > {maxbuf}')
            for _ in range(rnd.choice([0,0,0,0,0,1])):
                await asyncio.sleep(0)
        for _ in range(12): await asyncio.sleep(0)
        st = tx0.statistics()
        L('final stats', st)
        blockedR = [k for k,w in workers.items() if w['kind']=='R' and w['state']=='run']
        blockedS = [k for k,w in workers.items() if w['kind']=='S' and w['state']=='run']
        if blockedR and (st.current_buffer_used or blockedS):
            raise Viol(f'receivers {blockedR} blocked while buffer={st.current_buffer_used} senders blocked={blockedS}')
        if blockedS and st.current_buffer_used < maxbuf:
            raise Viol(f'senders {blockedS} blocked while buffer has room')
        if st.tasks_waiting_receive != len(blockedR):
            raise Viol(f'stat waiting_receive {st.tasks_waiting_receive} != {len(blockedR)}')
        if st.tasks_waiting_send != len(blockedS):
            raise Viol(f'stat waiting_send {st.tasks_waiting_send} != {len(blockedS)}')
        open_rx = [r for r in rxs if not r._closed]
        while True:
            try:
                it = open_rx[0].receive_nowait(); received.append((it,'drain'))
                await asyncio.sleep(0)
            except (WouldBlock, EndOfStream):
                break
        for _ in range(5): await asyncio.sleep(0)
        for w in workers.values():
            if 'inner' in w: w['inner'].shield=False
        tg.cancel_scope.cancel()
    for t in txs: t.close()
    for r in rxs: r.close()
    items = [it for it,_ in received]
    if len(items) != len(set(items)):
        raise Viol('duplicate delivery: %r' % [i for i in items if items.count(i)>1])
    for it in items:
        if it not in sent_ok and it not in sent_cancelled:
            raise Viol(f'invented/undue item {it}')
    for it in sent_ok:
        if it not in items:
            raise Viol(f'lost item {it}')
    bysender = {}
    for it,who in received:
        if who in ('n','drain'): who='nd'
        bysender.setdefault((it[0],who), []).append(it[1])
    for s, seq in bysender.items():
        if seq != sorted(seq):
            raise Viol(f'order violated for sender {s}: {seq}')

async def main():
    n = int(sys.argv[1]) if len(sys.argv)>1 else 300
    if os.environ.get('EAGER'):
        asyncio.get_running_loop().set_task_factory(asyncio.eager_task_factory)
    for maxbuf in (0,1,2,math.inf):
        for seed in range(n):
            try:
                await asyncio.wait_for(run(seed, maxbuf), 5)
            except Viol as e:
                print('VIOL', maxbuf, seed, e)
            except asyncio.TimeoutError:
                print('TIMEOUT', maxbuf, seed)
    print('done')
if __name__ == '__main__':
    if os.environ.get('UVLOOP'):
        import uvloop; uvloop.run(main())
    else:
        asyncio.run(main())
