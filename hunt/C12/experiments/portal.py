import asyncio, threading, time, random
from anyio import create_memory_object_stream, WouldBlock
from anyio.from_thread import start_blocking_portal

def main():
    with start_blocking_portal() as portal:
        tx, rx = portal.call(lambda: create_memory_object_stream(100000))
        received = []; sent = []
        async def recv():
            it = await rx.receive()
            received.append(it)
        def snd(i):
            tx.send_nowait(i); sent.append(i)
        loop_call = portal.call
        for i in range(4000):
            fut = portal.start_task_soon(recv)
            time.sleep(random.random()*0.0002)
            t = threading.Thread(target=lambda: portal.call(snd, i))
            t.start()
            if random.random() < 0.7: time.sleep(random.random()*0.0002)
            fut.cancel()
            t.join()
        time.sleep(0.2)
        def drain():
            out=[]
            while True:
                try: out.append(rx.receive_nowait())
                except WouldBlock: return out
        rest = portal.call(drain)
        allr = received + rest
        print('sent', len(sent), 'received', len(received), 'rest', len(rest), 'dups', len(allr)-len(set(allr)), 'lost', len(set(sent)-set(allr)))
main()
