import asyncio, random, sys, math, itertools
import anyio
from anyio import (CancelScope, create_memory_object_stream, WouldBlock, EndOfStream,
                   BrokenResourceError, ClosedResourceError, create_task_group)

class Viol(Exception): pass

async def run(seed, maxbuf, nsteps=120, verbose=False):
    rnd = random.Random(seed)
    tx0, rx0 = create_memory_object_stream(maxbuf)
    txs = [tx0]; rxs = [rx0]
    ids = itertools.count()
    sent_ok = {}      # item -> sender id
    sent_cancelled = set()
    sent_failed = set()
    received = []     # (item, who)
    log = []
    workers = {}      # wid -> dict(kind, scope, state, shieldscope)
    wid_c = itertools.count()
    order_by_sender = {}  # sender task id -> list of items in order of send start

    def L(*a):
        log.append(a)
        if verbose: print(*a)

    async def sender(wid, tx, items, nested):
        w = workers[wid]
        try:
            with CancelScope() as sc:
                w['scope'] = sc
                with CancelScope(shield=nested) as inner:
                    w['inner'] = inner
                    for it in items:
                        w['cur'] = it
                        try:
                            await tx.send(it)
                        except (BrokenResourceError, ClosedResourceError) as e:
                            sent_failed.add(it); L('send-fail', wid, it, type(e).__name__)
                            continue
                        except BaseException as e:
                            sent_cancelled.add(it); L('send-cancel', wid, it, type(e).__name__)
                            raise
                        sent_ok[it] = wid; L('send-ok', wid, it)
        finally:
            w['state'] = 'done'

    async def receiver(wid, rx, n, nested):
        w = workers[wid]
        try:
            with CancelScope() as sc:
                w['scope'] = sc
                with CancelScope(shield=nested) as inner:
                    w['inner'] = inner
                    for _ in range(n):
                        try:
                            it = await rx.receive()
                        except (EndOfStream, ClosedResourceError, BrokenResourceError) as e:
                            L('recv-end', wid, type(e).__name__)
                            return
                        except BaseException as e:
                            L('recv-cancel', wid, type(e).__name__)
                            raise
                        received.append((it, wid)); L('recv-ok', wid, it)
        finally:
            w['state'] = 'done'

    async with create_task_group() as tg:
        for step in range(nsteps):
            op = rnd.choice(['S','S','R','R','sn','rn','cancel','cancel','clone_tx','clone_rx','close_tx','close_rx','unshield','stat'])
            open_tx = [t for t in txs if not t._closed]
            open_rx = [r for r in rxs if not r._closed]
            if op == 'S' and open_tx:
                wid = next(wid_c); items = [ (wid, k) for k in range(rnd.randint(1,3))]
                workers[wid] = dict(kind='S', state='run', items=items)
                tg.start_soon(sender, wid, rnd.choice(open_tx), items, rnd.random()<0.2)
                L('spawn S', wid)
            elif op == 'R' and open_rx:
                wid = next(wid_c)
                workers[wid] = dict(kind='R', state='run')
                tg.start_soon(receiver, wid, rnd.choice(open_rx), rnd.randint(1,3), rnd.random()<0.2)
                L('spawn R', wid)
            elif op == 'sn' and open_tx:
                it = ('n', next(ids))
                try:
                    rnd.choice(open_tx).send_nowait(it)
                    sent_ok[it] = 'n'; L('sn-ok', it)
                except WouldBlock: L('sn-wb')
                except BrokenResourceError: L('sn-broken')
            elif op == 'rn' and open_rx:
                try:
                    it = rnd.choice(open_rx).receive_nowait()
                    received.append((it,'n')); L('rn-ok', it)
                except WouldBlock: L('rn-wb')
                except EndOfStream: L('rn-eos')
            elif op == 'cancel':
                cands = [ (k,w) for k,w in workers.items() if w['state']=='run' and 'scope' in w]
                if cands:
                    k,w = rnd.choice(cands); w['scope'].cancel(); L('cancel', k)
            elif op == 'unshield':
                cands = [ (k,w) for k,w in workers.items() if w['state']=='run' and 'inner' in w and w['inner'].shield]
                if cands:
                    k,w = rnd.choice(cands); w['inner'].shield=False; L('unshield', k)
            elif op == 'clone_tx' and open_tx and len(txs)<4:
                txs.append(rnd.choice(open_tx).clone())
            elif op == 'clone_rx' and open_rx and len(rxs)<4:
                rxs.append(rnd.choice(open_rx).clone())
            elif op == 'close_tx' and len(open_tx)>1 and rnd.random()<0.3:
                rnd.choice(open_tx).close(); L('close_tx')
            elif op == 'close_rx' and len(open_rx)>1 and rnd.random()<0.3:
                rnd.choice(open_rx).close(); L('close_rx')
            elif op == 'stat':
                st = tx0.statistics()
                if st.current_buffer_used > maxbuf:
                    raise Viol(f'buffer {st.current_buffer_used} > {maxbuf}')
            st = tx0.statistics()
            if st.current_buffer_used > maxbuf:
                raise Viol(f'buffer {st.current_buffer_used} > {maxbuf}')
            for _ in range(rnd.choice([0,0,0,1,1,2,3])):
                await asyncio.sleep(0)
        # quiesce
        for _ in range(10): await asyncio.sleep(0)
        st = tx0.statistics()
        L('final stats', st)
        blockedR = [k for k,w in workers.items() if w['kind']=='R' and w['state']=='run']
        blockedS = [k for k,w in workers.items() if w['kind']=='S' and w['state']=='run']
        # hang/invariant check
        if blockedR and (st.current_buffer_used or blockedS):
            raise Viol(f'receivers {blockedR} blocked while buffer={st.current_buffer_used} senders blocked={blockedS}')
        if blockedS and st.current_buffer_used < maxbuf:
            raise Viol(f'senders {blockedS} blocked while buffer has room')
        if st.tasks_waiting_receive != len(blockedR):
            raise Viol(f'stat waiting_receive {st.tasks_waiting_receive} != {len(blockedR)}')
        if st.tasks_waiting_send != len(blockedS):
            raise Viol(f'stat waiting_send {st.tasks_waiting_send} != {len(blockedS)}')
        # drain
        open_rx = [r for r in rxs if not r._closed]
        drained = []
        while True:
            try:
                it = open_rx[0].receive_nowait(); drained.append(it); received.append((it,'drain'))
                await asyncio.sleep(0)
            except (WouldBlock, EndOfStream):
                break
        for _ in range(5): await asyncio.sleep(0)
        for w in workers.values():
            if 'inner' in w: w['inner'].shield=False
        tg.cancel_scope.cancel()
    for t in txs: t.close()
    for r in rxs: r.close()
    # checks
    items = [it for it,_ in received]
    if len(items) != len(set(items)):
        raise Viol('duplicate delivery: %r' % [i for i in items if items.count(i)>1])
    for it in items:
        if it not in sent_ok and it not in sent_cancelled:
            raise Viol(f'invented/undue item {it}')
    for it in sent_ok:
        if it not in items:
            raise Viol(f'lost item {it}')
    # order per sender
    pos = {it:i for i,it in enumerate(items)}
    bysender = {}
    for it,who in received:
        if who in ('n','drain'): who='nd'
        bysender.setdefault((it[0],who), []).append(it[1])
    for s, seq in bysender.items():
        if seq != sorted(seq):
            raise Viol(f'order violated for sender {s}: {seq}')
    return log

async def guarded(seed,maxbuf):
    try:
        return await run(seed,maxbuf)
    except asyncio.CancelledError:
        raise

async def main():
    n = int(sys.argv[1]) if len(sys.argv)>1 else 300
    for maxbuf in (0,1,2,math.inf):
        for seed in range(n):
            try:
                await asyncio.wait_for(run(seed, maxbuf), 3)
            except Viol as e:
                print('VIOL', maxbuf, seed, e); 
            except asyncio.TimeoutError:
                print('TIMEOUT', maxbuf, seed)
    print('done')
asyncio.run(main())
