import asyncio, math
import anyio
from anyio import (CancelScope, create_memory_object_stream, WouldBlock, EndOfStream, BrokenResourceError, ClosedResourceError, create_task_group, move_on_after, fail_after, get_cancelled_exc_class)

results = []
def report(name, ok, info=''):
    print(('ok   ' if ok else 'FAIL ') + name, info)

async def e1():  # hand-over then scope cancel, same cycle
    tx, rx = create_memory_object_stream(0)
    got = []
    async def R():
        with CancelScope() as sc:
            R.sc = sc
            got.append(await rx.receive())
    async with create_task_group() as tg:
        tg.start_soon(R)
        await asyncio.sleep(0); await asyncio.sleep(0); await asyncio.sleep(0)
        tx.send_nowait('a'); R.sc.cancel()
        for _ in range(5): await asyncio.sleep(0)
    report('e1 handover-then-cancel', got == ['a'], got)

async def e2():  # cancel then send same cycle
    tx, rx = create_memory_object_stream(1)
    got = []
    async def R():
        with CancelScope() as sc:
            R.sc = sc
            got.append(await rx.receive())
    async with create_task_group() as tg:
        tg.start_soon(R)
        for _ in range(3): await asyncio.sleep(0)
        R.sc.cancel(); tx.send_nowait('a')
        for _ in range(5): await asyncio.sleep(0)
        st = tx.statistics()
    report('e2 cancel-then-send', got == [] and st.current_buffer_used == 1, (got, st))

async def e3():  # deadline expiry coinciding with hand-over (timer callback and sender in same cycle)
    loop = asyncio.get_running_loop()
    for order in ('send_first', 'timer_first'):
        tx, rx = create_memory_object_stream(1)
        got = []
        async def R():
            with move_on_after(0.05) as sc:
                got.append(await rx.receive())
        async with create_task_group() as tg:
            tg.start_soon(R)
            for _ in range(3): await asyncio.sleep(0)
            if order == 'send_first':
                loop.call_at(loop.time() + 0.0499, lambda: None)
                # schedule send at almost same instant as the deadline
                h = loop.call_at(loop.time()+0.05-1e-4, lambda: tx.send_nowait('a'))
            else:
                h = loop.call_at(loop.time()+0.05+1e-4, lambda: tx.send_nowait('a'))
            await asyncio.sleep(0.1)
            st = tx.statistics()
        total = len(got) + st.current_buffer_used
        report('e3 deadline '+order, total == 1, (got, st.current_buffer_used))

async def e5():  # host task of tg receives, child cancels tg scope after handing over
    tx, rx = create_memory_object_stream(0)
    got = []
    async def child(tg):
        await asyncio.sleep(0); await asyncio.sleep(0)
        tx.send_nowait('a'); tg.cancel_scope.cancel()
    async with create_task_group() as tg:
        tg.start_soon(child, tg)
        got.append(await rx.receive())
    report('e5 host receive + child cancels', got == ['a'], got)

async def e6():  # sender blocked, item taken, then sender scope cancelled same cycle -> send ok
    tx, rx = create_memory_object_stream(0)
    res = []
    async def S():
        with CancelScope() as sc:
            S.sc = sc
            await tx.send('a'); res.append('sent')
        res.append(('cc', sc.cancelled_caught))
    async with create_task_group() as tg:
        tg.start_soon(S)
        for _ in range(3): await asyncio.sleep(0)
        it = rx.receive_nowait(); S.sc.cancel()
        for _ in range(4): await asyncio.sleep(0)
    report('e6 sender taken-then-cancel', it == 'a' and res[0] == 'sent', res)
    # reverse
    tx, rx = create_memory_object_stream(0)
    res = []
    async with create_task_group() as tg:
        tg.start_soon(S)
        for _ in range(3): await asyncio.sleep(0)
        S.sc.cancel(); it = rx.receive_nowait()
        for _ in range(4): await asyncio.sleep(0)
        try: rx.receive_nowait(); dup = True
        except WouldBlock: dup = False
    report('e6b sender cancel-then-taken (at most once)', it == 'a' and not dup, res)

async def e7():  # close races
    tx, rx = create_memory_object_stream(0)
    res = []
    async def S():
        try:
            await tx.send('a'); res.append('sent')
        except BrokenResourceError: res.append('broken')
    async with create_task_group() as tg:
        tg.start_soon(S)
        for _ in range(3): await asyncio.sleep(0)
        it = rx.receive_nowait(); rx.close()
        for _ in range(4): await asyncio.sleep(0)
    report('e7 receive then close', res == ['sent'] and it == 'a', res)
    tx, rx = create_memory_object_stream(0)
    res = []
    async with create_task_group() as tg:
        tg.start_soon(S)
        for _ in range(3): await asyncio.sleep(0)
        rx.close()
        for _ in range(4): await asyncio.sleep(0)
    report('e7b close while blocked', res == ['broken'] and tx.statistics().tasks_waiting_send == 0, (res, tx.statistics()))

async def e8():  # fairness
    tx, rx = create_memory_object_stream(0)
    got = []
    async def R(i):
        got.append((i, await rx.receive()))
    async with create_task_group() as tg:
        for i in range(4):
            tg.start_soon(R, i)
            for _ in range(3): await asyncio.sleep(0)
        for k in range(4): tx.send_nowait(k)
    report('e8 receivers FIFO', got == [(i,i) for i in range(4)], got)
    tx, rx = create_memory_object_stream(1)
    done = []
    async def S(i):
        await tx.send(i); done.append(i)
    async with create_task_group() as tg:
        tx.send_nowait('x')
        for i in range(4):
            tg.start_soon(S, i)
            for _ in range(3): await asyncio.sleep(0)
        out = []
        for k in range(5):
            out.append(await rx.receive())
    report('e8b senders FIFO', out == ['x',0,1,2,3] and done == [0,1,2,3], (out, done))

async def e9():  # close own receive stream while a task is blocked in receive
    tx, rx = create_memory_object_stream(0)
    res = []
    async def R():
        try:
            res.append(await rx.receive())
        except BaseException as e:
            res.append(type(e).__name__); raise
    async with create_task_group() as tg:
        tg.start_soon(R)
        for _ in range(3): await asyncio.sleep(0)
        rx.close()
        for _ in range(5): await asyncio.sleep(0)
        print('   e9 after rx.close(): receiver result', res, tx.statistics())
        tg.cancel_scope.cancel()

async def e10():  # receiver swallowing cancellation in cancelled scope, repeatedly receiving
    tx, rx = create_memory_object_stream(math.inf)
    got = []
    async def R():
        with CancelScope() as sc:
            R.sc = sc
            for _ in range(30):
                try:
                    got.append(await rx.receive())
                except get_cancelled_exc_class():
                    pass
    async with create_task_group() as tg:
        tg.start_soon(R)
        for _ in range(3): await asyncio.sleep(0)
        R.sc.cancel()
        for k in range(20):
            tx.send_nowait(k); await asyncio.sleep(0)
        for _ in range(40): await asyncio.sleep(0)
        rest = []
        while True:
            try: rest.append(rx.receive_nowait())
            except WouldBlock: break
    allitems = sorted(got + rest)
    report('e10 swallow cancel loop', allitems == list(range(20)), (got, rest))

async def main():
    for f in (e1,e2,e3,e5,e6,e7,e8,e9,e10):
        try:
            await asyncio.wait_for(f(), 10)
        except asyncio.TimeoutError:
            print('TIMEOUT', f.__name__)
asyncio.run(main())
