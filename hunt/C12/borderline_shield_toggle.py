"""Borderline observation (NOT counted as a finding, see none.md).

A receiver blocked in receive() inside a shielded scope is dropped from the
waiting queue by send_nowait() when a third task un-shields and re-shields that
scope within one event-loop cycle while the enclosing (already cancelled) scope
still has a cancellation-retry callback pending.  The receiver is neither
cancelled nor ever served again although items pile up in the buffer.

Run: PYTHONPATH=/tmp/hunt_C12/src /venv/bin/python borderline_shield_toggle.py
"""
import asyncio
import sys

from anyio import CancelScope, create_memory_object_stream, create_task_group, sleep_forever


async def main() -> int:
    tx, rx = create_memory_object_stream(5)
    res: list = []
    st: dict = {}

    async def receiver() -> None:
        with CancelScope(shield=True) as inner:
            st["inner"] = inner
            try:
                res.append(await rx.receive())
            except BaseException as e:
                res.append(type(e).__name__)
                raise

    async def slow_to_die() -> None:
        # keeps the outer scope's cancellation retry loop alive for some cycles
        try:
            await asyncio.sleep(100)
        except BaseException:
            for _ in range(6):
                try:
                    await asyncio.sleep(0)
                except BaseException:
                    pass
            raise

    async def group() -> None:
        async with create_task_group() as outer:
            st["outer"] = outer
            outer.start_soon(receiver)
            outer.start_soon(slow_to_die)
            await sleep_forever()

    rc = 0
    async with create_task_group() as top:
        top.start_soon(group)
        for _ in range(4):
            await asyncio.sleep(0)
        st["outer"].cancel_scope.cancel()  # receiver is shielded -> unaffected
        await asyncio.sleep(0)
        # --- one loop cycle, no awaits ---
        st["inner"].shield = False  # delivery deferred: retry callback already pending
        tx.send_nowait("a")  # has_pending_cancellation() -> True: receiver popped, item buffered
        st["inner"].shield = True  # cancellation averted; receiver is now orphaned
        # ----------------------------------
        for _ in range(20):
            await asyncio.sleep(0)
        tx.send_nowait("b")
        for _ in range(5):
            await asyncio.sleep(0)
        stats = tx.statistics()
        print("receiver result:", res, stats)
        if not res and stats.current_buffer_used == 2 and stats.tasks_waiting_receive == 0:
            print(
                "OBSERVED: shielded, never-cancelled receiver is blocked forever while "
                "2 items sit in the buffer (it was dropped from the waiting queue)"
            )
            rc = 1
        else:
            print("ok")
        st["inner"].shield = False  # let everything unwind
    return rc


if __name__ == "__main__":
    try:
        sys.exit(asyncio.run(asyncio.wait_for(main(), 30)))
    except asyncio.TimeoutError:
        print("watchdog: hang")
        sys.exit(2)
