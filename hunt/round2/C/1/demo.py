"""
C14: from_thread.run_sync() / from_thread.run() called from an (abandoned) AnyIO worker
thread hang forever when the call is handed to the event loop after the loop's last
iteration: the call is neither run nor refused with RunFinishedError, and because AnyIO
worker threads are not daemon threads the interpreter can then never exit.

Variant A (fully deterministic, plain asyncio API): the loop is driven with
loop.run_until_complete() and closed a moment later.
Variant B: anyio.run(); the (normally short) window between the last iteration of the
loop and loop.close() in asyncio.Runner.close() is held open by a loop subclass until
the worker thread has handed over its call -- nothing else is altered.
"""

from __future__ import annotations

import asyncio
import os
import sys
import threading
import time

import anyio
from anyio import from_thread, move_on_after, to_thread

WATCHDOG = 40


def watchdog() -> None:
    time.sleep(WATCHDOG)
    print("PROPERTY VIOLATED: watchdog expired (demo itself hung)", flush=True)
    os._exit(1)


threading.Thread(target=watchdog, daemon=True).start()


def make_scenario(kind: str):
    gate = threading.Event()
    outcome: list[object] = []
    finished = threading.Event()

    async def coro_func() -> str:
        return "value"

    def work() -> None:
        gate.wait(20)
        try:
            if kind == "run_sync":
                outcome.append(("returned", from_thread.run_sync(lambda: "value")))
            else:
                outcome.append(("returned", from_thread.run(coro_func)))
        except BaseException as exc:
            outcome.append(("raised", type(exc).__name__))
        finally:
            finished.set()

    async def main() -> None:
        # The caller gives up on the thread; the thread "runs its course"
        with move_on_after(0.05):
            await to_thread.run_sync(work, abandon_on_cancel=True)

    return gate, outcome, finished, main


failures: list[str] = []


def variant_a(kind: str) -> None:
    gate, outcome, finished, main = make_scenario(kind)
    loop = asyncio.new_event_loop()
    try:
        loop.run_until_complete(main())
        gate.set()  # the abandoned thread now calls back into the loop
        time.sleep(0.3)
    finally:
        loop.close()

    if not finished.wait(3):
        failures.append(
            f"A/{kind}: from_thread.{kind}() still blocked 3 s after the event loop "
            f"was closed (neither a value nor RunFinishedError)"
        )
    else:
        print(f"A/{kind}: outcome {outcome[0]}")
        if outcome[0] != ("raised", "RunFinishedError"):
            failures.append(f"A/{kind}: unexpected outcome {outcome[0]}")


def variant_b(kind: str) -> None:
    gate, outcome, finished, main = make_scenario(kind)
    handed_over = threading.Event()

    class Loop(asyncio.SelectorEventLoop):
        def call_soon_threadsafe(self, callback, *args, context=None):  # type: ignore[override]
            try:
                return super().call_soon_threadsafe(callback, *args, context=context)
            finally:
                if threading.current_thread().name == "AnyIO worker thread":
                    handed_over.set()

        def close(self) -> None:
            # We're past the loop's last iteration here (asyncio.Runner.close())
            if not self.is_closed() and not gate.is_set():
                gate.set()
                handed_over.wait(5)

            super().close()

    anyio.run(main, backend_options={"loop_factory": Loop})
    if not finished.wait(3):
        failures.append(
            f"B/{kind}: from_thread.{kind}() still blocked 3 s after anyio.run() "
            f"returned (neither a value nor RunFinishedError)"
        )
    else:
        print(f"B/{kind}: outcome {outcome[0]}")
        if outcome[0] != ("raised", "RunFinishedError"):
            failures.append(f"B/{kind}: unexpected outcome {outcome[0]}")


for kind in ("run_sync", "run"):
    variant_a(kind)
    variant_b(kind)

if failures:
    for failure in failures:
        print("PROPERTY VIOLATED:", failure, flush=True)

    stuck = [t for t in threading.enumerate() if t.name == "AnyIO worker thread"]
    print(
        f"({len(stuck)} non-daemon AnyIO worker thread(s) are stuck; without os._exit() "
        f"this process would never terminate)",
        flush=True,
    )
    os._exit(1)

print("ok")
