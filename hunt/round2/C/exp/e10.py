import anyio, threading, time, os, random
from anyio import to_thread, from_thread, move_on_after
stuck = 0; outcomes = {}
def work(delay, done):
    time.sleep(delay)
    try:
        from_thread.run_sync(lambda: 1); k = 'ok'
    except BaseException as e:
        k = type(e).__name__
    outcomes[k] = outcomes.get(k, 0) + 1
    done.set()
async def main(delay, done):
    with move_on_after(0.001):
        await to_thread.run_sync(work, delay, done, abandon_on_cancel=True)
evs = []
for i in range(400):
    done = threading.Event(); evs.append(done)
    anyio.run(main, random.uniform(0.0015, 0.0035), done)
time.sleep(1)
print('outcomes', outcomes, 'stuck', sum(not e.is_set() for e in evs))
os._exit(0)
