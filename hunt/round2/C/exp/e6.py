import faulthandler; faulthandler.dump_traceback_later(50, exit=True)
import anyio, threading
from anyio import to_thread, from_thread
from anyio.from_thread import start_blocking_portal

class Falsy(Exception):
    def __bool__(self): return False
class Unhashable(Exception):
    __hash__ = None
class Unprintable(Exception):
    def __str__(self): raise RuntimeError("no str")
    __repr__ = __str__
class BE(BaseException): pass

def raiser(cls):
    def f(): raise cls("x")
    return f
def araiser(cls):
    async def f():
        await anyio.sleep(0)
        raise cls("x")
    return f

async def main():
    for cls in (Falsy, Unhashable, Unprintable):
        def probe(kind):
            try:
                if kind == 'run_sync':
                    r = from_thread.run_sync(raiser(cls))
                else:
                    r = from_thread.run(araiser(cls))
                return ('returned', r)
            except BaseException as e:
                return ('raised', type(e).__name__)
        for kind in ('run_sync', 'run'):
            print(cls.__name__, 'from_thread.' + kind, await to_thread.run_sync(probe, kind))
        try:
            r = await to_thread.run_sync(raiser(cls))
            print(cls.__name__, 'to_thread returned', r)
        except BaseException as e:
            print(cls.__name__, 'to_thread raised', type(e).__name__)

anyio.run(main)
with start_blocking_portal() as portal:
    for cls in (Falsy, Unhashable, Unprintable):
        for name, fn in (('call sync', raiser(cls)), ('call coro', araiser(cls))):
            try:
                print(cls.__name__, name, 'returned', portal.call(fn))
            except BaseException as e:
                print(cls.__name__, name, 'raised', type(e).__name__)
