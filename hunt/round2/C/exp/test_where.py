def test_where():
    import anyio
    assert anyio.__file__.startswith('/tmp/hunt2_C/src'), anyio.__file__
