import faulthandler; faulthandler.dump_traceback_later(50, exit=True)
import anyio, threading, time, asyncio
from anyio import to_thread, from_thread, CapacityLimiter, create_task_group, move_on_after, CancelScope

async def main():
    lim = CapacityLimiter(3)
    peak = 0
    def work(i):
        nonlocal peak
        peak = max(peak, threading.active_count())
        time.sleep(0.001)
        return i
    res = []
    async def c(i):
        res.append(await to_thread.run_sync(work, i, limiter=lim))
    async with create_task_group() as tg:
        for i in range(200): tg.start_soon(c, i)
    print('peak threads', peak, sorted(res) == list(range(200)))
    # abandon storms
    base = threading.active_count()
    for _ in range(50):
        with CancelScope() as s:
            s.cancel()
            try:
                await to_thread.run_sync(time.sleep, 0.001, abandon_on_cancel=True, limiter=lim)
            except BaseException as e:
                raise
    async with create_task_group() as tg:
        for i in range(50):
            async def c2():
                with move_on_after(0.0005):
                    await to_thread.run_sync(time.sleep, 0.002, abandon_on_cancel=True, limiter=lim)
            tg.start_soon(c2)
    await anyio.sleep(0.2)
    print('threads after storms', base, threading.active_count(), lim.statistics())
    # reuse ok?
    print(await to_thread.run_sync(lambda: 'x', limiter=lim))
for uv in (False, True):
    anyio.run(main, backend_options={'use_uvloop': uv})
