import anyio, sys
from anyio.from_thread import start_blocking_portal

class Falsy(Exception):
    def __len__(self): return 0

async def t(task_status):
    raise Falsy("boom")

with start_blocking_portal() as portal:
    try:
        r = portal.call(t, None)
        print("call returned", r)
    except BaseException as e:
        print("call raised", type(e), e)
    f = portal.start_task_soon(t, None)
    print(repr(f.exception()))
