import faulthandler; faulthandler.dump_traceback_later(30, exit=True)
import anyio, threading, asyncio
from anyio import to_thread, from_thread, CancelScope, create_task_group
async def main(eager):
    if eager: asyncio.get_running_loop().set_task_factory(asyncio.eager_task_factory)
    gate = threading.Event(); out = []
    async def quick(): return 'q'
    async def slow():
        await anyio.sleep(0.05); return 's'
    async def nested():
        async with create_task_group() as tg:
            tg.start_soon(anyio.sleep, 0.05)
        return 'n'
    def work():
        gate.wait(5)
        for c in (quick, slow, nested):
            try: out.append(from_thread.run(c))
            except BaseException as e: out.append(type(e).__name__)
        return 'done'
    with CancelScope() as s:
        async with create_task_group() as tg:
            async def canc():
                await anyio.sleep(0.02); s.cancel(); gate.set()
            tg.start_soon(canc)
            r = await to_thread.run_sync(work)
            out.append(r)
            out.append(asyncio.current_task().cancelling())
    print(eager, out, asyncio.current_task().cancelling())
anyio.run(main, False); anyio.run(main, True)
anyio.run(main, False, backend_options={'use_uvloop': True}); anyio.run(main, True, backend_options={'use_uvloop': True})
