import faulthandler; faulthandler.dump_traceback_later(110, exit=True)
import anyio, threading, random, sys, asyncio, time, concurrent.futures as cf
from anyio import to_thread, from_thread, CancelScope, create_task_group
from anyio.from_thread import start_blocking_portal

def trial(seed, uv):
    rnd = random.Random(seed)
    nthreads = rnd.randint(1, 4)
    ncalls = rnd.randint(1, 5)
    runs = {}
    lock = threading.Lock()
    violations = []
    finished = {}
    cancel_remaining = rnd.random() < 0.5
    stop_early = rnd.random() < 0.5
    def mk(key, kind):
        loop_thread = [None]
        def bump():
            with lock:
                runs[key] = runs.get(key, 0) + 1
        if kind == 'sync':
            def f():
                bump(); finished[key] = True
                return ('r', key)
        elif kind == 'syncfail':
            def f():
                bump(); finished[key] = True
                raise KeyError(key)
        elif kind == 'coro':
            async def f():
                bump()
                try:
                    await anyio.sleep(rnd.choice([0, 0.001, 0.005]))
                    return ('r', key)
                finally:
                    finished[key] = True
        elif kind == 'corofail':
            async def f():
                bump()
                try:
                    await anyio.sleep(0)
                    raise KeyError(key)
                finally:
                    finished[key] = True
        elif kind == 'block':
            async def f():
                bump()
                try:
                    await anyio.sleep(0.02)
                    return ('r', key)
                finally:
                    finished[key] = True
        elif kind == 'thread':
            async def f():
                bump()
                try:
                    return await to_thread.run_sync(lambda: ('r', key))
                finally:
                    finished[key] = True
        elif kind == 'task':
            async def f(*, task_status):
                bump()
                try:
                  await anyio.sleep(0)
                  task_status.started(('s', key))
                except BaseException:
                  finished[key] = True
                  raise
                try:
                    await anyio.sleep(0.002)
                    return ('r', key)
                finally:
                    finished[key] = True
        return f
    results = {}
    def caller(ti, portal):
        r = random.Random(seed * 100 + ti)
        for ci in range(ncalls):
            key = (ti, ci)
            kind = r.choice(['sync', 'syncfail', 'coro', 'corofail', 'block', 'thread', 'task'])
            f = mk(key, kind)
            try:
                if kind == 'task':
                    try:
                        fut, sv = portal.start_task(f)
                    except cf.CancelledError:
                        results[key] = (kind, 'cancelled'); continue
                    if sv != ('s', key): violations.append(f"{key} start value {sv}")
                    op = r.choice(['result', 'cancel'])
                else:
                    op = r.choice(['call', 'soon', 'cancel'])
                    if op == 'call':
                        try:
                            results[key] = (kind, 'ok', portal.call(f))
                        except KeyError as e:
                            results[key] = (kind, 'exc', e.args[0])
                        except cf.CancelledError:
                            results[key] = (kind, 'cancelled')
                        continue
                    fut = portal.start_task_soon(f)
                if op == 'cancel':
                    time.sleep(r.choice([0, 0, 0.001]))
                    c = fut.cancel()
                    done, notdone = cf.wait([fut], timeout=5)
                    if notdone: violations.append(f"{key} wait() never finished after cancel")
                    if fut.cancelled():
                        results[key] = (kind, 'cancelled')
                        continue
                try:
                    results[key] = (kind, 'ok', fut.result(5))
                except KeyError as e:
                    results[key] = (kind, 'exc', e.args[0])
                except cf.CancelledError:
                    results[key] = (kind, 'cancelled')
                except cf.TimeoutError:
                    violations.append(f"{key} {kind} future never resolved")
            except RuntimeError as e:
                results[key] = (kind, 'refused', str(e))
    with start_blocking_portal(backend_options={'use_uvloop': uv}) as portal:
        portal.call(lambda: asyncio.get_running_loop().set_task_factory(asyncio.eager_task_factory))
        ths = [threading.Thread(target=caller, args=(i, portal)) for i in range(nthreads)]
        for t in ths: t.start()
        if stop_early:
            time.sleep(rnd.choice([0, 0.001, 0.003]))
            try:
                portal.call(portal.stop, cancel_remaining)
            except RuntimeError: pass
        else:
            for t in ths: t.join()
    t_exit = dict(finished); r_exit = dict(runs)
    for t in ths: t.join(10)
    if any(t.is_alive() for t in ths):
        violations.append("caller thread hung")
    # checks
    for key, n in r_exit.items():
        if n != 1: violations.append(f"{key} ran {n} times")
        if not t_exit.get(key): violations.append(f"{key} started but not finished at portal exit")
    for key, res in results.items():
        kind = res[0]
        if res[1] == 'ok':
            if res[2] != ('r', key): violations.append(f"{key} wrong result {res}")
            if kind.endswith('fail'): violations.append(f"{key} should fail {res}")
            if runs.get(key) != 1: violations.append(f"{key} result but runs={runs.get(key)}")
        elif res[1] == 'exc':
            if not kind.endswith('fail') or res[2] != key: violations.append(f"{key} wrong exc {res}")
        elif res[1] == 'refused':
            if runs.get(key): violations.append(f"{key} refused but ran")
    for ti in range(nthreads):
        for ci in range(ncalls):
            if (ti, ci) not in results: violations.append(f"{(ti,ci)} no result")
    for v in violations:
        print("seed", seed, "uv", uv, "VIOLATION", v, "stop_early", stop_early, "cr", cancel_remaining)
    return violations

bad = 0
for seed in range(int(sys.argv[1]), int(sys.argv[2])):
    for uv in (False, True):
        if trial(seed, uv): bad += 1
print("done bad", bad)
