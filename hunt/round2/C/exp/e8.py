import faulthandler; faulthandler.dump_traceback_later(50, exit=True)
import anyio, threading, time, asyncio, concurrent.futures as cf
from anyio import to_thread, from_thread, CapacityLimiter
from anyio.from_thread import start_blocking_portal

for uv in (False, True):
    with start_blocking_portal(backend_options={'use_uvloop': uv}) as portal:
        gate = threading.Event()
        seen = []
        lim = portal.call(CapacityLimiter, 1)
        def work():
            gate.wait(5)
            try:
                from_thread.check_cancelled(); seen.append('notcancelled')
            except BaseException as e:
                seen.append('cancelled')
            # call portal from worker thread of the same loop
            seen.append(portal.call(lambda: 'viaportal'))
            return 'done'
        async def job():
            try:
                return await to_thread.run_sync(work, limiter=lim)
            finally:
                seen.append('job finally')
        fut = portal.start_task_soon(job)
        time.sleep(0.1)
        print('cancel ->', fut.cancel())
        time.sleep(0.1)
        print('done before gate?', cf.wait([fut], timeout=0.2))
        gate.set()
        print(cf.wait([fut], timeout=2))
        print(seen, portal.call(lim.statistics))
