import faulthandler; faulthandler.dump_traceback_later(50, exit=True)
import anyio, threading, time
from anyio import to_thread, from_thread, CancelScope, create_task_group, move_on_after

async def main(direct):
    gate = threading.Event()
    out = []
    def work():
        gate.wait()
        t0 = time.time()
        for fn in (lambda: from_thread.run(anyio.sleep, 0.05), lambda: from_thread.run_sync(lambda: 5), from_thread.check_cancelled):
            try:
                out.append(('ok', fn()))
            except BaseException as e:
                out.append(('exc', type(e).__name__))
        out.append(round(time.time() - t0, 2))
    with CancelScope() as outer:
        if direct:
            async with create_task_group() as tg:
                tg.start_soon(lambda: to_thread.run_sync(work, abandon_on_cancel=True))
                await anyio.sleep(0.05)
                outer.cancel()
        else:
            with CancelScope() as inner:
                async with create_task_group() as tg:
                    tg.start_soon(lambda: to_thread.run_sync(work, abandon_on_cancel=True))
                    await anyio.sleep(0.05)
                    tg.cancel_scope.cancel()
    gate.set()
    await anyio.sleep(0.3)
    print(direct, out)

anyio.run(main, True)
anyio.run(main, False)
