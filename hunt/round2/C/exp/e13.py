import faulthandler; faulthandler.dump_traceback_later(30, exit=True)
import asyncio, threading, time, os, uvloop
import anyio
from anyio import from_thread, to_thread, move_on_after
gate = threading.Event(); finished = threading.Event(); out = []
def work():
    gate.wait(10)
    try: out.append(from_thread.run_sync(lambda: 1))
    except BaseException as e: out.append(type(e).__name__)
    finished.set()
async def main():
    with move_on_after(0.05):
        await to_thread.run_sync(work, abandon_on_cancel=True)
loop = uvloop.new_event_loop()
loop.run_until_complete(main())
gate.set(); time.sleep(0.3); loop.close()
print('uvloop finished?', finished.wait(3), out)
os._exit(0)
