# non-abandon: cancel during thread; from_thread.run inside; check_cancelled
import anyio, threading, time, sys
from anyio import to_thread, from_thread, CancelScope, create_task_group

async def main():
    gate = threading.Event()
    res = {}
    def work():
        gate.wait()
        try:
            from_thread.check_cancelled()
            res['cc'] = 'not cancelled'
        except BaseException as e:
            res['cc'] = repr(e)
        try:
            res['run_sync'] = from_thread.run_sync(lambda: 42)
        except BaseException as e:
            res['run_sync'] = repr(e)
        try:
            res['run'] = from_thread.run(anyio.sleep, 0)
        except BaseException as e:
            res['run'] = repr(e)
        async def nocp(): return 7
        try:
            res['run_nocp'] = from_thread.run(nocp)
        except BaseException as e:
            res['run_nocp'] = repr(e)
        return 'value'

    with CancelScope() as s:
        async with create_task_group() as tg:
            async def canceller():
                await anyio.sleep(0.1)
                s.cancel()
                gate.set()
            tg.start_soon(canceller)
            r = await to_thread.run_sync(work)
            print("result", r)
            try:
                await anyio.sleep(0)
                print("no cancel at next checkpoint")
            except BaseException as e:
                print("cancel delivered", type(e))
                raise
    print(res)

anyio.run(main)
