import faulthandler; faulthandler.dump_traceback_later(30, exit=True)
import threading
from anyio.from_thread import BlockingPortalProvider
# transient failure: thread cannot be started once
orig = threading.Thread.start
fail = [True]
def start(self):
    if fail[0] and not self.name.startswith('Main'):
        fail[0] = False
        raise RuntimeError("can't start new thread")
    return orig(self)
threading.Thread.start = start
p = BlockingPortalProvider()
try:
    with p as portal:
        pass
except BaseException as e:
    print('first enter:', repr(e))
try:
    with p as portal:
        print('second enter ok', portal.call(lambda: 1))
except BaseException as e:
    print('second enter:', repr(e))
