import faulthandler; faulthandler.dump_traceback_later(50, exit=True)
import anyio, threading, asyncio, sys, time
from anyio import to_thread, from_thread, CancelScope, create_task_group, CapacityLimiter, move_on_after

async def s1():
    # to_thread inside start() child before started(); starter cancelled
    gate = threading.Event()
    lim = CapacityLimiter(1)
    log = []
    async def child(task_status):
        r = await to_thread.run_sync(lambda: (gate.wait(2), 'x')[1], limiter=lim)
        log.append(('child got', r))
        task_status.started(r)
        await anyio.sleep(0)
        log.append('child after checkpoint')
    async with create_task_group() as tg:
        with CancelScope() as s:
            async def c():
                await anyio.sleep(0.05); s.cancel(); await anyio.sleep(0.05); gate.set()
            tg.start_soon(c)
            try:
                v = await tg.start(child)
                log.append(('start returned', v))
            except BaseException as e:
                log.append(('start raised', type(e).__name__))
                raise
    print('s1', log, lim.statistics())

async def s2():
    # eager task factory
    asyncio.get_running_loop().set_task_factory(asyncio.eager_task_factory)
    cv = __import__('contextvars').ContextVar('cv', default='d')
    cv.set('main')
    def work():
        async def co():
            return cv.get(), 'co'
        return cv.get(), from_thread.run(co), from_thread.run_sync(cv.get)
    print('s2', await to_thread.run_sync(work))
    async with create_task_group() as tg:
        async def t():
            print('s2 child', await to_thread.run_sync(work))
        tg.start_soon(t)

async def s3():
    # deadline-based cancel, check_cancelled, nested shield
    res = []
    def work():
        time.sleep(0.1)
        try:
            from_thread.check_cancelled(); res.append('not cancelled')
        except BaseException as e:
            res.append('cancelled')
    with move_on_after(0.05) as s:
        with CancelScope(shield=True):
            await to_thread.run_sync(work)
        with CancelScope():
            await to_thread.run_sync(work)
    print('s3', res, s.cancelled_caught)

async def s4():
    # abandon then worker reuse; thread count
    gate = threading.Event()
    with move_on_after(0.05):
        await to_thread.run_sync(gate.wait, abandon_on_cancel=True)
    n1 = threading.active_count()
    for _ in range(5):
        with move_on_after(0):
            await to_thread.run_sync(time.sleep, 0, abandon_on_cancel=True)
    await anyio.sleep(0.1)
    for _ in range(5):
        await to_thread.run_sync(time.sleep, 0)
    print('s4 threads', n1, threading.active_count())
    gate.set()

for f in (s1, s2, s3, s4):
    for uv in (False, True):
        try:
            anyio.run(f, backend_options={'use_uvloop': uv})
        except BaseException as e:
            print(f.__name__, 'EXC', repr(e))
