import faulthandler; faulthandler.dump_traceback_later(50, exit=True)
import anyio, threading, time, asyncio
from anyio import to_thread, from_thread, CapacityLimiter, create_task_group, move_on_after, CancelScope
from anyio.from_thread import start_blocking_portal

class BE(BaseException): pass
async def main():
    for exc in (StopIteration(3), StopAsyncIteration(), BE('x'), asyncio.CancelledError('mine'), KeyError('k'), ExceptionGroup('g', [ValueError(1)])):
        def f(): raise exc
        try:
            r = await to_thread.run_sync(f)
            print(type(exc).__name__, 'returned', r)
        except BaseException as e:
            print(type(exc).__name__, '->', type(e).__name__, e is exc, repr(e.__cause__))
    # from_thread.run_sync with same
    def w():
        out = []
        for exc in (StopIteration(3), BE('x'), asyncio.CancelledError('mine'), KeyError('k')):
            def f(): raise exc
            try:
                out.append(('ret', from_thread.run_sync(f)))
            except BaseException as e:
                out.append((type(exc).__name__, type(e).__name__, e is exc))
            async def af(): raise exc
            try:
                out.append(('ret', from_thread.run(af)))
            except BaseException as e:
                out.append((type(exc).__name__, 'async', type(e).__name__, e is exc))
        return out
    for o in await to_thread.run_sync(w): print(o)
    print('loop alive', await to_thread.run_sync(lambda: 1))
anyio.run(main)
