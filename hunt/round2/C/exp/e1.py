# falsy exception through start_task
import anyio, sys
from anyio.from_thread import start_blocking_portal

class Falsy(Exception):
    def __len__(self): return 0

async def t(task_status):
    raise Falsy("boom")

with start_blocking_portal() as portal:
    try:
        portal.start_task(t)
    except BaseException as e:
        print("start_task raised", type(e), e)
    try:
        portal.call(t, None)
    except BaseException as e:
        print("call raised", type(e), e)
