# randomized harness for to_thread
import faulthandler; faulthandler.dump_traceback_later(100, exit=True)
import anyio, threading, random, sys, asyncio, time
from anyio import to_thread, from_thread, CancelScope, create_task_group, CapacityLimiter

async def trial(seed, eager=False):
    rnd = random.Random(seed)
    if eager:
        asyncio.get_running_loop().set_task_factory(asyncio.eager_task_factory)
    N = rnd.randint(1, 8)
    L = rnd.randint(1, 4)
    limiter = CapacityLimiter(L)
    lock = threading.Lock()
    running = set()
    abandoned = set()
    maxrun = 0
    gates = [threading.Event() for _ in range(N)]
    modes = [rnd.choice(['ret', 'raise', 'cb', 'cc']) for _ in range(N)]
    aband = [rnd.random() < 0.4 for _ in range(N)]
    outcomes = {}
    violations = []
    def work(i):
        nonlocal maxrun
        with lock:
            running.add(i)
            n = len(running - abandoned)
            if n > L:
                violations.append(f"running {n} > {L}")
        try:
            gates[i].wait(5)
            m = modes[i]
            if m == 'ret':
                return ('v', i)
            if m == 'raise':
                raise KeyError(i)
            if m == 'cb':
                try:
                    return ('cb', from_thread.run_sync(lambda: i * 2))
                except BaseException as e:
                    return ('cberr', repr(e))
            if m == 'cc':
                try:
                    from_thread.check_cancelled()
                    return ('cc', False)
                except BaseException as e:
                    return ('cc', True)
        finally:
            with lock:
                running.discard(i)
    scopes = [CancelScope() for _ in range(N)]
    async def caller(i):
        with scopes[i]:
            try:
                r = await to_thread.run_sync(work, i, abandon_on_cancel=aband[i], limiter=limiter)
                outcomes[i] = ('ok', r)
            except KeyError as e:
                outcomes[i] = ('exc', e.args[0])
            # next checkpoint
            await anyio.sleep(0)
            outcomes[i] = outcomes[i] + ('nocancel',)
        if scopes[i].cancelled_caught:
            outcomes[i] = outcomes.get(i, ('none',)) + ('cancelled',)
    events = []
    for i in range(N):
        events.append(('gate', i))
        if rnd.random() < 0.6:
            events.append(('cancel', i))
    rnd.shuffle(events)
    cancelled_before_gate = {}
    async with create_task_group() as tg:
        for i in range(N):
            tg.start_soon(caller, i)
        for ev, i in events:
            await anyio.sleep(rnd.choice([0, 0, 0.001, 0.003]))
            if ev == 'gate':
                gates[i].set()
            else:
                with lock:
                    if aband[i]:
                        abandoned.add(i)
                scopes[i].cancel()
                cancelled_before_gate[i] = not gates[i].is_set()
    # checks
    if limiter.borrowed_tokens != 0:
        violations.append(f"tokens leaked: {limiter.statistics()}")
    for i in range(N):
        o = outcomes.get(i)
        if o is None:
            violations.append(f"{i}: no outcome")
            continue
        if not aband[i]:
            # must have result
            if o[0] == 'none':
                # permissible only if cancelled before the thread started (cancel at initial checkpoint)
                pass
            elif o[0] == 'ok':
                r = o[1]
                m = modes[i]
                if m == 'ret' and r != ('v', i): violations.append(f"{i}: wrong {r}")
                if m == 'cb' and r != ('cb', i*2): violations.append(f"{i}: wrong {r}")
                if m == 'raise': violations.append(f"{i}: expected raise {o}")
            elif o[0] == 'exc':
                if modes[i] != 'raise' or o[1] != i: violations.append(f"{i}: wrong exc {o}")
    for w in violations:
        print("seed", seed, "VIOLATION", w, "N", N, "L", L, modes, aband, events, outcomes)
    return violations

def run(seed, uv, eager):
    return anyio.run(trial, seed, eager, backend_options={'use_uvloop': uv, 'debug': True})

bad = 0
for seed in range(int(sys.argv[1]), int(sys.argv[2])):
    for uv in (False, True):
        for eager in (False, True):
            print("seed", seed, uv, eager, flush=True); v = run(seed, uv, eager)
            if v:
                bad += 1
                print("config uv", uv, "eager", eager)
print("done bad", bad)
