"""
C14 / C15: an exception whose truth value is false (e.g. an exception class that
implements __len__() or __bool__()) raised by the code that a worker/foreign thread runs
in the event loop is silently swallowed: from_thread.run_sync(), from_thread.run(),
BlockingPortal.call() return None instead of raising it, and BlockingPortal.start_task()
raises an unrelated RuntimeError.  (to_thread.run_sync() delivers the very same exception
correctly.)
"""

from __future__ import annotations

import os
import threading
import time

import anyio
from anyio import from_thread, to_thread
from anyio.from_thread import start_blocking_portal


def watchdog() -> None:
    time.sleep(40)
    print("PROPERTY VIOLATED: watchdog expired (demo hung)", flush=True)
    os._exit(1)


threading.Thread(target=watchdog, daemon=True).start()


class ValidationErrors(Exception):
    """A perfectly ordinary "collection of problems" exception."""

    def __init__(self, *problems: str) -> None:
        super().__init__(*problems)
        self.problems = list(problems)

    def __len__(self) -> int:
        return len(self.problems)


def sync_fail() -> str:
    raise ValidationErrors()  # no individual problems recorded -> len() == 0 -> falsy


async def async_fail() -> str:
    await anyio.sleep(0)
    raise ValidationErrors()


async def task_fail(*, task_status: anyio.abc.TaskStatus[str]) -> None:
    await anyio.sleep(0)
    raise ValidationErrors()


failures: list[str] = []


def attempt(label: str, fn, *args) -> None:
    try:
        retval = fn(*args)
    except ValidationErrors:
        print(f"{label}: raised ValidationErrors (correct)")
    except BaseException as exc:
        failures.append(f"{label} raised {exc!r} instead of the callable's exception")
    else:
        failures.append(
            f"{label} returned {retval!r} although the callable raised ValidationErrors"
        )


async def main() -> None:
    # Reference: the other direction works
    try:
        await to_thread.run_sync(sync_fail)
    except ValidationErrors:
        print("to_thread.run_sync(): raised ValidationErrors (correct)")

    def in_worker_thread() -> None:
        attempt("from_thread.run_sync()", from_thread.run_sync, sync_fail)
        attempt("from_thread.run()", from_thread.run, async_fail)

    await to_thread.run_sync(in_worker_thread)


anyio.run(main)
with start_blocking_portal() as portal:
    attempt("BlockingPortal.call(<sync callable>)", portal.call, sync_fail)
    attempt("BlockingPortal.call(<coroutine function>)", portal.call, async_fail)
    attempt("BlockingPortal.start_task()", portal.start_task, task_fail)

if failures:
    for failure in failures:
        print("PROPERTY VIOLATED:", failure)

    raise SystemExit(1)

print("ok")
