"""
C11 (Event): an Event that a task has once waited on can never be waited on again
from another event loop -- wait() raises RuntimeError instead of blocking until set().

Scenario (public API only):
  1. ev = anyio.Event()              (module level / outside the loop, or inside run #1)
  2. anyio.run(first):  a task waits on ev with a timeout; the timeout expires,
     the waiter is cancelled and gone (tasks_waiting == 0), ev is still unset.
  3. anyio.run(second): a task calls ev.wait(), another one calls ev.set().
Expected: the waiter of run #2 is released by set().
Actual:   ev.wait() raises "RuntimeError: <asyncio.locks.Event ...> is bound to a
          different event loop", although Lock / Semaphore / CapacityLimiter /
          Condition / memory object streams created the same way work fine in run #2.
"""

import sys
import threading

import anyio

threading.Timer(50, lambda: (print("watchdog: timeout"), sys.stdout.flush(), __import__("os")._exit(2))).start()


def flatten(exc):
    if isinstance(exc, BaseExceptionGroup):
        for sub in exc.exceptions:
            yield from flatten(sub)
    else:
        yield exc


def scenario(make_outside: bool) -> str | None:
    holder = {}
    if make_outside:
        holder["ev"] = anyio.Event()  # EventAdapter

    async def first() -> None:
        if not make_outside:
            holder["ev"] = anyio.Event()  # asyncio backend Event

        with anyio.move_on_after(0.05):
            await holder["ev"].wait()

        assert holder["ev"].statistics().tasks_waiting == 0
        assert not holder["ev"].is_set()

    async def second() -> list[str]:
        ev = holder["ev"]
        released: list[str] = []

        async def waiter(name: str) -> None:
            await ev.wait()
            released.append(name)

        with anyio.fail_after(10):
            async with anyio.create_task_group() as tg:
                tg.start_soon(waiter, "w1")
                tg.start_soon(waiter, "w2")
                await anyio.sleep(0.05)
                ev.set()

        return released

    anyio.run(first)
    try:
        released = anyio.run(second)
    except BaseException as exc:
        return "; ".join(repr(e) for e in flatten(exc))

    if sorted(released) != ["w1", "w2"]:
        return f"set() released only {released}"

    return None


problems = []
for outside in (True, False):
    what = "created outside the loop" if outside else "created inside the first loop"
    problem = scenario(outside)
    if problem:
        problems.append(f"Event {what}: wait() in a second event loop failed: {problem}")

if problems:
    for p in problems:
        print("PROPERTY VIOLATED:", p)
    sys.stdout.flush()
    __import__("os")._exit(1)

print("ok")
sys.stdout.flush()
__import__("os")._exit(0)
