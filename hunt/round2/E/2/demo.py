"""
C09 (Lock): acquire_nowait() called outside of a task (a loop callback, or a worker thread
going through from_thread.run_sync()) reports success without locking anything, and
release() from such a context is silently accepted too.  Two "holders" at the same time.
"""

import asyncio
import os
import sys
import threading

import anyio
from anyio import Lock, WouldBlock, from_thread, to_thread

threading.Timer(50, lambda: (print("watchdog: timeout"), sys.stdout.flush(), os._exit(2))).start()

problems: list[str] = []


async def main() -> None:
    for fast in (False, True):
        lock = Lock(fast_acquire=fast)

        # 1. A worker thread "takes" the lock the only way a thread can touch an AnyIO
        #    primitive: through from_thread.run_sync()
        def thread_side() -> str:
            try:
                from_thread.run_sync(lock.acquire_nowait)
            except BaseException as exc:  # a refusal (RuntimeError) would be fine
                return f"refused: {exc!r}"

            return "acquired"

        outcome = await to_thread.run_sync(thread_side)
        if outcome != "acquired":
            continue  # refused loudly: nothing to complain about

        # 2. acquire_nowait() returned normally, so the caller believes it holds the lock
        if not lock.locked():
            problems.append(
                f"fast_acquire={fast}: acquire_nowait() from from_thread.run_sync() "
                f"returned normally but the lock is not locked: {lock.statistics()}"
            )

        # 3. ...and a task can take it at the same time: two holders
        try:
            lock.acquire_nowait()
        except WouldBlock:
            pass
        else:
            problems.append(
                f"fast_acquire={fast}: a task acquired the lock while the first "
                f"acquire_nowait() caller had not released it (mutual exclusion broken)"
            )
            lock.release()

        # 4. release() by somebody who is not the owner (nobody is) is accepted silently
        accepted: list[bool] = []

        def callback() -> None:
            try:
                lock.release()
            except RuntimeError:
                accepted.append(False)
            else:
                accepted.append(True)

        asyncio.get_running_loop().call_soon(callback)
        await anyio.sleep(0.01)
        if accepted == [True]:
            problems.append(
                f"fast_acquire={fast}: release() of an unlocked lock from a loop callback "
                f"was accepted (a task doing the same gets RuntimeError)"
            )


anyio.run(main)
if problems:
    for p in problems:
        print("PROPERTY VIOLATED:", p)
    sys.stdout.flush()
    os._exit(1)

print("ok")
sys.stdout.flush()
os._exit(0)
