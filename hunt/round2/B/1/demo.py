"""
checkpoint_if_cancelled() pins the first cancelled scope it finds and then spins on
sleep(0) "until the cancellation arrives".  If, after that first look, the cancellation
can no longer be delivered to the task (the scope between the task and the cancelled
scope was exited by an abandoned to_thread.run_sync() call, or was shielded), the task
spins for ever: Lock/Semaphore/CapacityLimiter.acquire() on a FREE primitive never
returns and is never cancelled, and the event loop never becomes idle again.

Scenario A (no shield toggling, public API only):
    host:   with CancelScope() as P: await to_thread.run_sync(f, abandon_on_cancel=True)
    thread: from_thread.run(coro)
    coro:   await event.wait(); await lock.acquire()      # lock is free
    main:   event.set(); P.cancel()                        # same event loop cycle

Scenario B: the same pinning with a shield raised by another task.
"""

from __future__ import annotations

import asyncio
import faulthandler
import sys
import threading
import time

import anyio
from anyio import from_thread, to_thread

faulthandler.dump_traceback_later(50, exit=True)  # watchdog

problems: list[str] = []


async def scenario_a() -> None:
    lock = anyio.Lock()
    event = anyio.Event()
    waiting = anyio.Event()
    result: list[str] = []

    async def coro() -> None:
        waiting.set()
        await event.wait()  # resumes with a value in the cycle in which P is cancelled
        try:
            await lock.acquire()  # the lock is free
        except BaseException as exc:
            result.append(f"interrupted:{type(exc).__name__}")
            raise
        result.append("acquired")
        lock.release()

    def thread_func() -> None:
        try:
            from_thread.run(coro)
        except BaseException:
            pass

    async def host() -> None:
        await to_thread.run_sync(thread_func, abandon_on_cancel=True)

    with anyio.CancelScope() as outer:
        async with anyio.create_task_group() as tg:
            tg.start_soon(host)
            await waiting.wait()
            await anyio.sleep(0.05)
            event.set()
            outer.cancel()

    # The program is idle now (only the abandoned coroutine is left); give it 1 s
    await asyncio.sleep(1)
    spinning = [
        t
        for t in asyncio.all_tasks()
        if t is not asyncio.current_task() and not t.done()
    ]
    iterations = 0
    deadline = time.monotonic() + 0.2
    while time.monotonic() < deadline:
        await asyncio.sleep(0.05)
        iterations += 1

    if not result:
        problems.append(
            "A: Lock.acquire() on a free lock neither returned nor was cancelled within "
            f"1 s in a task started with from_thread.run() from an abandoned worker "
            f"thread; {len(spinning)} task(s) still spinning in "
            f"checkpoint_if_cancelled() (busy loop, the loop never becomes idle)"
        )

    for t in spinning:
        t.cancel()


async def scenario_b() -> None:
    lock = anyio.Lock()
    ev = asyncio.Event()
    scopes: dict[str, anyio.CancelScope] = {}
    result: list[object] = []

    async def victim() -> None:
        with anyio.CancelScope() as outer:
            scopes["outer"] = outer
            with anyio.CancelScope() as inner:
                scopes["inner"] = inner
                await ev.wait()  # resumes with a value
                await lock.acquire()  # free lock, inside the (by now) shielded scope
                result.append("acquired")
                lock.release()

        result.append("done")

    async def shielder() -> None:
        scopes["inner"].shield = True

    async def canceller() -> None:
        ev.set()
        asyncio.create_task(shielder())
        scopes["outer"].cancel()

    t = asyncio.create_task(victim())
    await asyncio.sleep(0.05)
    asyncio.create_task(canceller())
    await asyncio.sleep(1)
    if not result:
        problems.append(
            "B: Lock.acquire() on a free lock inside a shielded scope spins for ever "
            "(neither acquires nor is cancelled) after the enclosing scope was "
            "cancelled"
        )

    scopes["inner"].shield = False
    await asyncio.sleep(0.1)
    if not t.done():
        t.cancel()


async def main() -> None:
    await scenario_a()
    await scenario_b()


anyio.run(main)
if problems:
    for p in problems:
        print("PROPERTY VIOLATED:", p)
    sys.exit(1)

print("ok")
