"""
A cancel scope only absorbs a CancelledError that still carries AnyIO's cancel message.
Native asyncio constructs that sit between the scope and the point where the scope's
cancellation request was delivered legitimately re-create the exception without it:

(a) asyncio.gather(): when the gather future is cancelled and the last child to finish
    did not end up *cancelled* (it returned a value / raised something else while being
    cancelled - always possible with return_exceptions=True), gather raises a brand new
    bare CancelledError().
(b) asyncio.timeout() nested in the scope: if it expires while the scope's own request is
    still outstanding on the task (the task is doing shielded clean-up), it deliberately
    does NOT convert the CancelledError to TimeoutError ("somebody else wants this task
    cancelled") and lets a bare CancelledError() propagate - to the AnyIO scope, which
    made that request.

In both cases the only outstanding cancellation request on the task is the scope's own
(task.cancelling() == number of deliveries made by the scope), yet the scope does not
absorb the exception: CancelledError escapes from move_on_after()/CancelScope with
task.cancelling() == 0, i.e. the task dies of a cancellation nobody asked for.
The pure asyncio equivalent (asyncio.timeout as the outer scope) handles both correctly.
"""

from __future__ import annotations

import asyncio
import faulthandler
import sys

import anyio

faulthandler.dump_traceback_later(50, exit=True)  # watchdog

problems: list[str] = []


async def hangs() -> None:
    await asyncio.sleep(10)


async def graceful() -> str:
    try:
        await asyncio.sleep(10)
    except asyncio.CancelledError:
        return "partial result"  # shuts down gracefully when cancelled

    return "full result"


async def scenario_a() -> None:
    task = asyncio.current_task()
    assert task is not None
    try:
        with anyio.move_on_after(0.1) as scope:
            await asyncio.gather(hangs(), graceful(), return_exceptions=True)
    except asyncio.CancelledError as exc:
        problems.append(
            f"(a) {exc!r} escaped from move_on_after() around asyncio.gather(); "
            f"cancel_called={scope.cancel_called} cancelled_caught="
            f"{scope.cancelled_caught} task.cancelling()={task.cancelling()}"
        )
    else:
        if not scope.cancelled_caught:
            problems.append("(a) cancelled_caught is False after the deadline fired")

    # reference: plain asyncio
    try:
        async with asyncio.timeout(0.1):
            await asyncio.gather(hangs(), graceful(), return_exceptions=True)
    except TimeoutError:
        pass
    else:
        problems.append("(a) reference behaviour changed?")


async def scenario_b() -> None:
    task = asyncio.current_task()
    assert task is not None
    try:
        with anyio.move_on_after(0.05) as scope:
            try:
                async with asyncio.timeout(0.2):  # native timeout for the whole step
                    interrupted = False
                    try:
                        await anyio.sleep(10)
                    except asyncio.CancelledError:
                        interrupted = True  # note it, clean up below

                    # shielded clean-up that takes longer than the native timeout
                    with anyio.CancelScope(shield=True):
                        await anyio.sleep(0.5)
            except TimeoutError:
                pass  # (would also be fine)
    except asyncio.CancelledError as exc:
        problems.append(
            f"(b) {exc!r} escaped from move_on_after() with a nested asyncio.timeout(); "
            f"cancel_called={scope.cancel_called} cancelled_caught="
            f"{scope.cancelled_caught} task.cancelling()={task.cancelling()}"
        )

    # reference: plain asyncio with the same structure -> TimeoutError from the outer one
    try:
        async with asyncio.timeout(0.05):
            async with asyncio.timeout(0.2):
                try:
                    await asyncio.sleep(10)
                except asyncio.CancelledError:
                    pass

                try:
                    await asyncio.shield(asyncio.sleep(0.5))
                except asyncio.CancelledError:
                    raise
    except TimeoutError:
        pass
    else:
        problems.append("(b) reference behaviour changed?")


async def main() -> None:
    await scenario_a()
    await scenario_b()


anyio.run(main)
if problems:
    for p in problems:
        print("PROPERTY VIOLATED:", p)
    sys.exit(1)

print("ok")
