"""
An AnyIO cancellation leaks - with AnyIO's cancel message - into native asyncio tasks
awaited by the cancelled task (asyncio forwards Task.cancel(msg) to the awaited
task / gather()).  Such a task is outside every AnyIO cancel scope, so for it this is a
plain native cancellation that must pass through all its cancel scopes.  But an AnyIO
task group in that task reacts to ANY CancelledError by cancelling its own scope, and
the scope exit then recognises the message and absorbs the exception "as its own":
the native task survives its cancellation, the code after the task group runs although
the group's children were cancelled, and cancelled_caught is True on a scope nobody
cancelled.
"""

from __future__ import annotations

import asyncio
import faulthandler
import sys

import anyio

faulthandler.dump_traceback_later(50, exit=True)  # watchdog

problems: list[str] = []


async def scenario(how: str) -> None:
    log: list[object] = []
    child_finished = False

    async def worker() -> None:
        nonlocal child_finished
        await anyio.sleep(0.5)
        child_finished = True

    async def native_task_body() -> str:
        # code written with AnyIO, run in a task created by native asyncio code
        async with anyio.create_task_group() as tg:
            tg.start_soon(worker)

        # Must only be reached if the group finished normally
        log.append(("after-group", child_finished, tg.cancel_scope.cancelled_caught))
        return "value"

    try:
        with anyio.move_on_after(0.1) as scope:
            if how == "await task":
                result = await asyncio.create_task(native_task_body())
            else:
                (result,) = await asyncio.gather(native_task_body())

            log.append(("outer-resumed", result))
    except asyncio.CancelledError as exc:
        # Follow-up damage with gather(): as the child swallowed its cancellation,
        # gather() raises a bare CancelledError that move_on_after() does not absorb
        problems.append(
            f"[{how}] {exc!r} escaped from move_on_after() although nothing but its "
            f"own deadline cancelled anything (task.cancelling()="
            f"{asyncio.current_task().cancelling()})"
        )
        while asyncio.current_task().cancelling():
            asyncio.current_task().uncancel()

    for entry in log:
        if entry[0] == "after-group" and not entry[1]:
            problems.append(
                f"[{how}] the native task was cancelled (its awaiter's scope timed "
                f"out) but its task group absorbed the cancellation: code after the "
                f"group ran although the group's child was cancelled "
                f"(tg.cancel_scope.cancelled_caught={entry[2]} on a scope nobody "
                f"cancelled; move_on_after.cancelled_caught={scope.cancelled_caught})"
            )


async def main() -> None:
    await scenario("await task")
    await scenario("gather")


anyio.run(main)
if problems:
    for p in problems:
        print("PROPERTY VIOLATED:", p)
    sys.exit(1)

print("ok")
