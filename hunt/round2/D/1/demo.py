"""
C18: a TCP SocketStream that is closed with aclose_forcefully() (or with aclose() from
a cancelled scope) while its transport still has unsent data is never really closed:
a receive() and a send() that were blocked on the stream in other tasks stay blocked,
and the socket stays open.

Run: PYTHONPATH=<tree>/src python demo.py
"""
import faulthandler
import sys

import anyio
from anyio import ClosedResourceError
from anyio.abc import SocketAttribute

faulthandler.dump_traceback_later(55, exit=True)  # watchdog

BIG = b"x" * 8_000_000  # a few socket buffers; the server never reads


async def scenario(how: str) -> list[str]:
    problems: list[str] = []
    listener = await anyio.create_tcp_listener(local_host="127.0.0.1")
    port = listener.extra(SocketAttribute.local_port)
    async with listener:
        async with anyio.create_task_group() as tg0:
            accepted: list = []

            async def accept() -> None:
                accepted.append(await listener.listeners[0].accept())

            tg0.start_soon(accept)
            client = await anyio.connect_tcp("127.0.0.1", port)

        server = accepted[0]
        results: dict[str, str] = {}

        async def receiver() -> None:
            try:
                await client.receive()
                results["receive"] = "returned data"
            except BaseException as exc:
                results["receive"] = type(exc).__name__
                if not isinstance(exc, Exception):
                    raise

        async def sender() -> None:
            try:
                await client.send(BIG)
                results["send"] = "returned normally"
            except BaseException as exc:
                results["send"] = type(exc).__name__
                if not isinstance(exc, Exception):
                    raise

        async with anyio.create_task_group() as tg:
            tg.start_soon(receiver)
            tg.start_soon(sender)
            await anyio.sleep(0.5)  # both calls are parked now (peer does not read)
            assert not results, results

            # Close the stream locally
            if how == "aclose_forcefully":
                await anyio.aclose_forcefully(client)
            else:
                # e.g. the cleanup code of a task that has been cancelled / timed out
                with anyio.move_on_after(0):
                    await client.aclose()

            # The stream is closed locally, so the parked calls must be released with
            # ClosedResourceError
            with anyio.move_on_after(3):
                while len(results) < 2:
                    await anyio.sleep(0.05)

            for name in ("receive", "send"):
                if name not in results:
                    problems.append(
                        f"{name}() still blocked 3 s after the stream was closed "
                        f"locally with {how}"
                    )
                elif results[name] != "ClosedResourceError":
                    problems.append(f"{name}() ended with {results[name]}")

            tg.cancel_scope.cancel()

        await anyio.aclose_forcefully(server)
        with anyio.CancelScope(shield=True):
            await client.aclose()

    return problems


def main() -> None:
    failed = False
    loops = [("asyncio", {})]
    try:
        import uvloop  # noqa: F401

        loops.append(("asyncio+uvloop", {"use_uvloop": True}))
    except ImportError:
        pass

    for loop_name, options in loops:
        for how in ("aclose_forcefully", "aclose in cancelled scope"):
            problems = anyio.run(scenario, how, backend_options=options)
            for problem in problems:
                failed = True
                print(f"PROPERTY VIOLATED: [{loop_name}] {problem}")

    if failed:
        sys.exit(1)

    print("ok")


main()
