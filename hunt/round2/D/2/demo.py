"""
C18: no back-pressure on a TCP SocketStream once a send() has been cancelled: every
later send() first appends its data to the transport's write buffer and only then
waits for the buffer to drain, so a writer that guards its sends with a timeout
(move_on_after / fail_after) against a stalled peer buffers without bound.

Run: PYTHONPATH=<tree>/src python demo.py
"""
import faulthandler
import sys

import anyio
from anyio import EndOfStream
from anyio.abc import SocketAttribute

faulthandler.dump_traceback_later(55, exit=True)  # watchdog

MESSAGE_SIZE = 1_000_000
MESSAGES = 60
# Generous allowance for what can legitimately be in flight: the kernel's socket
# buffers on both ends (a few MB on loopback) plus the one message that was being
# written when its send() was cancelled
LIMIT = 16_000_000


async def scenario() -> str | None:
    listener = await anyio.create_tcp_listener(local_host="127.0.0.1")
    port = listener.extra(SocketAttribute.local_port)
    async with listener:
        async with anyio.create_task_group() as tg0:
            accepted: list = []

            async def accept() -> None:
                accepted.append(await listener.listeners[0].accept())

            tg0.start_soon(accept)
            client = await anyio.connect_tcp("127.0.0.1", port)

        server = accepted[0]

        # The writer outpaces the reader (which is stalled): it sends self-contained
        # messages and gives up on each one after a short while
        timed_out = 0
        for i in range(MESSAGES):
            message = bytes([i]) * MESSAGE_SIZE
            with anyio.move_on_after(0.02) as scope:
                await client.send(message)

            timed_out += scope.cancelled_caught

        # How much did the stream take off the writer's hands? The stalled reader
        # wakes up and counts what is coming.
        received = 0
        try:
            while True:
                with anyio.fail_after(2):
                    received += len(await server.receive())
        except (TimeoutError, EndOfStream):
            pass

        await anyio.aclose_forcefully(client)
        await anyio.aclose_forcefully(server)

    print(
        f"  {timed_out} of {MESSAGES} send() calls timed out; the peer later received "
        f"{received} bytes that had been buffered while it was not reading"
    )
    if received > LIMIT:
        return (
            f"{received} bytes were accepted for a peer that was not reading "
            f"(at most ~{LIMIT} can be in flight with back-pressure): each send() "
            f"that timed out still queued its whole message in user space"
        )

    return None


def main() -> None:
    failed = False
    loops = [("asyncio", {})]
    try:
        import uvloop  # noqa: F401

        loops.append(("asyncio+uvloop", {"use_uvloop": True}))
    except ImportError:
        pass

    for loop_name, options in loops:
        problem = anyio.run(scenario, backend_options=options)
        if problem:
            failed = True
            print(f"PROPERTY VIOLATED: [{loop_name}] {problem}")

    if failed:
        sys.exit(1)

    print("ok")


main()
