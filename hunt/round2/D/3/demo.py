"""
C18: a TCP SocketStream that is closed while the peer's last bytes are still unread
destroys the data it has just sent: send() returned, aclose() returned, and yet the peer
receives only the beginning of the data - followed by BrokenResourceError on the stock
event loop and by a *clean* EndOfStream on uvloop.

Scenario 1: plain TCP request / response, the requester sends a few more bytes.
Scenario 2: a TLS 1.3 client (tls_standard_compatible=False, the setting the docs
recommend for HTTP) connects, uploads and closes; the unread bytes are the session
tickets that every TLS 1.3 server sends after the handshake.

Run: PYTHONPATH=<tree>/src python demo.py
"""
import faulthandler
import sys

import anyio
from anyio import BrokenResourceError, EndOfStream
from anyio.abc import SocketAttribute

faulthandler.dump_traceback_later(55, exit=True)  # watchdog

REQUEST = b"GET /big\r\n"
RESPONSE_SIZE = 3_000_000


async def scenario(closer_is: str) -> str | None:
    listener = await anyio.create_tcp_listener(local_host="127.0.0.1")
    port = listener.extra(SocketAttribute.local_port)
    async with listener:
        async with anyio.create_task_group() as tg0:
            accepted: list = []

            async def accept() -> None:
                accepted.append(await listener.listeners[0].accept())

            tg0.start_soon(accept)
            connected = await anyio.connect_tcp("127.0.0.1", port)

        if closer_is == "accepted stream":
            responder, requester = accepted[0], connected
        else:
            responder, requester = connected, accepted[0]

        outcome: list = []

        async def request() -> None:
            # The request is followed, a moment later, by something the responder
            # never looks at (a pipelined request, a keep-alive ping, a stray CRLF...)
            await requester.send(REQUEST)
            await anyio.sleep(0.05)
            await requester.send(b"PING\r\n")
            await anyio.sleep(0.5)  # not the fastest reader
            received = 0
            try:
                while True:
                    received += len(await requester.receive())
            except (EndOfStream, BrokenResourceError) as exc:
                outcome.append((received, type(exc).__name__))

        async with anyio.create_task_group() as tg:
            tg.start_soon(request)

            # The responder reads the request line, sends the response, closes
            data = b""
            while len(data) < len(REQUEST):
                data += await responder.receive(len(REQUEST) - len(data))

            await anyio.sleep(0.1)  # preparing the response...
            await responder.send(b"x" * RESPONSE_SIZE)  # returns normally
            await responder.aclose()  # returns normally

        await requester.aclose()

    received, ending = outcome[0]
    if received != RESPONSE_SIZE or ending != "EndOfStream":
        return (
            f"closer = {closer_is}: send() and aclose() returned normally, but the "
            f"peer received {received} of {RESPONSE_SIZE} bytes, then {ending}"
        )

    return None


async def tls_upload_scenario() -> str | None:
    """A TLS 1.3 client that only uploads: connect, send, close (no closing handshake)."""
    import ssl

    import trustme
    from anyio.streams.tls import TLSListener

    ca = trustme.CA()
    server_context = ssl.create_default_context(ssl.Purpose.CLIENT_AUTH)
    ca.issue_cert("localhost").configure_cert(server_context)
    client_context = ssl.create_default_context(ssl.Purpose.SERVER_AUTH)
    ca.configure_trust(client_context)
    client_context.minimum_version = ssl.TLSVersion.TLSv1_3

    listener = TLSListener(
        await anyio.create_tcp_listener(local_host="127.0.0.1"),
        server_context,
        standard_compatible=False,
    )
    port = listener.listener.extra(SocketAttribute.local_port)
    outcome: list = []

    async def handler(stream) -> None:
        received = 0
        await anyio.sleep(0.5)  # not the fastest reader
        try:
            while True:
                received += len(await stream.receive())
        except (EndOfStream, BrokenResourceError) as exc:
            outcome.append((received, type(exc).__name__))

        await anyio.aclose_forcefully(stream)

    async with listener, anyio.create_task_group() as tg:
        tg.start_soon(listener.serve, handler)
        client = await anyio.connect_tcp(
            "127.0.0.1",
            port,
            ssl_context=client_context,
            tls_hostname="localhost",
            tls_standard_compatible=False,
        )
        await anyio.sleep(0.1)  # the server's session tickets arrive; nobody reads them
        await client.send(b"x" * RESPONSE_SIZE)  # returns normally
        await client.aclose()  # returns normally
        with anyio.move_on_after(10):
            while not outcome:
                await anyio.sleep(0.05)

        tg.cancel_scope.cancel()

    received, ending = outcome[0] if outcome else (0, "nothing")
    if received != RESPONSE_SIZE or ending != "EndOfStream":
        return (
            f"TLS 1.3 client (tls_standard_compatible=False) sent {RESPONSE_SIZE} "
            f"bytes and closed, both without error, but the server received "
            f"{received} bytes, then {ending}"
        )

    return None


def main() -> None:
    failed = False
    loops = [("asyncio", {})]
    try:
        import uvloop  # noqa: F401

        loops.append(("asyncio+uvloop", {"use_uvloop": True}))
    except ImportError:
        pass

    for loop_name, options in loops:
        for closer_is in ("accepted stream", "connected stream"):
            problem = anyio.run(scenario, closer_is, backend_options=options)
            if problem:
                failed = True
                print(f"PROPERTY VIOLATED: [{loop_name}] {problem}")

        try:
            import trustme  # noqa: F401
        except ImportError:
            print("trustme is not installed; skipping the TLS scenario")
        else:
            problem = anyio.run(tls_upload_scenario, backend_options=options)
            if problem:
                failed = True
                print(f"PROPERTY VIOLATED: [{loop_name}] {problem}")

    if failed:
        sys.exit(1)

    print("ok")


main()
