"""
C18 (uvloop): a TCP connection that was reset by the peer is reported by
SocketStream.receive() as a clean EndOfStream - after a truncated byte stream - instead
of BrokenResourceError, whenever the reset arrives while no receive() is waiting.

The peer is a plain blocking socket that aborts the connection (SO_LINGER 0), which is
what a crashing / force-closing peer, a firewall or a close() with unread data produces.

Run: PYTHONPATH=<tree>/src python demo.py
"""
import faulthandler
import socket
import struct
import sys

import anyio
from anyio import BrokenResourceError, EndOfStream

faulthandler.dump_traceback_later(55, exit=True)  # watchdog

SENT_BEFORE_RESET = 100_000
NEVER_SENT = 5_000_000


async def scenario(receiver_waiting: bool) -> str | None:
    with socket.socket() as listener:
        listener.bind(("127.0.0.1", 0))
        listener.listen()
        stream = await anyio.connect_tcp("127.0.0.1", listener.getsockname()[1])
        peer, _ = listener.accept()

    outcome: list = []

    async def receive_all() -> None:
        received = 0
        try:
            while True:
                received += len(await stream.receive())
        except (EndOfStream, BrokenResourceError) as exc:
            outcome.append((received, type(exc).__name__))

    async with anyio.create_task_group() as tg:
        if receiver_waiting:
            tg.start_soon(receive_all)
            await anyio.sleep(0.1)

        # The peer manages to send the first part of its message, then dies
        peer.sendall(b"x" * SENT_BEFORE_RESET)
        await anyio.sleep(0.1)
        peer.setsockopt(socket.SOL_SOCKET, socket.SO_LINGER, struct.pack("ii", 1, 0))
        peer.close()  # RST
        await anyio.sleep(0.1)

        if not receiver_waiting:
            tg.start_soon(receive_all)

    await stream.aclose()
    received, ending = outcome[0]
    if ending != "BrokenResourceError":
        return (
            f"connection reset by the peer after {SENT_BEFORE_RESET} of "
            f"{SENT_BEFORE_RESET + NEVER_SENT} bytes "
            f"({'a receive() was waiting' if receiver_waiting else 'no receive() was waiting'}): "
            f"receive() delivered {received} bytes and then reported a clean {ending}"
        )

    return None


def main() -> None:
    failed = False
    loops = [("asyncio", {})]
    try:
        import uvloop  # noqa: F401

        loops.append(("asyncio+uvloop", {"use_uvloop": True}))
    except ImportError:
        print("uvloop is not installed; only the stock event loop is checked")

    for loop_name, options in loops:
        for receiver_waiting in (True, False):
            problem = anyio.run(scenario, receiver_waiting, backend_options=options)
            if problem:
                failed = True
                print(f"PROPERTY VIOLATED: [{loop_name}] {problem}")

    if failed:
        sys.exit(1)

    print("ok")


main()
