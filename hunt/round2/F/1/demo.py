"""
BufferedByteReceiveStream.receive(n) over a bytes-oriented object stream splits a
received item around data that feed_data() put into the buffer while receive() was
waiting: the bytes handed out are reordered.

Run:  PYTHONPATH=<tree>/src python demo.py
"""
import signal
import sys

import anyio
from anyio import create_memory_object_stream
from anyio.streams.buffered import BufferedByteReceiveStream

signal.alarm(50)  # watchdog


async def scenario(item: bytes, fed: bytes, max_bytes: int) -> bytes:
    send, recv = create_memory_object_stream[bytes](10)
    buffered = BufferedByteReceiveStream(recv)
    pieces: list[bytes] = []

    async def reader() -> None:
        pieces.append(await buffered.receive(max_bytes))

    async with anyio.create_task_group() as tg:
        tg.start_soon(reader)
        await anyio.wait_all_tasks_blocked()  # reader waits on the wrapped stream
        buffered.feed_data(fed)  # e.g. bytes pushed back by a protocol parser
        send.send_nowait(item)  # one item, larger than max_bytes

    send.close()
    try:
        while True:
            pieces.append(await buffered.receive(100))
    except anyio.EndOfStream:
        pass

    recv.close()
    return b"".join(pieces)


async def main() -> int:
    failures = []
    with anyio.fail_after(40):
        for item, fed, max_bytes in [
            (b"abcd", b"X", 2),
            (b"abcd", b"XY", 1),
            (b"HEADERbody", b"<pushed-back>", 6),
        ]:
            got = await scenario(item, fed, max_bytes)
            # The wrapper got two blocks of bytes: `fed` (fed) and `item` (received).
            # Whatever their relative order, each block must stay in one piece.
            if got not in (fed + item, item + fed):
                failures.append((item, fed, max_bytes, got))

    if failures:
        for item, fed, max_bytes, got in failures:
            print(
                f"receive({max_bytes}) with item {item!r} and feed_data({fed!r}) while "
                f"waiting handed out {got!r}"
            )
        print(
            "PROPERTY VIOLATED: C16 - BufferedByteReceiveStream.receive() reordered "
            "bytes: the surplus of a received item was queued behind data fed while "
            "it was waiting"
        )
        return 1

    print("ok")
    return 0


sys.exit(anyio.run(main))
