
import sys, asyncio, copy, pprint
mode, seed = sys.argv[1], int(sys.argv[2])
key = sys.argv[3] if len(sys.argv) > 3 else None
sys.argv = ["fuzz5.py", mode]
import fuzz5 as fuzz3

def run(acts):
    def lf():
        if fuzz3.UVLOOP:
            import uvloop
            loop = uvloop.new_event_loop()
        else:
            loop = asyncio.new_event_loop()
        if fuzz3.EAGER:
            loop.set_task_factory(asyncio.eager_task_factory)
        return loop
    with asyncio.Runner(loop_factory=lf) as r:
        w, a = r.run(fuzz3.amain(seed, acts))
    return w.violations, a

def bad(acts):
    v, _ = run(copy.deepcopy(acts))
    if key:
        return any(key in x for x in v)
    return bool(v)

v, acts = run(None)
print("initial", v)
acts = list(acts)

def sublists(a):
    """indices of sub action lists in action tuple"""
    return [i for i, x in enumerate(a) if isinstance(x, list)]

def reduce_list(lst, test):
    """test(newlst) -> bool whether still bad. returns reduced list"""
    changed = True
    while changed:
        changed = False
        i = 0
        while i < len(lst):
            cand = lst[:i] + lst[i+1:]
            if test(cand):
                lst = cand
                changed = True
            else:
                # try replacing by its body (unwrap)
                a = lst[i]
                done = False
                for si in sublists(a):
                    cand = lst[:i] + a[si] + lst[i+1:]
                    if test(cand):
                        lst = cand; changed = True; done = True
                        break
                if not done:
                    i += 1
    # recurse
    for i in range(len(lst)):
        a = lst[i]
        for si in sublists(a):
            def t2(newsub, i=i, si=si):
                na = tuple(newsub if k == si else x for k, x in enumerate(lst[i]))
                return test(lst[:i] + [na] + lst[i+1:])
            newsub = reduce_list(a[si], t2)
            lst = lst[:i] + [tuple(newsub if k == si else x for k, x in enumerate(lst[i]))] + lst[i+1:]
    return lst

acts = reduce_list(acts, bad)
pprint.pprint(acts)
print(run(copy.deepcopy(acts))[0])
