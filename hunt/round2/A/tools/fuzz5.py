"""
Randomised task-tree fuzzer for C01 / C02 / C07.

usage: fuzz.py [mode] [seed_from] [seed_to]
  mode: combination of letters: n = native cancels, e = eager factory, u = uvloop,
        s = dynamic shield changes
"""
from __future__ import annotations

import asyncio
import random
import sys
import traceback

import anyio
from anyio import CancelScope, create_task_group, TaskHandle
from anyio.abc import TaskStatus

MODE = sys.argv[1] if len(sys.argv) > 1 else "-"
NATIVE = "n" in MODE
EAGER = "e" in MODE
UVLOOP = "u" in MODE
DYNSHIELD = "s" in MODE
AIO = "a" in MODE
EVENTS = "E" in MODE
VERBOSE = "v" in MODE


class Err(Exception):
    def __init__(self, n):
        super().__init__(n)
        self.n = n


class BErr(BaseException):
    def __init__(self, n):
        super().__init__(n)
        self.n = n


class World:
    def __init__(self, rng):
        self.rng = rng
        self.tick = 0
        self.raised = []  # error ids raised
        self.scopes = []
        self.handles = []
        self.tasks = []
        self.groups = []  # group records
        self.children = []  # child records
        self.starts = []  # start records
        self.violations = []
        self.release = None
        self.log = []
        self.nerr = 0
        self.aio = []

    def t(self):
        self.tick += 1
        return self.tick

    def say(self, *a):
        if VERBOSE:
            print(self.tick, *a)


class ChildRec:
    def __init__(self, cid, group):
        self.cid = cid
        self.group = group
        self.handle = None
        self.started = False
        self.ended = None
        self.outcome = None
        self.last_step = 0
        self.start_kind = None


class GroupRec:
    def __init__(self, gid):
        self.gid = gid
        self.children = []
        self.exit_tick = None
        self.tg = None


def gen_actions(rng, depth, budget, in_child_of_start=False):
    acts = []
    n = rng.randint(1, 7) if depth else rng.randint(3, 8)
    called_started = not in_child_of_start
    for _ in range(n):
        r = rng.random()
        if EVENTS and rng.random() < 0.15:
            acts.append((rng.choice(["ev_wait", "ev_set"]), rng.randint(0, 2)))
            continue
        if in_child_of_start and not called_started and rng.random() < 0.4:
            acts.append(("started", rng.randint(0, 1000)))
            called_started = True
            continue
        if r < 0.18:
            acts.append(("cp", rng.randint(1, 3)))
        elif r < 0.23:
            acts.append(("block",))
        elif r < 0.29:
            acts.append(("raise", rng.random() < 0.15))
        elif r < 0.32:
            acts.append(("return",))
        elif r < 0.60 and depth < 4 and budget[0] > 0:
            budget[0] -= 1
            kind = rng.choice(["soon", "create", "start", "start", "start_h"])
            sub = gen_actions(
                rng, depth + 1, budget, in_child_of_start=kind.startswith("start")
            )
            acts.append(("spawn", kind, sub, rng.random() < 0.3))
        elif r < 0.70 and depth < 4 and budget[0] > 0:
            budget[0] -= 1
            acts.append(("group", gen_actions(rng, depth + 1, budget, False)))
        elif r < 0.78 and depth < 5:
            acts.append(
                (
                    "scope",
                    rng.random() < 0.3,
                    rng.random() < 0.15,
                    gen_actions(rng, depth + 1, budget, False),
                )
            )
        elif r < 0.86:
            acts.append(("cancel_scope", rng.randint(0, 10**6)))
        elif r < 0.90:
            acts.append(("cancel_handle", rng.randint(0, 10**6)))
        elif r < 0.93:
            acts.append(("native", rng.randint(0, 10**6)))
        elif r < 0.95:
            acts.append(("setshield", rng.randint(0, 10**6), rng.random() < 0.5))
        elif r < 0.965 and depth < 4 and budget[0] > 0:
            budget[0] -= 1
            acts.append(("aio", gen_actions(rng, depth + 1, budget, False), rng.random() < 0.5))
        elif r < 0.975 and depth < 4 and budget[0] > 0:
            budget[0] -= 1
            acts.append(("cb_spawn", gen_actions(rng, depth + 1, budget, False)))
        elif r < 0.985:
            acts.append(("on_done_cancel", rng.randint(0, 10**6)))
        else:
            acts.append(
                (
                    "cleanup",
                    gen_actions(rng, depth + 1, budget, False),
                    rng.random() < 0.6,
                    rng.randint(0, 3),
                    rng.random() < 0.3,
                    gen_actions(rng, depth + 2, budget, False) if rng.random() < 0.5 else [],
                )
            )
    if in_child_of_start and not called_started and rng.random() < 0.7:
        acts.insert(rng.randint(0, len(acts)), ("started", rng.randint(0, 1000)))
    return acts


class Return(Exception):
    pass


async def interp(w: World, acts, rec: ChildRec | None, tg, grec, task_status, st):
    """st: dict with per-task state (started_called)"""
    for a in acts:
        if rec is not None:
            rec.last_step = w.t()
        op = a[0]
        if op == "cp":
            for _ in range(a[1]):
                await asyncio.sleep(0)
                if rec is not None:
                    rec.last_step = w.t()
        elif op == "block":
            await w.release.wait()
        elif op == "raise":
            w.nerr += 1
            n = w.nerr
            w.raised.append(n)
            w.say("raise", n, "in", rec.cid if rec else "root")
            raise (BErr(n) if a[1] else Err(n))
        elif op == "return":
            return True
        elif op == "started":
            if task_status is not None and not st.get("started"):
                st["started"] = w.t()
                st["value"] = a[1]
                task_status.started(a[1])
        elif op == "spawn":
            if tg is None:
                continue
            _, kind, sub, use_outer = a
            await do_spawn(w, kind, sub, tg, grec)
        elif op == "group":
            g = GroupRec(len(w.groups))
            retflag = False
            w.groups.append(g)
            try:
                async with create_task_group() as tg2:
                    g.tg = tg2
                    w.scopes.append(tg2.cancel_scope)
                    if await interp(w, a[1], rec, tg2, g, task_status, st):
                        retflag = True
            finally:
                g.exit_tick = w.t()
                check_group_exit(w, g)
            if retflag:
                return True
        elif op == "scope":
            _, shield, expired, body = a
            dl = asyncio.get_running_loop().time() - 1 if expired else float("inf")
            sc = CancelScope(shield=shield, deadline=dl)
            if len(body) % 5 == 4:
                sc.cancel()
            with sc:
                w.scopes.append(sc)
                if await interp(w, body, rec, tg, grec, task_status, st):
                    return True
        elif op == "cancel_scope":
            if w.scopes:
                w.scopes[a[1] % len(w.scopes)].cancel()
        elif op == "cancel_handle":
            if w.handles:
                w.handles[a[1] % len(w.handles)].cancel()
        elif op == "native":
            if NATIVE and w.tasks:
                t = w.tasks[a[1] % len(w.tasks)]
                if not t.done():
                    w.say("native cancel", t.get_name())
                    t.cancel()
        elif op == "aio":
            if not AIO:
                continue
            _, sub, await_it = a

            async def e_main(sub=sub):
                try:
                    await interp(w, sub, None, tg, grec, None, {})
                except BaseException as e:
                    for l in leaves(e):
                        if isinstance(l, (Err, BErr)) and l.n in w.raised:
                            w.raised.remove(l.n)

            t = asyncio.create_task(e_main())
            w.aio.append(t)
            if await_it:
                await asyncio.wait([t])
        elif op == "cb_spawn":
            if not AIO or tg is None:
                continue

            def cb(sub=a[1], tg=tg, grec=grec):
                rec2 = ChildRec(len(w.children), grec)
                rec2.st = {}
                try:
                    rec2.handle = tg.start_soon(child_main, w, rec2, sub, tg, grec)
                except RuntimeError:
                    return
                w.children.append(rec2)
                grec.children.append(rec2)
                if grec.exit_tick is not None:
                    w.violations.append("C01: spawn succeeded after group exit")

            asyncio.get_running_loop().call_soon(cb)
        elif op == "on_done_cancel":
            if not AIO or not w.scopes:
                continue
            sc = w.scopes[a[1] % len(w.scopes)]
            asyncio.current_task().add_done_callback(lambda t, sc=sc: sc.cancel())
        elif op == "ev_wait":
            await w.events[a[1]].wait()
        elif op == "ev_set":
            w.events[a[1]].set()
            w.events[a[1]] = asyncio.Event()
        elif op == "setshield":
            if DYNSHIELD and w.scopes:
                w.scopes[a[1] % len(w.scopes)].shield = a[2]
        elif op == "cleanup":
            _, body, shielded, ncp, raise_in_cleanup, cacts = a
            try:
                if await interp(w, body, rec, tg, grec, task_status, st):
                    return True
            except asyncio.CancelledError:
                with CancelScope(shield=shielded):
                    for _ in range(ncp):
                        await asyncio.sleep(0)
                        if rec is not None:
                            rec.last_step = w.t()
                    if cacts:
                        if await interp(w, cacts, rec, tg, grec, task_status, st):
                            return True
                    if raise_in_cleanup:
                        w.nerr += 1
                        n = w.nerr
                        w.raised.append(n)
                        w.say("raise(cleanup)", n, "in", rec.cid if rec else "root")
                        raise Err(n)
                raise


async def child_main(w, rec, sub, tg, grec, *, task_status=None):
    rec.started = True
    rec.task = asyncio.current_task()
    w.tasks.append(rec.task)
    st = rec.st
    try:
        try:
            await interp(w, sub, rec, tg, grec, task_status, st)
        except Return:
            pass
        rec.outcome = ("ret", rec.cid)
        return rec.cid
    except BaseException as e:
        rec.outcome = ("exc", e)
        raise
    finally:
        rec.ended = w.t()
        rec.last_step = rec.ended


async def do_spawn(w, kind, sub, tg, grec):
    rec = ChildRec(len(w.children), grec)
    rec.st = {}
    rec.start_kind = kind
    w.children.append(rec)
    grec.children.append(rec)
    if kind == "soon":
        rec.handle = tg.start_soon(child_main, w, rec, sub, tg, grec)
        w.handles.append(rec.handle)
    elif kind == "create":
        rec.handle = tg.create_task(child_main(w, rec, sub, tg, grec))
        w.handles.append(rec.handle)
    else:
        srec = {"rec": rec, "t0": w.t()}
        w.starts.append(srec)
        try:
            res = await tg.start(
                child_main, w, rec, sub, tg, grec, return_handle=(kind == "start_h")
            )
        except BaseException as e:
            srec["raised"] = e
            srec["t1"] = w.t()
            srec["child_ended_at_raise"] = rec.ended
            srec["child_started"] = rec.started
            srec["started_called"] = rec.st.get("started")
            srec["child_outcome_at_raise"] = rec.outcome
            raise
        else:
            srec["t1"] = w.t()
            srec["started_called"] = rec.st.get("started")
            if kind == "start_h":
                rec.handle = res
                w.handles.append(res)
                val = res.start_value
            else:
                val = res
            if not rec.st.get("started"):
                w.violations.append(f"C07: start() returned but child {rec.cid} never called started()")
            elif val != rec.st["value"]:
                w.violations.append(f"C07: start() returned {val!r} != {rec.st['value']!r}")


def check_group_exit(w, g):
    for c in g.children:
        if c.started and c.ended is None:
            w.violations.append(f"C01: child {c.cid} of group {g.gid} still running at block exit")
        if not c.started:
            # never started: its task must be done; we cannot see the task, check handle
            pass
        h = c.handle
        if h is not None:
            s = h.status
            if s in (TaskHandle.Status.PENDING, TaskHandle.Status.CANCELLING):
                if c.started or not NATIVE:
                    w.violations.append(
                        f"C01: handle of child {c.cid} status {s} at group exit (started={c.started})"
                    )
            elif c.outcome is not None:
                if c.outcome[0] == "ret":
                    if s is not TaskHandle.Status.FINISHED or h.return_value != c.outcome[1]:
                        w.violations.append(f"C01: handle status {s} but child {c.cid} returned")
                else:
                    e = c.outcome[1]
                    if isinstance(e, asyncio.CancelledError):
                        if s is not TaskHandle.Status.CANCELLED:
                            w.violations.append(f"C01: handle status {s} but child {c.cid} ended cancelled")
                    else:
                        if s is not TaskHandle.Status.FAILED or h.exception is not e:
                            w.violations.append(f"C01: handle status {s} but child {c.cid} raised {e!r}")


def leaves(exc):
    if isinstance(exc, BaseExceptionGroup):
        for e in exc.exceptions:
            yield from leaves(e)
    else:
        yield exc


async def driver(w):
    for _ in range(300):
        await asyncio.sleep(0)
    w.release.set()
    w.done_driver = True
    while True:
        for e in w.events:
            e.set()
        await asyncio.sleep(0)


async def amain(seed, acts_override=None):
    rng = random.Random(seed)
    w = World(rng)
    w.release = asyncio.Event()
    w.events = [asyncio.Event() for _ in range(3)]
    budget = [rng.randint(3, 14)]
    acts = gen_actions(rng, 0, budget)
    if acts_override is not None:
        acts = acts_override
    # root: always a group
    root_acts = [("group", acts + [("cp", 2)])]
    drv = asyncio.get_running_loop().create_task(driver(w))
    result = None

    async def root():
        w.tasks.append(asyncio.current_task())
        try:
            await interp(w, root_acts, None, None, None, None, {})
        except Return:
            pass

    roott = asyncio.get_running_loop().create_task(root())
    try:
        await asyncio.wait_for(asyncio.shield(roott), 5)
    except asyncio.TimeoutError:
        w.violations.append("HANG")
        result = None
        roott.cancel()
    except BaseException as e:
        result = e
    w.release.set()
    for e in w.events:
        e.set()
    for _ in range(400):
        if all(t.done() for t in w.aio):
            break
        await asyncio.sleep(0)
    else:
        w.violations.append('AIOHANG')
    drv.cancel()
    # let things settle, detect late steps
    for _ in range(5):
        await asyncio.sleep(0)

    if not NATIVE and roott.done() and roott.cancelling() != 0:
        w.violations.append(f'root cancelling()={roott.cancelling()} at end')
    # checks
    for g in w.groups:
        if g.exit_tick is None:
            continue
        for c in g.children:
            if c.last_step > g.exit_tick:
                w.violations.append(
                    f"C01: child {c.cid} stepped at {c.last_step} after group {g.gid} exit {g.exit_tick}"
                )
            if c.started and c.ended is None:
                w.violations.append(f"C01: child {c.cid} never ended")
    if "HANG" not in w.violations:
        got = []
        if result is not None:
            for e in leaves(result):
                if isinstance(e, (Err, BErr)):
                    got.append(e.n)
                elif isinstance(e, asyncio.CancelledError):
                    pass
                elif isinstance(e, RuntimeError) and "task_status.started" in str(e):
                    pass
                elif isinstance(e, RuntimeError) and "called 'started' twice" in str(e):
                    pass
                else:
                    w.violations.append(f"unexpected leaf {e!r}")
                    traceback.print_exception(e)
        if sorted(got) != sorted(w.raised):
            w.violations.append(f"C02: raised {sorted(w.raised)} surfaced {sorted(got)}")
    # C07 checks
    for s in w.starts:
        rec = s["rec"]
        if "raised" in s:
            e = s["raised"]
            if not NATIVE:
                if s["child_started"] and s["child_ended_at_raise"] is None:
                    w.violations.append(
                        f"C07: start() raised {e!r} while child {rec.cid} still running"
                    )
            if not isinstance(e, asyncio.CancelledError):
                # must be child's exception or RuntimeError
                oc = s["child_outcome_at_raise"]
                if isinstance(e, RuntimeError) and "not active" in str(e):
                    pass
                elif oc is None:
                    w.violations.append(f"C07: start() raised {e!r} but child has no outcome")
                elif oc[0] == "exc" and oc[1] is not e:
                    w.violations.append(f"C07: start() raised {e!r} but child raised {oc[1]!r}")
                elif oc[0] == "ret" and not isinstance(e, RuntimeError):
                    w.violations.append(f"C07: start() raised {e!r} but child returned")
    return w, acts


STATS = __import__('collections').Counter()
def main():
    a = int(sys.argv[2]) if len(sys.argv) > 2 else 0
    b = int(sys.argv[3]) if len(sys.argv) > 3 else a + 1000
    bad = 0
    for seed in range(a, b):
        if UVLOOP:
            import uvloop

            loop_factory = uvloop.new_event_loop
        else:
            loop_factory = asyncio.new_event_loop

        def lf():
            loop = loop_factory()
            if EAGER:
                loop.set_task_factory(asyncio.eager_task_factory)
            if "p" in MODE:
                loop.set_task_factory(lambda loop, coro, **kw: asyncio.tasks._PyTask(coro, loop=loop, **kw))
            if "P" in MODE:
                loop.set_task_factory(asyncio.create_eager_task_factory(asyncio.tasks._PyTask))
            if "d" in MODE:
                loop.set_debug(True)
            return loop

        with asyncio.Runner(loop_factory=lf) as runner:
            w, acts = runner.run(amain(seed))
        STATS['children'] += len(w.children); STATS['raised'] += len(w.raised); STATS['starts'] += len(w.starts); STATS['start_raised'] += sum('raised' in x for x in w.starts); STATS['groups'] += len(w.groups); STATS['cancelled_children'] += sum(1 for c in w.children if c.outcome and c.outcome[0]=='exc' and isinstance(c.outcome[1], asyncio.CancelledError))
        if w.violations and len(sys.argv) > 4:
            import pprint; pprint.pprint(acts)
        if w.violations:
            bad += 1
            print("SEED", seed, w.violations[:4])
            if bad > 15:
                break
    print("done", a, b, "bad", bad, dict(STATS))


if __name__ == '__main__':
    main()
