"""
C02: cancelling a task group's own scope makes the block raise a bare CancelledError
when the group's host task is waiting in asyncio.gather() and the gathered coroutines
shut down gracefully (catch the cancellation and return).

Run: PYTHONPATH=<tree>/src python demo.py
"""
from __future__ import annotations

import asyncio
import os
import sys
import threading

import anyio
from anyio import CancelScope, create_task_group, move_on_after

threading.Timer(50, lambda: (print("WATCHDOG: timed out"), os._exit(2))).start()

stopped: list[str] = []


async def worker(name: str) -> str:
    # a worker that shuts down gracefully when cancelled
    try:
        await asyncio.sleep(3600)
    except asyncio.CancelledError:
        stopped.append(name)

    return name


async def canceller(tg: anyio.abc.TaskGroup) -> None:
    await anyio.sleep(0.05)
    tg.cancel_scope.cancel()  # nothing fails: the group is merely cancelled


async def scenario_task_group() -> str | None:
    stopped.clear()
    task = asyncio.current_task()
    assert task is not None
    try:
        async with create_task_group() as tg:
            tg.start_soon(canceller, tg)
            await asyncio.gather(worker("a"), worker("b"))
    except BaseException as exc:
        return (
            f"task group block whose own scope was cancelled (no task failed, no "
            f"enclosing scope cancelled, no Task.cancel() by anybody else: "
            f"cancelling()={task.cancelling()}) raised {exc!r}; workers stopped: "
            f"{stopped}"
        )

    return None


async def scenario_cancel_scope() -> str | None:
    stopped.clear()
    try:
        with move_on_after(0.05) as scope:
            await asyncio.gather(worker("a"), worker("b"))
    except BaseException as exc:
        return f"move_on_after() block let its own cancellation escape as {exc!r}"

    if not scope.cancelled_caught:
        return "move_on_after() did not report cancelled_caught"

    return None


async def main() -> int:
    problems = []
    for scenario in (scenario_task_group, scenario_cancel_scope):
        # Run every scenario in a task of its own so that a leaked cancellation
        # cannot take the demo itself down
        result = await asyncio.gather(
            asyncio.create_task(scenario()), return_exceptions=True
        )
        if result[0] is not None:
            problems.append(str(result[0]))

    if problems:
        for problem in problems:
            print("PROPERTY VIOLATED:", problem)

        return 1

    print("ok")
    return 0


if __name__ == "__main__":
    rc = asyncio.run(main())
    sys.stdout.flush()
    os._exit(rc)
