"""
C02: an error raised below a deep chain of nested task groups (one group per task, so
the Python stack stays shallow) is dropped and replaced by a RecursionError raised from
inside TaskGroup.__aexit__() (CancelScope.__exit__ -> BaseExceptionGroup.split()).

Run: PYTHONPATH=<tree>/src python demo.py
"""
from __future__ import annotations

import asyncio
import os
import sys
import threading

from anyio import create_task_group, sleep_forever

threading.Timer(55, lambda: (print("WATCHDOG: timed out"), os._exit(2))).start()

DEPTH = 3500


class Boom(Exception):
    pass


async def level(n: int) -> None:
    if n == 0:
        await asyncio.sleep(0.05)
        raise Boom("the only error raised by any task")

    # One nested task group per level, each hosted by a child task of the level above:
    # no Python-level recursion at all
    async with create_task_group() as tg:
        tg.start_soon(level, n - 1)
        tg.start_soon(sleep_forever)


def leaves(exc: BaseException) -> list[BaseException]:
    # iterative flattening
    result, stack = [], [exc]
    while stack:
        item = stack.pop()
        if isinstance(item, BaseExceptionGroup):
            stack.extend(item.exceptions)
        else:
            result.append(item)

    return result


async def main() -> int:
    try:
        await level(DEPTH)
    except BaseException as exc:
        found = leaves(exc)
    else:
        found = []

    if len(found) == 1 and isinstance(found[0], Boom):
        print("ok")
        return 0

    print(
        f"PROPERTY VIOLATED: {DEPTH} nested task groups, one task raised Boom; the "
        f"outermost block raised leaves {[repr(e)[:70] for e in found]} - the Boom "
        f"error was dropped (replaced by an error raised inside TaskGroup.__aexit__)"
    )
    return 1


if __name__ == "__main__":
    rc = asyncio.run(main())
    sys.stdout.flush()
    os._exit(rc)
