"""After the F46 repair checkpoint_if_cancelled() may yield and then return normally (the cancelled scope stopped being
visible during the yield).  Lock.acquire()/Semaphore.acquire() tested 'is it free?' BEFORE that check and took the
lock/permit AFTER it: a task that acquired in between was overwritten (two holders / value -1)."""
import asyncio, sys
import anyio
from anyio import CancelScope, Lock, Semaphore, Event, create_task_group

async def scenario(prim):
    problems = []
    go = Event()
    holders = []
    async def victim(inner_box):
        with CancelScope() as inner:
            inner_box.append(inner)
            await go.wait()                 # resumes with a value in the cycle of the cancel
            await prim.acquire()            # free at this moment
            holders.append("victim")
            await anyio.sleep(0.05)
            holders.remove("victim")
            prim.release()
    async def other(inner_box):
        await go.wait()
        inner_box[0].shield = True          # cuts the victim off from the cancelled outer scope
        await prim.acquire()
        holders.append("other")
        await anyio.sleep(0.05)
        holders.remove("other")
        prim.release()
    box = []
    async with create_task_group() as tg0:
        with CancelScope() as outer:
            async with create_task_group() as tg:
                tg.start_soon(victim, box)
                await anyio.wait_all_tasks_blocked()
                tg0.start_soon(other, box)
                await anyio.wait_all_tasks_blocked()
                go.set()
                outer.cancel()
                for _ in range(3):
                    await asyncio.sleep(0)
                    if len(holders) > 1:
                        problems.append(f"{type(prim).__name__}: two holders at once: {holders}")
                        break
                box[0].shield = False
    if isinstance(prim, anyio.Semaphore) and prim.value not in (0, 1):
        problems.append(f"Semaphore value is {prim.value}")
    return problems

async def main():
    out = []
    out += await scenario(Lock())
    out += await scenario(Semaphore(1))
    return out
r = anyio.run(main)
for p in r: print("PROPERTY VIOLATED:", p)
print("ok" if not r else "", end="")
sys.exit(1 if r else 0)
