"""
TLSStream(standard_compatible=False): once receive() has reported the peer's ragged
end of stream (transport EOF without close_notify) as EndOfStream, the still-open
opposite direction is dead: send() raises EndOfStream and the data never arrives.

Runs against the unmodified tree, public API only (anyio + trustme + asyncio).
"""
import asyncio
import ssl
import sys

import trustme

import anyio
from anyio import EndOfStream, create_memory_object_stream
from anyio.streams.stapled import StapledObjectStream
from anyio.streams.tls import TLSStream

ca = trustme.CA()
cert = ca.issue_cert("localhost")


def contexts(version):
    sctx = ssl.create_default_context(ssl.Purpose.CLIENT_AUTH)
    cert.configure_cert(sctx)
    cctx = ssl.create_default_context(ssl.Purpose.SERVER_AUTH)
    ca.configure_trust(cctx)
    for ctx in (sctx, cctx):
        if version == "TLSv1.2":
            ctx.maximum_version = ssl.TLSVersion.TLSv1_2
        else:
            ctx.minimum_version = ssl.TLSVersion.TLSv1_3
    return sctx, cctx


async def tls_pair(version):
    """A TLSStream pair (standard_compatible=False) over an in-memory transport."""
    sctx, cctx = contexts(version)
    c2s_send, c2s_recv = create_memory_object_stream[bytes](1000)
    s2c_send, s2c_recv = create_memory_object_stream[bytes](1000)
    client_transport = StapledObjectStream(c2s_send, s2c_recv)
    server_transport = StapledObjectStream(s2c_send, c2s_recv)
    result = {}

    async def server():
        result["server"] = await TLSStream.wrap(
            server_transport,
            server_side=True,
            ssl_context=sctx,
            standard_compatible=False,
        )

    async def client():
        result["client"] = await TLSStream.wrap(
            client_transport,
            hostname="localhost",
            ssl_context=cctx,
            standard_compatible=False,
        )

    async with anyio.create_task_group() as tg:
        tg.start_soon(server)
        tg.start_soon(client)

    assert result["client"].extra(anyio.streams.tls.TLSAttribute.tls_version) == version
    return result["client"], result["server"], client_transport


async def scenario(version, server_reads_to_eof):
    client, server, client_transport = await tls_pair(version)
    problems = []

    async def client_side():
        await client.send(b"request")
        # End the client->server direction of the transport WITHOUT a TLS closing
        # handshake (ragged EOF); the server->client direction stays open.
        await client_transport.send_eof()
        try:
            response = await client.receive()
        except BaseException as exc:
            problems.append(
                f"client.receive() raised {type(exc).__name__} instead of returning "
                f"the response"
            )
        else:
            if response != b"response":
                problems.append(f"client received {response!r}")

    async def server_side():
        try:
            request = await server.receive()
            assert request == b"request", request
            if server_reads_to_eof:
                # standard_compatible=False: the ragged end must be a plain EndOfStream
                try:
                    extra = await server.receive()
                    problems.append(f"server received unexpected data {extra!r}")
                except EndOfStream:
                    pass

            try:
                await server.send(b"response")
            except BaseException as exc:
                problems.append(
                    f"server.send() raised {type(exc).__name__} after receive() had "
                    f"reported the ragged EOF as EndOfStream"
                )
        finally:
            # end of the server->client direction (ragged as well)
            await server.transport_stream.aclose()

    async with anyio.create_task_group() as tg:
        tg.start_soon(client_side)
        tg.start_soon(server_side)

    return problems


async def main():
    failures = []
    for version in ("TLSv1.2", "TLSv1.3"):
        # Control: a server that answers without having seen the EOF works fine
        control = await scenario(version, server_reads_to_eof=False)
        if control:
            print(f"unexpected: control scenario failed on {version}: {control}")
            return 2

        problems = await scenario(version, server_reads_to_eof=True)
        for problem in problems:
            failures.append(f"{version}: {problem}")

    if failures:
        print(
            "PROPERTY VIOLATED: with standard_compatible=False, data written in the "
            "still-open direction after the peer's ragged EOF was reported as "
            "EndOfStream is not transported:"
        )
        for failure in failures:
            print("   ", failure)
        return 1

    print("ok")
    return 0


def run():
    async def guarded():
        try:
            return await asyncio.wait_for(main(), 50)
        except asyncio.TimeoutError:
            print("PROPERTY VIOLATED: hang (watchdog)")
            return 1

    sys.exit(asyncio.run(guarded()))


if __name__ == "__main__":
    run()
