"""
Condition.wait_for() is not a checkpoint when the predicate is already true: it
returns without yielding to the event loop and without noticing that the caller's
cancel scope has already been cancelled.

Run:  PYTHONPATH=/tmp/hunt_C08/src /venv/bin/python demo.py
"""

from __future__ import annotations

import asyncio
import signal
import sys

import anyio
from anyio import CancelScope, Condition, get_cancelled_exc_class

problems: list[str] = []


async def main() -> None:
    condition = Condition()
    async with condition:
        # Clause: "otherwise it yields to the event loop at least once before
        # returning"
        ran: list[int] = []
        asyncio.get_running_loop().call_soon(ran.append, 1)
        result = await condition.wait_for(lambda: "ready")
        if not ran:
            problems.append(
                f"wait_for() with a true predicate returned {result!r} without "
                f"yielding to the event loop"
            )

        # Clause: "if the caller's scope is already effectively cancelled it raises
        # the cancellation exception ... (Condition.wait keeps the lock)"
        outcome = "?"
        with CancelScope() as scope:
            scope.cancel()
            try:
                result = await condition.wait_for(lambda: "ready")
            except get_cancelled_exc_class():
                outcome = "cancelled"
                raise
            else:
                outcome = f"returned {result!r}"

        if outcome != "cancelled":
            problems.append(
                f"wait_for() in an already cancelled scope {outcome} instead of "
                f"raising the cancellation exception"
            )

        # Either way the lock must still be held by us here
        if not condition.locked():
            problems.append("the condition's lock was lost")

        # A loop that uses wait_for() as its only await never lets other tasks run
        other_ran = False

        async def other() -> None:
            nonlocal other_ran
            other_ran = True

        task = asyncio.ensure_future(other())
        for _ in range(100):
            await condition.wait_for(lambda: True)

        if not other_ran:
            problems.append(
                "100 consecutive wait_for() calls never let another ready task run"
            )

        await task


def on_alarm(signum, frame):  # watchdog
    print("PROPERTY VIOLATED: demo hung (watchdog fired)")
    sys.exit(1)


if __name__ == "__main__":
    signal.signal(signal.SIGALRM, on_alarm)
    signal.alarm(50)
    anyio.run(main)
    if problems:
        print(
            "PROPERTY VIOLATED: Condition.wait_for() is not a checkpoint when the "
            "predicate is already true"
        )
        for problem in problems:
            print("  -", problem)
        sys.exit(1)

    print("ok")
