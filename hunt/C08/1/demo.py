"""
anyio.functools.reduce() is not a checkpoint when the reducer function itself does
not yield: it neither yields to the event loop nor honours an already cancelled
scope, and it runs the reducer (and consumes the iterable) inside a cancelled scope.

Run:  PYTHONPATH=/tmp/hunt_C08/src /venv/bin/python demo.py
"""

from __future__ import annotations

import asyncio
import signal
import sys

import anyio
from anyio import CancelScope, get_cancelled_exc_class
from anyio.functools import reduce

problems: list[str] = []
calls: list[tuple[int, int]] = []


async def add(x: int, y: int) -> int:
    # A perfectly legal reducer: a coroutine function that never needs to wait
    calls.append((x, y))
    return x + y


async def agen(items):
    for item in items:
        yield item


async def yields_to_loop(make_awaitable) -> bool:
    """Return True if the event loop got to run a callback during the call."""
    ran: list[int] = []
    asyncio.get_running_loop().call_soon(ran.append, 1)
    await make_awaitable()
    return bool(ran)


async def run_in_cancelled_scope(make_awaitable) -> str:
    outcome = "?"
    with CancelScope() as scope:
        scope.cancel()
        try:
            result = await make_awaitable()
        except get_cancelled_exc_class():
            outcome = "cancelled"
            raise
        else:
            outcome = f"returned {result!r}"

    return outcome


async def main() -> None:
    cases = {
        "reduce(add, [1, 2, 3])": lambda: reduce(add, [1, 2, 3]),
        "reduce(add, [1], 0)": lambda: reduce(add, [1], 0),
        "reduce(add, <async gen 1, 2>)": lambda: reduce(add, agen([1, 2])),
    }
    for name, make in cases.items():
        # Clause: "otherwise it yields to the event loop at least once before
        # returning"
        if not await yields_to_loop(make):
            problems.append(f"{name} returned without yielding to the event loop")

        # Clause: "if the caller's scope is already effectively cancelled it raises
        # the cancellation exception without performing its effect"
        calls.clear()
        outcome = await run_in_cancelled_scope(make)
        if outcome != "cancelled":
            problems.append(
                f"{name} in an already cancelled scope: {outcome} instead of raising "
                f"the cancellation exception (reducer calls made: {calls})"
            )
        elif calls:
            problems.append(
                f"{name} in an already cancelled scope ran the reducer: {calls}"
            )

    # "nothing ... consumed": the iterable must be left untouched in a cancelled scope
    iterator = iter([1, 2, 3])
    await run_in_cancelled_scope(lambda: reduce(add, iterator))
    remaining = list(iterator)
    if remaining != [1, 2, 3]:
        problems.append(
            "reduce(add, iterator) in an already cancelled scope consumed items from "
            f"the iterator (remaining: {remaining})"
        )


def on_alarm(signum, frame):  # watchdog
    print("PROPERTY VIOLATED: demo hung (watchdog fired)")
    sys.exit(1)


if __name__ == "__main__":
    signal.signal(signal.SIGALRM, on_alarm)
    signal.alarm(50)
    anyio.run(main)
    if problems:
        print(
            "PROPERTY VIOLATED: anyio.functools.reduce is not a checkpoint when the "
            "reducer function does not yield"
        )
        for problem in problems:
            print("  -", problem)
        sys.exit(1)

    print("ok")
