"""
to_thread.run_sync(..., abandon_on_cancel=False): a native asyncio cancellation of the
caller (Task.cancel(), asyncio.timeout(), asyncio.wait_for(), loop shutdown) takes effect
immediately: the caller is released and the limiter token is given back while the
function is still running in the worker thread, so more functions than the limiter
allows run concurrently.

Prints "PROPERTY VIOLATED: ..." and exits 1 on the buggy tree, "ok" and exits 0 otherwise.
"""

from __future__ import annotations

import asyncio
import os
import sys
import threading
import time

import anyio
from anyio import to_thread

# watchdog: never hang
_watchdog = threading.Timer(50, lambda: (print("WATCHDOG: demo hung"), os._exit(2)))
_watchdog.daemon = True
_watchdog.start()


async def scenario(how: str) -> list[str]:
    problems: list[str] = []
    limiter = anyio.CapacityLimiter(1)
    lock = threading.Lock()
    running: set[str] = set()
    max_running = 0
    gates = {"A": threading.Event(), "B": threading.Event()}
    started = {"A": threading.Event(), "B": threading.Event()}
    finished = {"A": threading.Event(), "B": threading.Event()}

    def blocking(name: str) -> str:
        nonlocal max_running
        with lock:
            running.add(name)
            max_running = max(max_running, len(running))
        started[name].set()
        gates[name].wait(20)
        with lock:
            running.discard(name)
        finished[name].set()
        return name

    async def wait_for_flag(flag: threading.Event, timeout: float) -> bool:
        deadline = time.monotonic() + timeout
        while not flag.is_set() and time.monotonic() < deadline:
            await asyncio.sleep(0.005)
        return flag.is_set()

    async def call(name: str) -> str:
        if how == "asyncio.timeout" and name == "A":
            async with asyncio.timeout(0.1):
                return await to_thread.run_sync(blocking, name, limiter=limiter)

        return await to_thread.run_sync(blocking, name, limiter=limiter)

    task_a = asyncio.create_task(call("A"))
    assert await wait_for_flag(started["A"], 5)
    if how == "Task.cancel":
        task_a.cancel()

    # Give the cancellation ample time to (wrongly) take effect
    await asyncio.sleep(0.3)
    if task_a.done() and not finished["A"].is_set():
        problems.append(
            f"[{how}] caller finished ({task_a!r}) while its function was still "
            f"running in the worker thread (abandon_on_cancel=False)"
        )

    stats = limiter.statistics()
    if stats.borrowed_tokens == 0 and not finished["A"].is_set():
        problems.append(
            f"[{how}] limiter token was given back while the function was still "
            f"running: {stats}"
        )

    # A second caller must not get to run its function while A's is still running
    task_b = asyncio.create_task(call("B"))
    await wait_for_flag(started["B"], 0.5)
    with lock:
        now_running = sorted(running)
    if len(now_running) > 1:
        problems.append(
            f"[{how}] {len(now_running)} non-abandoned functions {now_running} "
            f"running concurrently under CapacityLimiter(1)"
        )

    # Let everything finish
    gates["A"].set()
    gates["B"].set()
    results = await asyncio.gather(task_a, task_b, return_exceptions=True)
    if results[1] != "B":
        problems.append(f"[{how}] second caller got {results[1]!r} instead of 'B'")

    if max_running > 1 and not any("concurrently" in p for p in problems):
        problems.append(f"[{how}] max concurrency {max_running} > 1")

    stats = limiter.statistics()
    if stats.borrowed_tokens or stats.tasks_waiting:
        problems.append(f"[{how}] limiter not clean at the end: {stats}")

    return problems


async def main() -> list[str]:
    problems = []
    for how in ("Task.cancel", "asyncio.timeout"):
        if how == "asyncio.timeout" and sys.version_info < (3, 11):
            continue

        problems += await scenario(how)

    return problems


if __name__ == "__main__":
    use_uvloop = "--uvloop" in sys.argv
    problems = anyio.run(main, backend_options={"use_uvloop": use_uvloop})
    if problems:
        for p in problems:
            print("PROPERTY VIOLATED:", p)
        sys.exit(1)

    print("ok")
