"""
Task group join is broken for deep task trees: cancellation delivery recurses once
per nested cancel scope (CancelScope._deliver_cancellation), so in a chain of nested
task groups that is deeper than about half the interpreter's recursion limit a
RecursionError escapes from TaskGroup.__aexit__ *before/while* it waits for its
children.  The ``async with create_task_group()`` block is then left while its
child task (and hundreds of descendants) is still running.

Scenario (public API only, deterministic):

    level(0) -> task group -> level(1) -> task group -> ... -> level(DEPTH) sleeps

plus one sibling of level(0) that raises ValueError once the whole chain is up.
The error must cancel the tree and every block must only be left after its child
has terminated.

Exit status 1 + "PROPERTY VIOLATED" on the buggy tree, "ok" + exit 0 otherwise.
"""

from __future__ import annotations

import asyncio
import os
import sys
import threading

import anyio
from anyio import TaskHandle, create_task_group

# one task group + one child task per level; two cancel scopes per level
DEPTH = int(os.environ.get("DEMO_DEPTH", sys.getrecursionlimit()))
FINAL = (
    TaskHandle.Status.FINISHED,
    TaskHandle.Status.FAILED,
    TaskHandle.Status.CANCELLED,
)

running: set[int] = set()  # levels whose coroutine has started and not ended
violations: list[str] = []
all_up = None  # set by the deepest level


def watchdog() -> None:
    print("PROPERTY VIOLATED: (watchdog) the task tree never terminated", flush=True)
    for line in violations[:5]:
        print("   ", line, flush=True)
    os._exit(1)


async def level(n: int) -> None:
    running.add(n)
    try:
        if n == DEPTH:
            all_up.set()
            await anyio.sleep_forever()

        handle = None
        try:
            async with create_task_group() as tg:
                handle = tg.start_soon(level, n + 1)
        finally:
            # The block of level n has just been left (normally or by an exception)
            if handle is not None:
                if (n + 1) in running:
                    violations.append(
                        f"task group block at nesting level {n} was left while its "
                        f"child was still running ({len(running) - 1} descendants "
                        f"alive, child handle status: {handle.status.name})"
                    )
                elif handle.status not in FINAL:
                    violations.append(
                        f"child handle of level {n} not final: {handle.status.name}"
                    )
    finally:
        running.discard(n)


async def failing_sibling() -> None:
    await all_up.wait()
    raise ValueError("boom")


async def main() -> None:
    global all_up
    all_up = anyio.Event()
    # keep the output readable: RecursionErrors are also reported by the loop
    asyncio.get_running_loop().set_exception_handler(lambda loop, ctx: None)
    try:
        async with create_task_group() as tg:
            tg.start_soon(level, 0)
            tg.start_soon(failing_sibling)
    except BaseException as exc:
        outcome = type(exc).__name__
    else:
        outcome = "no exception"

    if running:
        violations.insert(
            0,
            f"outermost task group block exited ({outcome}) while {len(running)} "
            f"of its descendant tasks were still running",
        )

    report()  # does not return (the interpreter is left without the loop shutdown)


def report() -> None:
    if violations:
        print(f"PROPERTY VIOLATED: {violations[0]}")
        for line in violations[1:4]:
            print("   also:", line)

        print(f"   ({len(violations)} violations recorded)", flush=True)
        os._exit(1)

    print("ok", flush=True)
    os._exit(0)


timer = threading.Timer(float(os.environ.get("DEMO_WATCHDOG", 40)), watchdog)
timer.daemon = True
timer.start()
asyncio.run(main())
