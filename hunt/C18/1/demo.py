"""
UNIX socket stream (asyncio backend, uvloop event loop): aclose() while one task is
blocked in receive() AND another task is blocked in send() on the same stream.

Expected (property): both blocked calls end promptly with ClosedResourceError ("never
blocking"), and the peer reads the remaining bytes and then gets EndOfStream.
Actual on the unmodified tree under uvloop: both calls stay blocked forever, the file
descriptor is never really closed, so the peer never sees EOF either.

Run:  PYTHONPATH=/tmp/hunt_C18/src /venv/bin/python demo.py
"""

from __future__ import annotations

import asyncio
import socket
import sys

import anyio
from anyio import ClosedResourceError, EndOfStream
from anyio.abc import UNIXSocketStream

GRACE = 3.0  # seconds the blocked calls get to notice the close


async def scenario() -> list[str]:
    problems: list[str] = []
    loop = asyncio.get_running_loop()
    callback_errors: list[str] = []
    loop.set_exception_handler(
        lambda _l, ctx: callback_errors.append(
            f"{ctx.get('message')}: {ctx.get('exception')!r}"
        )
    )

    sa, sb = socket.socketpair(socket.AF_UNIX, socket.SOCK_STREAM)
    a = await UNIXSocketStream.from_socket(sa)
    b = await UNIXSocketStream.from_socket(sb)
    outcome: dict[str, str] = {}

    async def blocked_receive() -> None:
        try:
            await a.receive()  # the peer never sends anything
            outcome["receive"] = "returned data"
        except ClosedResourceError:
            outcome["receive"] = "ClosedResourceError"
        except anyio.get_cancelled_exc_class():
            outcome["receive"] = "still blocked %.0f s after aclose()" % GRACE
            raise

    async def blocked_send() -> None:
        try:
            # far more than the socket buffers hold, and the peer is not reading
            await a.send(b"x" * 20_000_000)
            outcome["send"] = "returned normally"
        except ClosedResourceError:
            outcome["send"] = "ClosedResourceError"
        except anyio.get_cancelled_exc_class():
            outcome["send"] = "still blocked %.0f s after aclose()" % GRACE
            raise

    async with anyio.create_task_group() as tg:
        tg.start_soon(blocked_receive)
        tg.start_soon(blocked_send)
        await anyio.sleep(0.2)  # both are now parked on the socket
        await a.aclose()  # a third task closes the stream
        with anyio.move_on_after(GRACE):
            while len(outcome) < 2:
                await anyio.sleep(0.01)
        # The peer must be able to drain what was sent and then see EndOfStream
        got_eof = False
        with anyio.move_on_after(GRACE):
            try:
                while True:
                    await b.receive(1_000_000)
            except EndOfStream:
                got_eof = True
            except anyio.BrokenResourceError:
                got_eof = True  # a connection reset is still "not blocking"

        tg.cancel_scope.cancel()

    for op in ("receive", "send"):
        if outcome.get(op) != "ClosedResourceError":
            problems.append(f"{op}() on the locally closed stream: {outcome.get(op)}")

    if not got_eof:
        problems.append(
            "peer got no EndOfStream within %.0f s of the other side's aclose() "
            "(the socket was not really closed)" % GRACE
        )

    await b.aclose()
    if callback_errors:
        print(f"  note: {len(callback_errors)} error(s) reported to the event loop's "
              f"exception handler, e.g. {callback_errors[0]}")
    return problems


def run_on(use_uvloop: bool) -> list[str]:
    name = "uvloop" if use_uvloop else "stock asyncio"
    print(f"[{name}]")
    problems = anyio.run(
        scenario, backend="asyncio", backend_options={"use_uvloop": use_uvloop}
    )
    for p in problems:
        print(f"  {p}")
    if not problems:
        print("  fine")
    return [f"{name}: {p}" for p in problems]


def main() -> int:
    all_problems = run_on(False)
    try:
        import uvloop  # noqa: F401
    except ImportError:
        print("uvloop is not installed; the hang only shows under uvloop")
    else:
        all_problems += run_on(True)

    if all_problems:
        print("PROPERTY VIOLATED: " + "; ".join(all_problems))
        return 1

    print("ok")
    return 0


if __name__ == "__main__":
    sys.exit(main())
