"""
TCP socket stream (asyncio backend): a send() that is waiting for the peer to drain
its data reports SUCCESS when the stream is closed under it (by aclose() from another
task, or by the peer resetting the connection), although the unsent rest of the
message was thrown away.

Expected (property): "on a locally closed stream send raises ClosedResourceError";
bytes handed to send() are delivered or the call fails - never silent loss.
Actual on the unmodified tree: send() returns None; only a few hundred kB of the
50 MB message ever left the process.

Run:  PYTHONPATH=/tmp/hunt_C18/src /venv/bin/python demo.py
"""

from __future__ import annotations

import socket
import sys

import anyio
from anyio import BrokenResourceError, ClosedResourceError, EndOfStream
from anyio.abc import SocketAttribute, SocketStream

SIZE = 50_000_000


async def tcp_pair() -> tuple[SocketStream, SocketStream]:
    try:
        multi = await anyio.create_tcp_listener(local_host="127.0.0.1")
        listener = multi.listeners[0]
        port = listener.extra(SocketAttribute.local_port)
        async with anyio.create_task_group() as tg:
            server: list[SocketStream] = []

            async def accept() -> None:
                server.append(await listener.accept())

            tg.start_soon(accept)
            client = await anyio.connect_tcp("127.0.0.1", port)

        await multi.aclose()
        return client, server[0]
    except OSError:
        # no TCP in this sandbox: the same SocketStream class over a socketpair
        sa, sb = socket.socketpair(socket.AF_UNIX, socket.SOCK_STREAM)
        return await SocketStream.from_socket(sa), await SocketStream.from_socket(sb)


async def blocked_send_then(action: str) -> tuple[str, int]:
    """Returns (outcome of the blocked send, number of bytes the peer could read)."""
    a, b = await tcp_pair()
    outcome = "?"

    async def sender() -> None:
        nonlocal outcome
        try:
            await a.send(b"x" * SIZE)
            outcome = "returned normally"
        except ClosedResourceError:
            outcome = "ClosedResourceError"
        except BrokenResourceError:
            outcome = "BrokenResourceError"

    received = 0
    with anyio.fail_after(30):
        async with anyio.create_task_group() as tg:
            tg.start_soon(sender)
            await anyio.sleep(0.2)  # send() is now waiting for the peer to read
            if action == "local close":
                await a.aclose()
                try:
                    while True:
                        received += len(await b.receive(1_000_000))
                except (EndOfStream, BrokenResourceError):
                    pass
            else:  # the peer goes away without reading (connection reset)
                received += len(await b.receive(10))
                await b.aclose()

    await a.aclose()
    await b.aclose()
    return outcome, received


async def scenario() -> list[str]:
    problems = []
    outcome, received = await blocked_send_then("local close")
    print(f"  aclose() during send(): send {outcome}; peer got {received} of {SIZE} bytes")
    if outcome == "returned normally" and received < SIZE:
        problems.append(
            f"send() on a stream closed by another task returned normally although "
            f"only {received} of {SIZE} bytes were delivered (expected "
            f"ClosedResourceError)"
        )

    outcome, received = await blocked_send_then("peer reset")
    print(f"  peer reset during send(): send {outcome}; peer read {received} bytes")
    if outcome == "returned normally":
        problems.append(
            "send() returned normally although the connection broke before the "
            "message was written (expected BrokenResourceError)"
        )

    return problems


def main() -> int:
    all_problems: list[str] = []
    loops = [False]
    try:
        import uvloop  # noqa: F401

        loops.append(True)
    except ImportError:
        pass

    for use_uvloop in loops:
        name = "uvloop" if use_uvloop else "stock asyncio"
        print(f"[{name}]")
        problems = anyio.run(
            scenario, backend="asyncio", backend_options={"use_uvloop": use_uvloop}
        )
        all_problems += [f"{name}: {p}" for p in problems]

    if all_problems:
        print("PROPERTY VIOLATED: " + "; ".join(all_problems))
        return 1

    print("ok")
    return 0


if __name__ == "__main__":
    sys.exit(main())
