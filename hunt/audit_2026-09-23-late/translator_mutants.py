# ---------------------------------------------------------------- LOCK
LK = "class Lock(BaseLock):"
m("lock", "L1", A, LK, "        if self._owner_task is None and not self._waiters:\n            self._owner_task = task\n\n            # Unless",
  "        if self._owner_task is None or not self._waiters:\n            self._owner_task = task\n\n            # Unless",
  "acquire: `is None and not waiters` -> `or`")
m("lock", "L2", A, LK,
  "            self._owner_task = task\n\n            # Unless on the \"fast path\", yield control of the event loop so that other\n            # tasks can run too\n            if not self._fast_acquire:\n                try:\n                    await AsyncIOBackend.cancel_shielded_checkpoint()\n                except CancelledError:\n                    self.release()\n                    raise\n\n            return",
  "            if not self._fast_acquire:\n                try:\n                    await AsyncIOBackend.cancel_shielded_checkpoint()\n                except CancelledError:\n                    self.release()\n                    raise\n\n            self._owner_task = task\n            return",
  "acquire: take ownership AFTER the yield instead of before (swap across await)")
m("lock", "L3", A, LK, "self._waiters.append(item)", "self._waiters.append(itm)", "acquire: rename one use of `item` (unbound name)")
m("lock", "L4", A, LK, "            await fut\n        except CancelledError:", "            await fut\n        except Exception:",
  "acquire: `except CancelledError` -> `except Exception` around `await fut`")
m("lock", "L5", A, LK, "        if self._owner_task is None and not self._waiters:\n            self._owner_task = task\n            return",
  "        if not self._owner_task and not self._waiters:\n            self._owner_task = task\n            return",
  "acquire_nowait: `is None` -> truthiness")
m("lock", "L6", A, LK, "            self._owner_task = task\n            fut.set_result(None)\n            return",
  "            self._owner_task = task\n            fut.set_result(None)\n            del self._owner_task\n            return",
  "release: add `del self._owner_task` in the loop")
m("lock", "L7", A, LK, "        if self._owner_task == task:\n            raise RuntimeError(\"Attempted to acquire", "        if self._owner_task != task:\n            raise RuntimeError(\"Attempted to acquire",
  "acquire: `== task` -> `!= task`")
m("lock", "L8", A, LK, "        task_info = AsyncIOTaskInfo(self._owner_task) if self._owner_task else None\n",
  "        task_info = AsyncIOTaskInfo(self._owner_task) if self._owner_task else None\n        self._owner_task = None\n",
  "statistics(): add side effect `self._owner_task = None` (method not read)")
m("lock", "L9", A, LK, "    def __new__(cls, *, fast_acquire: bool = False) -> Self:\n        return object.__new__(cls)",
  "    def __new__(cls, *, fast_acquire: bool = False) -> Self:\n        if fast_acquire:\n            raise NotImplementedError\n        return object.__new__(cls)",
  "__new__: statement before the final `return object.__new__(cls)`")
m("lock", "L10", A, None, "    BusyResourceError,\n    ClosedResourceError,\n    EndOfStream,\n    RunFinishedError,\n    WouldBlock,\n",
  "    BusyResourceError,\n    ClosedResourceError,\n    EndOfStream,\n    RunFinishedError,\n    BusyResourceError as WouldBlock,\n",
  "import: `BusyResourceError as WouldBlock` (acquire_nowait raises another class)")
m("lock", "L11", A, None, "#\n# Synchronization\n#\n", "#\n# Synchronization\n#\n\ndef current_task(loop=None):\n    return None\n",
  "module level: redefine helper `current_task()` to return None")
m("lock", "L12", A, LK, "        return LockStatistics(self.locked(), task_info, len(self._waiters))\n",
  "        return LockStatistics(self.locked(), task_info, len(self._waiters))\n\n    if sys.version_info >= (3, 9):\n\n        def release(self) -> None:\n            self._owner_task = None\n",
  "class body: version-conditional second `def release` (overrides the translated one)")
m("lock", "L13", A, LK, "                    await AsyncIOBackend.cancel_shielded_checkpoint()", "                    await fut.cancel_shielded_checkpoint()",
  "acquire: receiver of .cancel_shielded_checkpoint() changed (AttributeError/NameError at run time)")
m("lock", "L14", A, LK, "            fut.set_result(None)", "            fut.set_result(task)", "release: set_result(None) -> set_result(task)")
m("lock", "L15", A, LK, "            raise RuntimeError(\"The current task is not holding this lock\")", "            raise ValueError(\"The current task is not holding this lock\")",
  "release: raise ValueError instead of RuntimeError")
m("lock", "L16", A, LK, "        self._owner_task: asyncio.Task | None = None\n        self._waiters: deque[tuple[asyncio.Task, asyncio.Future]] = deque()\n",
  "        self._owner_task: asyncio.Task | None = None\n        self._waiters: deque[tuple[asyncio.Task, asyncio.Future]] = deque(maxlen=1)\n",
  "__init__: deque() -> deque(maxlen=1)")

# ---------------------------------------------------------------- PRIMS
SM = "class Semaphore(BaseSemaphore):"
LM = "class CapacityLimiter(BaseCapacityLimiter):"
m("prims", "P1", A, SM, "if self._value > 0 and not self._waiters:", "if self._value >= 0 and not self._waiters:", "Sem.acquire: `> 0` -> `>= 0`")
m("prims", "P2", A, SM,
  "            self._value -= 1\n\n            # Unless on the \"fast path\", yield control of the event loop so that other\n            # tasks can run too\n            if not self._fast_acquire:\n                try:\n                    await AsyncIOBackend.cancel_shielded_checkpoint()\n                except CancelledError:\n                    self.release()\n                    raise\n\n            return",
  "            if not self._fast_acquire:\n                try:\n                    await AsyncIOBackend.cancel_shielded_checkpoint()\n                except CancelledError:\n                    self.release()\n                    raise\n\n            self._value -= 1\n            return",
  "Sem.acquire: decrement AFTER the yield (swap across await)")
m("prims", "P3", A, SM, "        fut: asyncio.Future[None] = asyncio.Future()\n        self._waiters.append(fut)", "        f: asyncio.Future[None] = asyncio.Future()\n        self._waiters.append(fut)",
  "Sem.acquire: rename only the BINDING of `fut` (all uses read an unbound name)")
m("prims", "P4", A, LM, "    def release_on_behalf_of(self, borrower: object) -> None:", "    def release_on_behalf_of(self, b: object) -> None:",
  "Limiter.release_on_behalf_of: rename only the parameter (body reads unbound `borrower`)")
m("prims", "P5", A, LM, "                await event.wait()\n            except BaseException:", "                await event.wait()\n            except CancelledError:",
  "Limiter.acquire_on_behalf_of: `except BaseException` -> `except CancelledError` around event.wait()")
m("prims", "P6", A, LM, "        self._total_tokens: float = 0\n        self._borrowers: set[Any] = set()\n        self._wait_queue: OrderedDict[Any, asyncio.Event] = OrderedDict()\n        self.total_tokens = total_tokens\n",
  "        self._borrowers: set[Any] = set()\n        self._wait_queue: OrderedDict[Any, asyncio.Event] = OrderedDict()\n        self.total_tokens = total_tokens\n        self._total_tokens: float = 0\n",
  "Limiter.__init__: `_total_tokens = 0` moved AFTER `self.total_tokens = total_tokens` (limiter always has 0 tokens)")
m("prims", "P7", A, SM, "if self._max_value is not None and self._value == self._max_value:", "if self._max_value and self._value == self._max_value:",
  "Sem.release: `is not None` -> truthiness")
m("prims", "P8", A, SM, "raise ValueError(\"semaphore released too many times\")", "raise RuntimeError(\"semaphore released too many times\")", "Sem.release: ValueError -> RuntimeError")
m("prims", "P9", A, SM, "            raise WouldBlock\n\n        self._value -= 1", "            raise WouldBlock\n\n        self._value -= 2", "Sem.acquire_nowait: `-= 1` -> `-= 2`")
m("prims", "P10", A, LM, "    def _notify_next_waiter(self) -> None:\n        \"\"\"Hand a free token to the next task in line, if any.\"\"\"\n        if self._wait_queue and len(self._borrowers) < self._total_tokens:\n            borrower, event = self._wait_queue.popitem(last=False)",
  "    def _notify_next_waiter(self) -> None:\n        \"\"\"Hand a free token to the next task in line, if any.\"\"\"\n        if self._wait_queue and len(self._borrowers) < self._total_tokens:\n            borrower, event = self._wait_queue.popitem(last=True)",
  "Limiter._notify_next_waiter: popitem(last=False) -> last=True (LIFO)")
m("prims", "P11", A, LM, "        return self._total_tokens - len(self._borrowers)", "        return self._total_tokens", "Limiter.available_tokens getter changed")
m("prims", "P12", A, LM, "        exc_tb: TracebackType | None,\n    ) -> None:\n        self.release()", "        exc_tb: TracebackType | None,\n    ) -> None:\n        pass", "Limiter.__aexit__: release() -> pass")
m("prims", "P13", A, SM, "        return SemaphoreStatistics(len(self._waiters))\n",
  "        return SemaphoreStatistics(len(self._waiters))\n\n    if sys.version_info >= (3, 9):\n\n        def release(self) -> None:\n            self._value += 1\n",
  "Sem class body: version-conditional second `def release`")
m("prims", "P14", A, None, "    RunFinishedError,\n    WouldBlock,\n", "    RunFinishedError,\n    BusyResourceError as WouldBlock,\n",
  "import: `BusyResourceError as WouldBlock` (Limiter's `except WouldBlock` no longer matches what nowait raises? both alias; raises other class to callers)")
m("prims", "P15", A, LM, "        if value < 0:\n            raise ValueError(\"total_tokens must be >= 0\")", "        if value <= 0:\n            raise ValueError(\"total_tokens must be >= 0\")",
  "Limiter.total_tokens setter: `< 0` -> `<= 0`")
m("prims", "P16", A, SM, "    def release(self) -> None:\n        if self._max_value is not None", "    @staticmethod\n    def release(self) -> None:\n        if self._max_value is not None",
  "Sem.release: add decorator @staticmethod")
m("prims", "P17", A, LM, "            self.tuple_placeholder", "", "placeholder (skipped)") if False else None
m("prims", "P18", A, LM, "            self.borrowed_tokens,\n            self.total_tokens,\n", "            self.total_tokens,\n            self.borrowed_tokens,\n", "Limiter.statistics: swap two arguments")
m("prims", "P19", A, SM, "        super().__init__(initial_value, max_value=max_value)\n        self._value = initial_value\n",
  "        super().__init__(initial_value, max_value=max_value)\n        self._value = initial_value\n        self._value = initial_value\n        initial_value = 0\n",
  "Sem.__init__: extra statements (duplicate + rebinding a parameter)")

# ---------------------------------------------------------------- COND
CM = "class Condition:"
EV = "class Event(BaseEvent):"
m("cond", "C1", S, CM, "    def notify(self, n: int = 1) -> None:", "    def notify(self, n: int = 2) -> None:", "Condition.notify: default n=1 -> n=2")
m("cond", "C2", S, CM, "        event = Event()\n        self._waiters.append(event)", "        ev = Event()\n        self._waiters.append(event)",
  "Condition.wait: rename only the BINDING of `event` (uses read an unbound name)")
m("cond", "C3", S, CM, "            await event.wait()\n        except BaseException:", "            await event.wait()\n        except CancelledError:",
  "Condition.wait: `except BaseException` -> `except CancelledError` (name not even imported in that module)")
m("cond", "C4", S, CM, "        self._waiters.append(event)\n        self.release()\n", "        self.release()\n        self._waiters.append(event)\n", "Condition.wait: swap append / release")
m("cond", "C5", S, CM, "            with CancelScope(shield=True):\n                await self.acquire()", "            with CancelScope(shield=False):\n                await self.acquire()", "Condition.wait: shield=True -> shield=False")
m("cond", "C6", S, CM, "if self._lock.statistics().owner != get_current_task():", "if self._lock.statistics().owner is not get_current_task():", "_check_acquired: `!=` -> `is not` (TaskInfo.__eq__ compares ids)")
m("cond", "C7", S, CM, "            except IndexError:\n                break", "            except IndexError:\n                pass", "notify: break -> pass in handler")
m("cond", "C8", S, None, "from ..lowlevel import checkpoint_if_cancelled", "from ..lowlevel import checkpoint as checkpoint_if_cancelled",
  "import: `checkpoint as checkpoint_if_cancelled` (wait() always yields and is cancellable there)")
m("cond", "C9", A, EV, "        if self.is_set():\n            await AsyncIOBackend.checkpoint()", "        if not self.is_set():\n            await AsyncIOBackend.checkpoint()", "Event.wait: negate test")
m("cond", "C10", A, EV, "    def set(self) -> None:\n        self._event.set()", "    def set(self) -> None:\n        self._event.clear()", "Event.set: set() -> clear()")
m("cond", "C11", S, CM, "        self._lock = lock or Lock()", "        self._lock = Lock()", "Condition.__init__: ignore the lock argument")
m("cond", "C12", S, CM, "            with CancelScope(shield=True):\n                await self.acquire()\n", "            with CancelScope(shield=True):\n                await self.acquire()\n            return\n",
  "Condition.wait: `return` inside finally (swallows the exception)")
m("cond", "C13", S, None, "class Semaphore:\n", "Event = Lock\n\n\nclass Semaphore:\n", "module level (after class Condition): rebind `Event` (used by Condition.wait) to another class")
m("cond", "C14", S, CM, "        for event in self._waiters:\n            event.set()\n\n        self._waiters.clear()", "        for event in self._waiters:\n            event.set()\n", "notify_all: drop `self._waiters.clear()`")
m("cond", "C15", S, CM, "        return ConditionStatistics(len(self._waiters), self._lock.statistics())\n",
  "        return ConditionStatistics(len(self._waiters), self._lock.statistics())\n\n    if sys.version_info >= (3, 9):\n\n        def release(self) -> None:\n            pass\n",
  "Condition class body: version-conditional second `def release`")
m("cond", "C16", A, EV, "    def __new__(cls) -> Self:\n        return object.__new__(cls)\n\n    def __init__(self) -> None:\n        self._event = asyncio.Event()",
  "    def __new__(cls) -> Self:\n        return object.__new__(cls)\n\n    def __init__(self, flag=[]) -> None:\n        self._event = asyncio.Event()\n        0\n",
  "Event.__init__: extra non-string expression statement + extra param (harmless probe: is __init__ literal?)")

# ---------------------------------------------------------------- MEM
SS = "class MemoryObjectSendStream("
RS = "class MemoryObjectReceiveStream("
m("mem", "M1", M, SS, "                stacklevel=1,\n                source=self,\n            )\n", "                stacklevel=1,\n                source=self,\n            )\n            self.close()\n",
  "SendStream.__del__: also `self.close()` (closing on GC wakes receivers with EndOfStream)")
m("mem", "M2", M, None, "    item: T_Item = field(init=False)\n", "    item: T_Item = field(init=False, default=None)\n",
  "_MemoryObjectItemReceiver.item gets default=None (receive() returns None instead of raising EndOfStream)")
m("mem", "M3", M, RS, "                for event in send_events:\n                    event.set()", "                for ev in send_events:\n                    event.set()",
  "ReceiveStream.close: rename only the loop variable (body reads unbound `event`)")
m("mem", "M4", M, SS, "                await send_event.wait()\n            except BaseException:", "                await send_event.wait()\n            except CancelledError:",
  "SendStream.send: `except BaseException` -> `except CancelledError` (not imported; trio's Cancelled is not one)")
m("mem", "M5", M, SS, "if len(self._state.buffer) < self._state.max_buffer_size:", "if len(self._state.buffer) <= self._state.max_buffer_size:", "send_nowait: `<` -> `<=`")
m("mem", "M6", M, RS, "            self._state.waiting_receivers[receive_event] = receiver\n\n            try:\n                await receive_event.wait()\n            finally:\n                self._state.waiting_receivers.pop(receive_event, None)\n",
  "            try:\n                await receive_event.wait()\n            finally:\n                self._state.waiting_receivers.pop(receive_event, None)\n\n            self._state.waiting_receivers[receive_event] = receiver\n",
  "receive: register the receiver AFTER the await (swap across await)")
m("mem", "M7", M, SS, "                raise BrokenResourceError from None", "                raise ClosedResourceError from None", "send: BrokenResourceError -> ClosedResourceError")
m("mem", "M8", M, SS, "        if not self._state.open_receive_channels:\n            raise BrokenResourceError", "        if self._state.open_receive_channels is None:\n            raise BrokenResourceError", "send_nowait: truthiness -> `is None`")
m("mem", "M9", M, SS, "self._state.waiting_receivers.popitem(last=False)", "self._state.waiting_receivers.popitem()", "send_nowait: popitem(last=False) -> popitem() (LIFO)")
m("mem", "M10", M, None, "from ..lowlevel import checkpoint\n", "from ..lowlevel import cancel_shielded_checkpoint as checkpoint\n",
  "import: `cancel_shielded_checkpoint as checkpoint` (send/receive no longer cancellable at entry)")
m("mem", "M11", M, SS, "    async def aclose(self) -> None:\n        self.close()", "    async def aclose(self) -> None:\n        pass", "SendStream.aclose: close() -> pass")
m("mem", "M12", M, None, "    open_send_channels: int = field(init=False, default=0)", "    open_send_channels: int = field(init=False, default=1)", "state: open_send_channels default 0 -> 1")
m("mem", "M13", M, RS, "            finally:\n                self._state.waiting_receivers.pop(receive_event, None)\n", "            finally:\n                self._state.waiting_receivers.pop(receive_event, None)\n                return None\n",
  "receive: `return None` inside finally")
m("mem", "M14", M, RS, "                stacklevel=1,\n                source=self,\n            )\n", "                stacklevel=1,\n                source=self,\n            )\n            self._state.open_receive_channels -= 1\n",
  "ReceiveStream.__del__: decrement open_receive_channels inside the `if` (senders then see BrokenResourceError)")
m("mem", "M15", M, SS, "    def __enter__(self) -> MemoryObjectSendStream[T_contra]:\n        return self", "    def __enter__(self) -> MemoryObjectSendStream[T_contra]:\n        return self.clone()", "SendStream.__enter__: return self.clone()")
m("mem", "M16", M, None, "    task_info: TaskInfo = field(init=False, default_factory=get_current_task)", "    task_info: TaskInfo = field(init=False, default_factory=TaskInfo)",
  "_MemoryObjectItemReceiver.task_info default_factory changed")

# ---------------------------------------------------------------- CHAIN
CS = "class CancelScope(BaseCancelScope):"
BE = "class AsyncIOBackend(AsyncBackend):"
m("chain", "H1", A, BE, "                raise CancelledError(f\"Cancelled via cancel scope {id(scope):x}\")", "                raise CancelledError(\"cancelled\")",
  "check_cancelled: message loses the tag prefix that is_anyio_cancellation tests for")
m("chain", "H2", A, None, "\n\nclass CancelScope(BaseCancelScope):", "\n\nis_anyio_cancellation = lambda exc: True  # noqa\n\n\nclass CancelScope(BaseCancelScope):",
  "module level: rebind `is_anyio_cancellation` after its def")
m("chain", "H3", A, None, "def is_anyio_cancellation(exc: CancelledError) -> bool:", "@(lambda f: (lambda exc: not f(exc)))\ndef is_anyio_cancellation(exc: CancelledError) -> bool:",
  "decorator added to is_anyio_cancellation (negates the result)")
m("chain", "H4", A, CS, "            if cancel_scope._cancel_called:\n                return True", "            if cancel_scope._cancel_called:\n                return False", "_effectively_cancelled: return True -> False")
m("chain", "H5", A, CS, "        if self._shield or self._host_task is None:", "        if self._shield and self._host_task is None:", "_visible_parent_scope: or -> and")
m("chain", "H6", A, CS, "        if self._shield or self._host_task is None:", "        if self._shield or not self._host_task:", "_visible_parent_scope: `is None` -> truthiness")
m("chain", "H7", A, BE, "                await sleep(0)\n\n                # Look again", "                await sleep(0.01)\n\n                # Look again", "checkpoint_if_cancelled: sleep(0) -> sleep(0.01)")
m("chain", "H8", A, BE, "            deadline = min(deadline, cancel_scope.deadline)\n            if cancel_scope._cancel_called:\n                deadline = -math.inf\n                break\n            else:\n                cancel_scope = cancel_scope._visible_parent_scope\n",
  "            if cancel_scope._cancel_called:\n                deadline = -math.inf\n                break\n            else:\n                deadline = min(deadline, cancel_scope.deadline)\n                cancel_scope = cancel_scope._parent_scope\n",
  "current_effective_deadline: advance via _parent_scope instead of _visible_parent_scope (ignores shields)")
m("chain", "H9", A, None, "            and exc.args[0].startswith(\"Cancelled via cancel scope \")", "            and exc.args[0].startswith(\"Cancelled via \")", "is_anyio_cancellation: shorter prefix")
m("chain", "H10", A, None, "from asyncio import (\n    AbstractEventLoop,\n    CancelledError,\n", "from asyncio import (\n    AbstractEventLoop,\n    InvalidStateError as CancelledError,\n",
  "import: `InvalidStateError as CancelledError` (what check_cancelled raises / the isinstance look-ahead tests)")
m("chain", "H11", A, CS, "                        task.cancel(origin._cancel_reason)", "                        task.cancel()",
  "_deliver_cancellation (not read): cancel without the tagged message => is_anyio_cancellation never true")
m("chain", "H12", A, CS, "    @property\n    def _visible_parent_scope(self)", "    __bool__ = lambda self: False  # noqa\n\n    @property\n    def _visible_parent_scope(self)",
  "CancelScope class attribute `__bool__ = lambda ...` (`while cancel_scope:` never runs)")
m("chain", "H13", A, CS, "            self._cancel_reason = f\"Cancelled via cancel scope {id(self):x}\"", "            self._cancel_reason = f\"Canceled via cancel scope {id(self):x}\"", "cancel(): message prefix changed")
m("chain", "H14", A, CS, "    def _timeout(self) -> None:\n", "    if sys.version_info >= (3, 9):\n\n        @property\n        def _effectively_cancelled(self) -> bool:\n            return self._cancel_called\n\n    def _timeout(self) -> None:\n",
  "CancelScope class body: version-conditional second `_effectively_cancelled` property")
m("chain", "H15", A, CS, "                if scope._cancel_handle is None:\n                    scope._deliver_cancellation(scope)", "                if scope._cancel_handle is not None:\n                    scope._deliver_cancellation(scope)", "_restart_cancellation: is None -> is not None")
m("chain", "H16", A, CS, "            self._parent_scope is not None\n            and not self.shield\n", "            self._parent_scope is not None\n", "_parent_cancellation_is_visible_to_us: drop `not self.shield`")
m("chain", "H17", A, BE, "            if scope.cancel_called:\n                raise CancelledError(f\"Cancelled via cancel scope {id(scope):x}\")\n\n            if scope.shield:\n                return\n",
  "            if scope.shield:\n                return\n\n            if scope.cancel_called:\n                raise CancelledError(f\"Cancelled via cancel scope {id(scope):x}\")\n",
  "check_cancelled: test shield before cancel_called")
m("chain", "H18", A, BE, "                cancel_scope = _task_states[task].cancel_scope\n            else:", "                pass\n            else:", "checkpoint_if_cancelled: drop the restart after sleep(0)")
m("chain", "H19", A, None, "#\n# Synchronization\n#\n", "#\n# Synchronization\n#\n\nasync def sleep(delay, result=None):\n    return result\n",
  "module level: redefine `sleep` (checkpoint_if_cancelled's `await sleep(0)` no longer yields)")
m("chain", "H20", A, CS, "    @shield.setter\n    def shield(self, value: bool) -> None:\n        if self._shield != value:\n            self._shield = value\n            if not value:",
  "    @shield.setter\n    def shield(self, value: bool) -> None:\n        if self._shield != value:\n            self._shield = value\n            if value:",
  "shield setter (not read): restart cancellation when shielding instead of unshielding")

# ---------------------------------------------------------------- TIMEOUTS
m("timeouts", "T1", T, "def fail_at(", "    deadline: float | None, shield: bool = False, reason: str | None = None\n", "    deadline: float | None, shield: bool = False, reason: str | None = \"timed out\"\n",
  "fail_at: default of `reason` None -> \"timed out\"")
m("timeouts", "T2", T, "def fail_at(", "        raise TimeoutError(reason) if reason else TimeoutError", "        raise TimeoutError", "fail_at: drop the reason from the raised TimeoutError")
m("timeouts", "T3", T, "def fail_after(", "    with fail_at(deadline, shield=shield, reason=reason) as scope:", "    with fail_at(deadline, shield=shield) as scope:", "fail_after: `reason=reason` no longer passed on")
m("timeouts", "T4", T, None, "else:\n    from typing_extensions import Never, Self, TypeVarTuple\n", "else:\n    from asyncio import TimeoutError\n    from typing_extensions import Never, Self, TypeVarTuple\n",
  "version-conditional `from asyncio import TimeoutError` (distinct class on py<3.11)")
m("timeouts", "T5", T, "def fail_at(", "current_time() >= cancel_scope.deadline", "current_time() > cancel_scope.deadline", "fail_at: `>=` -> `>`")
m("timeouts", "T6", T, "def fail_at(", "if cancel_scope.cancelled_caught and current_time()", "if cancel_scope.cancelled_caught or current_time()", "fail_at: and -> or")
m("timeouts", "T7", T, "def move_on_at(", "        deadline=deadline if deadline is not None else math.inf, shield=shield\n", "        deadline=deadline if deadline is not None else math.inf, shield=False\n", "move_on_at: shield=shield -> shield=False")
m("timeouts", "T8", T, "def fail_at(", "    effective_deadline = math.inf if deadline is None else deadline\n", "    effective_deadline = math.inf if deadline is None else deadline + 1\n", "fail_at: deadline + 1")
m("timeouts", "T9", T, "def fail_after(", "    deadline = (current_time() + delay) if delay is not None else math.inf", "    deadline = (current_time() - delay) if delay is not None else math.inf", "fail_after: now + delay -> now - delay")
m("timeouts", "T10", T, "def move_on_after(", "    delay: float | None, shield: bool = False\n", "    delay: float | None, shield: bool = True\n", "move_on_after: shield default False -> True")
m("timeouts", "T11", T, None, "\n\ndef current_effective_deadline() -> float:", "\n\nif sys.version_info >= (3, 9):\n    move_on_after = move_on_at\n\n\ndef current_effective_deadline() -> float:",
  "module level, inside `if`: `move_on_after = move_on_at` (delay treated as absolute deadline)")
m("timeouts", "T12", T, "def fail_after(", "    deadline = (current_time() + delay) if delay is not None else math.inf", "    deadline = (current_time() + delay) if delay else math.inf",
  "fail_after: `is not None` -> truthiness (delay 0 => no timeout)")
m("timeouts", "T13", T, "def move_on_at(", "        deadline=deadline if deadline is not None else math.inf, shield=shield\n", "        deadline=deadline or math.inf, shield=shield\n", "move_on_at: `deadline or math.inf`")
m("timeouts", "T14", T, "def fail_after(", "    with fail_at(deadline, shield=shield, reason=reason) as scope:\n        yield scope\n", "    with fail_at(deadline, shield=shield, reason=reason) as scope:\n        yield scope\n    return\n",
  "fail_after: statement after the with block (probe)")
m("timeouts", "T15", T, "def move_on_at(", "def move_on_at(deadline: float | None, shield: bool = False) -> CancelScope:", "def move_on_at(deadline: float | None = False, shield: bool = True) -> CancelScope:",
  "move_on_at: defaults shifted: deadline=False, shield=True (defaults[0] is still `False`)")
m("timeouts", "T16", T, None, "\n\ndef current_effective_deadline() -> float:", "\n\nif sys.version_info >= (3, 9):\n\n    def fail_after(delay, shield=False, reason=None):  # noqa\n        return move_on_after(delay, shield)\n\n\ndef current_effective_deadline() -> float:",
  "module level, inside `if`: second `def fail_after` that never raises TimeoutError")

MUT[:] = [x for x in MUT if x is not None and x.get("id") != "P17"]
