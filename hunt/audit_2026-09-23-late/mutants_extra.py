LK = "class Lock(BaseLock):"; SM = "class Semaphore(BaseSemaphore):"; EV = "class Event(BaseEvent):"
m("lock", "X1", A, LK, "                    await AsyncIOBackend.cancel_shielded_checkpoint()", "                    await TaskGroup.cancel_shielded_checkpoint()", "lock.acquire: receiver AsyncIOBackend -> TaskGroup (module-level class without that attribute)")
m("lock", "X2", A, LK, "        await AsyncIOBackend.checkpoint_if_cancelled()", "        await self.checkpoint_if_cancelled()", "lock.acquire: receiver AsyncIOBackend -> self for checkpoint_if_cancelled")
m("prims", "X3", A, SM, "                    await AsyncIOBackend.cancel_shielded_checkpoint()", "                    await asyncio.cancel_shielded_checkpoint()", "Sem.acquire: receiver AsyncIOBackend -> asyncio")
m("cond", "X4", A, EV, "            await AsyncIOBackend.checkpoint()", "            await self._event.checkpoint()", "Event.wait: receiver of .checkpoint() -> self._event")
