"""
BufferedByteReceiveStream.receive_exactly(n) with a negative n does not raise: it
silently consumes and returns len(buffer)+n bytes (Python negative slicing), i.e. an
amount of data that depends on how the wrapped stream chunked the input and on what
happened to be buffered.  receive() validates its argument (ValueError);
receive_exactly() does not.

Run: PYTHONPATH=/tmp/hunt_C16/src /venv/bin/python demo.py
"""

import faulthandler
import sys

import anyio
from anyio import create_memory_object_stream
from anyio.streams.buffered import BufferedByteReceiveStream

faulthandler.dump_traceback_later(50, exit=True)  # watchdog against hangs

problems: list[str] = []


async def main() -> None:
    for chunks in ([b"hello world"], [b"hel", b"lo world"]):
        send, receive = create_memory_object_stream[bytes](10)
        buffered = BufferedByteReceiveStream(receive)
        for c in chunks:
            send.send_nowait(c)

        with anyio.fail_after(20):
            first = await buffered.receive_exactly(2)  # fills the buffer
            try:
                result = await buffered.receive_exactly(-1)
            except ValueError as exc:
                print(f"chunking {chunks}: receive_exactly(-1) raised ValueError({exc})")
                continue

        print(
            f"chunking {chunks}: receive_exactly(2) -> {first!r}, then "
            f"receive_exactly(-1) -> {result!r} ({len(result)} bytes), buffer left "
            f"{buffered.buffer!r}"
        )
        problems.append(
            f"chunking {chunks}: receive_exactly(-1) neither failed nor returned "
            f"exactly n bytes: it consumed {len(result)} bytes ({result!r})"
        )


anyio.run(main)
if problems:
    for p in problems:
        print("PROPERTY VIOLATED:", p)
    sys.exit(1)

print("ok")
