"""
BufferedByteReceiveStream.receive(n) returns an EMPTY bytes object (0 bytes, not
1..n) when the wrapped object stream delivers an empty item -- e.g. the item produced
by TextSendStream.send("") -- although ByteReceiveStream.receive() implementations
"should not return an empty bytes object".  Whether a call returns b"" depends only on
how the wrapped stream happens to chunk the data, i.e. the wrapper is not transparent
to chunking.

Run: PYTHONPATH=/tmp/hunt_C16/src /venv/bin/python demo.py
"""

import faulthandler
import sys

import anyio
from anyio import create_memory_object_stream
from anyio.streams.buffered import BufferedByteReceiveStream
from anyio.streams.text import TextSendStream

faulthandler.dump_traceback_later(50, exit=True)  # watchdog against hangs

problems: list[str] = []


async def main() -> None:
    # 1. Pure public-API pipeline: TextSendStream -> memory stream -> buffered stream
    send, receive = create_memory_object_stream[bytes](10)
    text_send = TextSendStream(send)
    buffered = BufferedByteReceiveStream(receive)
    await text_send.send("")  # a legal send of an empty string
    await text_send.send("hello")
    with anyio.fail_after(20):
        chunk = await buffered.receive(10)

    print(f"receive(10) after send('') + send('hello') -> {chunk!r}")
    if not 1 <= len(chunk) <= 10:
        problems.append(
            f"receive(10) returned {len(chunk)} bytes ({chunk!r}); must return 1..10 "
            f"bytes (b'hello' was available)"
        )

    # 2. Same bytes, three chunkings -> the sequence of receive() results must never
    #    contain an empty chunk
    for chunks in ([b"ab"], [b"a", b"b"], [b"a", b"", b"b"]):
        send, receive = create_memory_object_stream[bytes](10)
        buffered = BufferedByteReceiveStream(receive)
        for c in chunks:
            send.send_nowait(c)
        send.close()
        got = []
        with anyio.fail_after(20):
            try:
                while True:
                    got.append(await buffered.receive(5))
            except anyio.EndOfStream:
                pass
        print(f"chunking {chunks} -> receive(5) results {got}")
        if any(not 1 <= len(g) <= 5 for g in got):
            problems.append(f"chunking {chunks}: receive(5) results {got}")


anyio.run(main)
if problems:
    for p in problems:
        print("PROPERTY VIOLATED:", p)
    sys.exit(1)

print("ok")
