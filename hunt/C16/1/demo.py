"""
BufferedByteReceiveStream.receive_until() returns data that CONTAINS the delimiter
when the buffer grows while receive_until() is suspended in receive_stream.receive()
(feed_data() called by another task, or another task's receive_exactly()/receive()
leaving surplus bytes in the buffer).

Run: PYTHONPATH=/tmp/hunt_C16/src /venv/bin/python demo.py
"""

import faulthandler
import sys

import anyio
from anyio import create_memory_object_stream
from anyio.streams.buffered import BufferedByteReceiveStream

faulthandler.dump_traceback_later(50, exit=True)  # watchdog against hangs

problems: list[str] = []


async def scenario_feed_data() -> None:
    """feed_data() while receive_until() is waiting for the wrapped stream."""
    send, receive = create_memory_object_stream[bytes](10)
    buffered = BufferedByteReceiveStream(receive)
    results: list[bytes] = []

    async def reader() -> None:
        results.append(await buffered.receive_until(b"\n", 100))

    with anyio.fail_after(20):
        async with anyio.create_task_group() as tg:
            tg.start_soon(reader)
            await anyio.wait_all_tasks_blocked()  # reader is parked in receive()
            buffered.feed_data(b"first\nsec")  # documented way to inject data
            await send.send(b"ond\n")

    line = results[0]
    print(f"feed_data scenario: receive_until(b'\\n') -> {line!r}, buffer left: "
          f"{buffered.buffer!r}")
    if b"\n" in line:
        problems.append(
            f"receive_until(b'\\n', 100) returned {line!r}, which includes the "
            f"delimiter (expected b'first', leaving b'second\\n' buffered)"
        )
    elif line != b"first" or buffered.buffer != b"second\n":
        problems.append(f"unexpected result {line!r} / buffer {buffered.buffer!r}")


async def scenario_two_readers() -> None:
    """A second task's receive_exactly() leaves surplus in the shared buffer."""
    send, receive = create_memory_object_stream[bytes](10)
    buffered = BufferedByteReceiveStream(receive)
    results: dict[str, bytes] = {}

    async def exact() -> None:
        results["exactly"] = await buffered.receive_exactly(1)

    async def until() -> None:
        results["until"] = await buffered.receive_until(b"\n", 100)

    with anyio.fail_after(20):
        async with anyio.create_task_group() as tg:
            tg.start_soon(exact)
            tg.start_soon(until)
            await anyio.wait_all_tasks_blocked()
            await send.send(b"x\nyz")  # goes to exact(): returns b"x", buffers b"\nyz"
            await send.send(b"w\n")  # goes to until()

    print(f"two readers scenario: {results}, buffer left: {buffered.buffer!r}")
    if b"\n" in results["until"]:
        problems.append(
            f"receive_until(b'\\n', 100) returned {results['until']!r}, which "
            f"includes the delimiter"
        )


anyio.run(scenario_feed_data)
anyio.run(scenario_two_readers)

if problems:
    for p in problems:
        print("PROPERTY VIOLATED:", p)
    sys.exit(1)

print("ok")
