"""
BlockingPortal: a future returned by start_task_soon() that the caller cancels is
never reported as done to concurrent.futures.wait() / as_completed(), not even after
its task has been cancelled and has finished.  A caller that waits for its futures
with these standard helpers (docs/threads.rst uses as_completed() on portal futures)
is left hanging.  Cancelling through portal.stop(cancel_remaining=True) does notify.

Exit status: 1 + "PROPERTY VIOLATED: ..." on the bug, 0 + "ok" otherwise.
"""

from __future__ import annotations

import os
import sys
import threading
import time
from concurrent.futures import as_completed, wait

import anyio
from anyio.from_thread import start_blocking_portal


def watchdog() -> None:
    time.sleep(50)
    print("PROPERTY VIOLATED: demo itself hung (watchdog)", flush=True)
    os._exit(1)


threading.Thread(target=watchdog, daemon=True).start()

finished = threading.Event()
ran: list[str] = []


async def long_running_task() -> None:
    try:
        await anyio.sleep_forever()
    finally:
        finished.set()


def sync_task() -> None:
    ran.append("sync_task")


def main() -> int:
    problems = []
    with start_blocking_portal() as portal:
        # 1. a coroutine task, cancelled through its future while it is blocked
        future = portal.start_task_soon(long_running_task)
        quick = portal.start_task_soon(anyio.sleep, 0.01)
        portal.call(anyio.wait_all_tasks_blocked)
        assert future.cancel()
        assert finished.wait(5), "the task was not cancelled"
        portal.call(anyio.sleep, 0.1)  # the task is long gone by now
        assert future.cancelled() and future.done()

        done, not_done = wait([future, quick], timeout=3)
        if future in not_done:
            problems.append(
                "concurrent.futures.wait() still reports the cancelled future as "
                "not done 3 s after its task has finished"
            )

        try:
            completed = list(as_completed([future, quick], timeout=3))
        except TimeoutError as exc:
            problems.append(f"as_completed() never yields the cancelled future ({exc})")
        else:
            assert set(completed) == {future, quick}

        # 2. a plain function, cancelled before/while it runs
        future2 = portal.start_task_soon(sync_task)
        future2.cancel()
        portal.call(anyio.sleep, 0.1)
        if future2.cancelled():
            done, not_done = wait([future2], timeout=3)
            if future2 in not_done:
                problems.append(
                    "same for a cancelled future of a synchronous callable "
                    f"(callable ran: {bool(ran)})"
                )

    if problems:
        print("PROPERTY VIOLATED: " + "; ".join(problems))
        return 1

    print("ok")
    return 0


if __name__ == "__main__":
    sys.exit(main())
