"""
BlockingPortal: a call that races with the portal being stopped hangs forever.

A foreign thread that has passed BlockingPortal._check_running() but has not yet
handed its request to the event loop (loop.call_soon_threadsafe) when the portal
stops and its event loop finishes, is neither run nor refused: it blocks forever in
run_sync_from_thread() -> f.result().

Default mode (deterministic): the interleaving is forced with a profile hook
(threading.setprofile) that merely *delays* two threads at well-defined points - the
library source is not modified and only public API is used:

  1. the caller thread is paused on entry to BlockingPortal._spawn_task_from_thread
     (i.e. right after start_task_soon() has called _check_running() successfully);
  2. the main thread leaves ``with start_blocking_portal()`` -> portal.stop(), the
     task group exits, the event loop runs its last iteration;
  3. the loop thread is paused on entry to loop.close(); the caller thread is resumed
     and does loop.call_soon_threadsafe(...) (loop not closed yet -> accepted);
  4. the loop thread is resumed and closes the loop; the queued callback is dropped.

``demo.py --stress`` shows the same hang without any hook, just by shortening the
interpreter's thread switch interval and hammering (probabilistic, typically < 30 s).

Exit status: 1 + "PROPERTY VIOLATED: ..." if a call hangs, 0 + "ok" otherwise.
"""

from __future__ import annotations

import asyncio
import os
import random
import sys
import threading
import time

from anyio.from_thread import start_blocking_portal

WATCHDOG = 50


def watchdog() -> None:
    time.sleep(WATCHDOG)
    print("PROPERTY VIOLATED: demo itself hung (watchdog)", flush=True)
    os._exit(1)


threading.Thread(target=watchdog, daemon=True).start()


def deterministic() -> int:
    passed_check = threading.Event()  # caller is past _check_running()
    about_to_close = threading.Event()  # loop thread entered loop.close()
    caller_done = threading.Event()  # caller scheduled its callback (or gave up)
    outcome: list[object] = []
    calls: list[int] = []

    def hook(frame, event, arg):  # type: ignore[no-untyped-def]
        name = frame.f_code.co_name
        if threading.current_thread().name == "caller":
            if event == "call" and name == "_spawn_task_from_thread":
                passed_check.set()
                about_to_close.wait(5)
            elif event == "return" and name in (
                "call_soon_threadsafe",
                "_spawn_task_from_thread",
            ):
                caller_done.set()
        elif (
            event == "call"
            and name == "close"
            and isinstance(frame.f_locals.get("self"), asyncio.AbstractEventLoop)
            and not about_to_close.is_set()
        ):
            about_to_close.set()
            caller_done.wait(5)

    def func() -> str:
        calls.append(1)
        return "result"

    def caller(portal) -> None:  # type: ignore[no-untyped-def]
        try:
            outcome.append(("returned", portal.call(func)))
        except BaseException as exc:
            outcome.append(("raised", exc))

    threading.setprofile(hook)  # applies to threads started from now on
    try:
        with start_blocking_portal() as portal:
            thread = threading.Thread(
                target=caller, args=(portal,), name="caller", daemon=True
            )
            thread.start()
            if not passed_check.wait(5):
                print("demo error: caller never got past _check_running()")
                return 2
        # The portal has been stopped, its thread joined, its event loop closed
    finally:
        threading.setprofile(None)

    thread.join(15)
    if thread.is_alive():
        print(
            "PROPERTY VIOLATED: portal.call() issued while the portal was still "
            "running was neither run (func ran %d times) nor refused with "
            "RuntimeError; the caller thread is still blocked %s after "
            "start_blocking_portal() has exited and the event loop was closed"
            % (len(calls), "15 s")
        )
        return 1

    kind, value = outcome[0]
    if kind == "returned" and value == "result" and len(calls) == 1:
        print("ok (call was run once and answered)")
        return 0
    if kind == "raised" and isinstance(value, RuntimeError) and not calls:
        print(f"ok (call was refused: {type(value).__name__}: {value})")
        return 0

    print(f"PROPERTY VIOLATED: unexpected outcome {outcome!r}, func ran {len(calls)}x")
    return 1


def stress() -> int:
    sys.setswitchinterval(1e-6)

    def noop() -> int:
        return 1

    def worker(portal, go, spin) -> None:  # type: ignore[no-untyped-def]
        go.wait()
        for _ in range(spin):
            pass
        try:
            while True:
                portal.call(noop)
        except RuntimeError:
            pass

    t0 = time.monotonic()
    iteration = 0
    while time.monotonic() - t0 < WATCHDOG - 10:
        iteration += 1
        threads = []
        go = threading.Event()
        with start_blocking_portal() as portal:
            for _ in range(8):
                th = threading.Thread(
                    target=worker,
                    args=(portal, go, random.randrange(2000)),
                    daemon=True,
                )
                th.start()
                threads.append(th)
            go.set()

        for th in threads:
            th.join(3)
            if th.is_alive():
                print(
                    f"PROPERTY VIOLATED: iteration {iteration}: a portal.call() "
                    f"racing with the portal exit is still blocked 3 s after "
                    f"start_blocking_portal() returned (neither run nor refused)"
                )
                return 1

    print(f"ok (no hang in {iteration} iterations)")
    return 0


if __name__ == "__main__":
    sys.exit(stress() if "--stress" in sys.argv else deterministic())
