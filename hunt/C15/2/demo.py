"""
BlockingPortal: Future.cancel() on a future returned by start_task_soon() hangs
forever when it races with the task finishing and the portal shutting down.

Cancelling the future from a foreign thread runs BlockingPortal._call_func.callback
in that thread, which does ``run_sync(scope.cancel, ..., token=self._token)``, i.e.
loop.call_soon_threadsafe(...) followed by an unbounded ``f.result()``.  If the task
finishes by itself and the portal is left in the meantime, the event loop finishes
without ever running the callback and ``future.cancel()`` never returns.

The interleaving is forced deterministically with a profile hook
(threading.setprofile) that only *delays* two threads (library source unmodified,
public API only):

  1. the canceller thread calls future.cancel() and is paused on entry to
     from_thread.run_sync() (called by the done-callback);
  2. the main thread lets the task finish normally and leaves
     ``with start_blocking_portal()``;
  3. the loop thread is paused on entry to loop.close(); the canceller is resumed
     and does loop.call_soon_threadsafe(...) (accepted, loop not closed yet);
  4. the loop thread is resumed, closes the loop and drops the callback.

Exit status: 1 + "PROPERTY VIOLATED: ..." if cancel() hangs, 0 + "ok" otherwise.
"""

from __future__ import annotations

import asyncio
import os
import sys
import threading
import time

import anyio
from anyio.from_thread import start_blocking_portal

WATCHDOG = 50


def watchdog() -> None:
    time.sleep(WATCHDOG)
    print("PROPERTY VIOLATED: demo itself hung (watchdog)", flush=True)
    os._exit(1)


threading.Thread(target=watchdog, daemon=True).start()


def main() -> int:
    in_callback = threading.Event()  # canceller is inside the done-callback
    about_to_close = threading.Event()  # loop thread entered loop.close()
    canceller_done = threading.Event()  # canceller scheduled its callback / gave up
    outcome: list[object] = []

    def hook(frame, event, arg):  # type: ignore[no-untyped-def]
        name = frame.f_code.co_name
        if threading.current_thread().name == "canceller":
            if event == "call" and name == "run_sync":
                in_callback.set()
                about_to_close.wait(5)
            elif event == "return" and name in ("call_soon_threadsafe", "run_sync"):
                canceller_done.set()
        elif (
            event == "call"
            and name == "close"
            and isinstance(frame.f_locals.get("self"), asyncio.AbstractEventLoop)
            and not about_to_close.is_set()
        ):
            about_to_close.set()
            canceller_done.wait(5)

    async def make_event() -> anyio.Event:
        return anyio.Event()

    def canceller(future) -> None:  # type: ignore[no-untyped-def]
        try:
            outcome.append(("returned", future.cancel()))
        except BaseException as exc:
            outcome.append(("raised", exc))

    threading.setprofile(hook)  # applies to threads started from now on
    with start_blocking_portal() as portal:
        finish = portal.call(make_event)
        future = portal.start_task_soon(finish.wait)
        portal.call(anyio.wait_all_tasks_blocked)

        thread = threading.Thread(
            target=canceller, args=(future,), name="canceller", daemon=True
        )
        thread.start()
        threading.setprofile(None)
        if not in_callback.wait(5):
            print("demo error: the canceller never reached the done-callback")
            return 2

        # The task finishes by itself while the canceller is still on its way
        portal.call(finish.set)

    # The portal has been stopped, its thread joined, its event loop closed
    thread.join(15)
    if thread.is_alive():
        print(
            "PROPERTY VIOLATED: future.cancel() on a future returned by "
            "start_task_soon() is still blocked 15 s after start_blocking_portal() "
            "has exited and the event loop was closed (future.cancelled()=%s)"
            % future.cancelled()
        )
        return 1

    print(f"ok (future.cancel() completed: {outcome[0]!r})")
    return 0


if __name__ == "__main__":
    sys.exit(main())
