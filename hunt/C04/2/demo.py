"""
With an eager task factory (asyncio.eager_task_factory, Python 3.12+), a cancel scope
that is cancelled from an eagerly started task delivers Task.cancel() to its host task
while that host is *in the middle of a step*.  The request is parked in the host task
(`_must_cancel`) and fires at the host's next await -- wherever that is: after the
cancelled scope has been left, or inside a shielded scope.
"""

import asyncio
import sys
import threading

import anyio
from anyio import CancelScope, sleep

problems: list[str] = []


def is_anyio_cancellation(exc: BaseException) -> bool:
    return (
        isinstance(exc, asyncio.CancelledError)
        and bool(exc.args)
        and isinstance(exc.args[0], str)
        and exc.args[0].startswith("Cancelled via cancel scope ")
    )


async def canceller(scope: CancelScope) -> None:
    scope.cancel()


async def after_exit() -> None:
    """The cancellation arrives after the cancelled scope was left."""
    with CancelScope() as outer:  # never cancelled
        with CancelScope() as inner:
            # runs canceller() to completion right here (eager start)
            asyncio.get_running_loop().create_task(canceller(inner))
            assert inner.cancel_called

        # `inner` is gone (it saw no exception, cancelled_caught is False); the task is
        # now only inside `outer`, which nobody cancelled
        try:
            await sleep(0)
            await sleep(0)
        except BaseException as exc:
            if is_anyio_cancellation(exc) and not outer.cancel_called:
                problems.append(
                    "after leaving the cancelled scope, the task received an AnyIO "
                    "cancellation in a scope that is not cancelled "
                    f"(inner.cancelled_caught={inner.cancelled_caught})"
                )
            else:
                raise


async def inside_shield() -> None:
    """The cancellation arrives inside a shielded scope."""
    with CancelScope() as outer:
        asyncio.get_running_loop().create_task(canceller(outer))
        assert outer.cancel_called
        with CancelScope(shield=True) as shielded:
            try:
                await sleep(0)
                await sleep(0)
            except BaseException as exc:
                if is_anyio_cancellation(exc) and not shielded.cancel_called:
                    problems.append(
                        "code inside a shielded (and not cancelled) scope was "
                        "interrupted by the enclosing scope's cancellation"
                    )
                else:
                    raise


def eager_loop() -> asyncio.AbstractEventLoop:
    loop = asyncio.new_event_loop()
    loop.set_task_factory(asyncio.eager_task_factory)
    return loop


def watchdog() -> None:
    import os

    print("PROPERTY VIOLATED: demo hung (watchdog)")
    sys.stdout.flush()
    os._exit(1)


def main() -> int:
    if sys.version_info < (3, 12):
        print("ok (eager task factories need Python 3.12)")
        return 0

    timer = threading.Timer(50, watchdog)
    timer.daemon = True
    timer.start()
    for scenario in (after_exit, inside_shield):
        anyio.run(scenario, backend_options={"loop_factory": eager_loop})

    timer.cancel()
    if problems:
        for p in problems:
            print("PROPERTY VIOLATED:", p)
        return 1

    print("ok")
    return 0


if __name__ == "__main__":
    sys.exit(main())
