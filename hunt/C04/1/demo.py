"""
TaskGroup.start() leaks the *child's* AnyIO cancellation into the *caller's* task.

A task whose own cancel scopes are all un-cancelled (or which is inside a shielded
scope) calls ``other_tg.start(child)``.  ``other_tg`` is cancelled before the child
calls ``task_status.started()``.  The child's CancelledError ("Cancelled via cancel
scope ...") is copied into the start() future and re-raised in the caller, i.e. a task
outside the cancelled subtree receives an AnyIO cancellation exception.  When the
caller is itself a task group host, its task group then cancels all of its own
children and silently swallows the exception.
"""

import asyncio
import sys
import threading

import anyio
from anyio import CancelScope, Event, create_task_group, sleep

problems: list[str] = []


def is_anyio_cancellation(exc: BaseException) -> bool:
    return (
        isinstance(exc, asyncio.CancelledError)
        and bool(exc.args)
        and isinstance(exc.args[0], str)
        and exc.args[0].startswith("Cancelled via cancel scope ")
    )


async def slow_starter(*, task_status) -> None:
    await sleep(5)  # cancelled here, long before started() is called
    task_status.started()


async def service(ready: Event, holder: list) -> None:
    """Owns a task group that other tasks start services in; shuts down early."""
    async with create_task_group() as service_tg:
        holder.append(service_tg)
        ready.set()
        await sleep(0.05)
        service_tg.cancel_scope.cancel()


async def bystander(log: list[str]) -> None:
    try:
        await sleep(0.3)
        log.append("finished")
    except BaseException as exc:
        log.append(f"interrupted by {type(exc).__name__}")
        raise


async def scenario_other_group() -> None:
    """The caller is not in the cancelled group's subtree at all."""
    log: list[str] = []
    ready = Event()
    holder: list = []
    received: BaseException | None = None
    reached_end = False
    with CancelScope() as outer:  # never cancelled
        async with create_task_group() as main_tg:  # never cancelled by the user
            main_tg.start_soon(service, ready, holder)
            await ready.wait()
            main_tg.start_soon(bystander, log)
            try:
                await holder[0].start(slow_starter)
            except BaseException as exc:
                received = exc
                # the scopes of this task at the moment of delivery:
                if is_anyio_cancellation(exc) and not (
                    main_tg.cancel_scope.cancel_called or outer.cancel_called
                ):
                    problems.append(
                        "caller of start() received an AnyIO cancellation while none "
                        "of its own scopes was cancelled: " + repr(exc)[:70] + "...'"
                    )
                raise
            reached_end = True

    if received is not None and is_anyio_cancellation(received):
        # consequences of the leak
        if log != ["finished"]:
            problems.append(
                f"unrelated sibling task in the caller's group was {log}; caller's "
                f"group cancel_called={main_tg.cancel_scope.cancel_called}, "
                f"cancelled_caught={main_tg.cancel_scope.cancelled_caught}"
            )
        if not reached_end:
            problems.append(
                "the caller's 'async with' block was silently abandoned (no exception "
                "reached the user)"
            )


async def scenario_shielded() -> None:
    """The caller is the host of the cancelled group but inside a shield."""

    async def canceller(tg) -> None:
        await sleep(0.05)
        tg.cancel_scope.cancel()

    async with create_task_group() as tg:
        tg.start_soon(canceller, tg)
        with CancelScope(shield=True) as shield:
            try:
                await tg.start(slow_starter)
            except BaseException as exc:
                if is_anyio_cancellation(exc) and not shield.cancel_called:
                    problems.append(
                        "code inside a shielded scope was interrupted by an AnyIO "
                        "cancellation coming out of tg.start()"
                    )
                if not is_anyio_cancellation(exc):
                    return  # any ordinary error is fine here
                raise


def watchdog() -> None:
    print("PROPERTY VIOLATED: demo hung (watchdog)")
    sys.stdout.flush()
    import os

    os._exit(1)


def main() -> int:
    timer = threading.Timer(50, watchdog)
    timer.daemon = True
    timer.start()
    for scenario in (scenario_other_group, scenario_shielded):
        try:
            anyio.run(scenario)
        except BaseException as exc:  # ordinary errors are acceptable outcomes
            if is_anyio_cancellation(exc):
                problems.append(f"{scenario.__name__}: cancellation escaped run()")

    timer.cancel()
    if problems:
        for p in problems:
            print("PROPERTY VIOLATED:", p)
        return 1

    print("ok")
    return 0


if __name__ == "__main__":
    sys.exit(main())
