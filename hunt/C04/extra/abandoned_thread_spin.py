"""
Out-of-scope observation (not a containment violation, a liveness problem):
a worker thread abandoned via to_thread.run_sync(..., abandon_on_cancel=True) that later
calls from_thread.run(coro) gets its coroutine attached to the *exited* cancel scope.
The exited scope's stale parent chain still says "cancelled", so
checkpoint_if_cancelled() (used by Lock.acquire(), Semaphore.acquire(), streams, ...)
spins on sleep(0) forever, but no cancellation is ever delivered because the exited
scope is no longer reachable from the cancelled parent's _child_scopes.
"""
import sys
import time

import anyio
from anyio import from_thread, move_on_after, sleep, to_thread

log: list[str] = []


async def coro() -> None:
    log.append("coro start")
    try:
        async with anyio.Lock():  # -> checkpoint_if_cancelled() busy-loops
            log.append("got lock")
    except BaseException as exc:
        log.append(f"coro interrupted: {type(exc).__name__}")
        raise


def blocking() -> None:
    time.sleep(0.2)  # by now the caller has abandoned us
    try:
        from_thread.run(coro)
        log.append("thread: from_thread.run returned")
    except BaseException as exc:
        log.append(f"thread: {type(exc).__name__}")


async def main() -> None:
    with move_on_after(0.1):
        await to_thread.run_sync(blocking, abandon_on_cancel=True)
    await sleep(1)
    print(log)


anyio.run(main)
if log == ["coro start"]:
    print("coroutine neither progressed nor was cancelled for 0.8 s (busy-looping)")
    sys.exit(1)
