"""anyio.functools.reduce() rejects iterables that only implement the sequence protocol
(__getitem__ with 0-based ints + IndexError), which functools.reduce() - and every function in
anyio.itertools - accepts.

Run:  PYTHONPATH=/tmp/hunt_C19/src /venv/bin/python demo.py
"""
import asyncio
import functools
import signal
import sys

import anyio.itertools as aitertools
from anyio.functools import reduce as areduce

signal.alarm(50)  # watchdog


class Row:
    """Legacy-style sequence: iterable through __getitem__ only (no __iter__)."""

    def __init__(self, *values):
        self._values = values

    def __getitem__(self, index):
        return self._values[index]


async def add(a, b):
    await asyncio.sleep(0)
    return a + b


async def main() -> int:
    failures = []
    for label, args in (("no initial", ()), ("initial=10", (10,))):
        expected = functools.reduce(lambda a, b: a + b, Row(1, 2, 3), *args)
        try:
            got = await areduce(add, Row(1, 2, 3), *args)
        except Exception as exc:
            failures.append(
                f"reduce(add, Row(1, 2, 3)) [{label}]: functools.reduce -> {expected}, "
                f"anyio.functools.reduce raised {type(exc).__name__}: {exc}"
            )
        else:
            if got != expected:
                failures.append(f"[{label}] expected {expected}, got {got}")

    # for comparison: the sibling module accepts the very same object
    assert [x async for x in aitertools.accumulate(Row(1, 2, 3))] == [1, 3, 6]

    # a real non-iterable must still be refused with TypeError
    try:
        await areduce(add, 5)
    except TypeError:
        pass
    else:
        failures.append("reduce(add, 5) did not raise TypeError")

    if failures:
        for f in failures:
            print("PROPERTY VIOLATED:", f)
        return 1

    print("ok")
    return 0


sys.exit(asyncio.run(main()))
