"""tee(): an element of the source is silently lost when the task of ONE consumer is cancelled
(task.cancel() / asyncio.timeout() / asyncio.wait_for()) in the event-loop cycle right after the
element was pulled from a synchronous source; the OTHER, untouched consumer then never sees that
element.  A second variant loses a buffered element for the cancelled-and-retrying consumer itself.

Run:  PYTHONPATH=/tmp/hunt_C19/src /venv/bin/python demo.py
"""
import asyncio
import signal
import sys

from anyio.itertools import tee

signal.alarm(50)  # watchdog
SOURCE = [0, 1, 2, 3]


async def drain(iterator):
    return [x async for x in iterator]


async def cancel_after(coro, cycles):
    """Run coro in a task, cancel the task after `cycles` event loop cycles.
    Returns ('value', v) if it finished first, else ('cancelled',)."""
    task = asyncio.ensure_future(coro)
    for _ in range(cycles):
        await asyncio.sleep(0)
    task.cancel()
    try:
        return ("value", await task)
    except asyncio.CancelledError:
        return ("cancelled",)


async def scenario_other_consumer(cycles, failures):
    # Consumer A (own task) is cancelled `cycles` cycles into its first anext(); consumer B is
    # never cancelled and must still observe the complete source sequence.
    source = iter(SOURCE)
    a, b = tee(source)
    outcome = await cancel_after(anext(a), cycles)
    seen_b = await drain(b)
    if seen_b != SOURCE:
        failures.append(
            f"consumer A's task cancelled {cycles} cycle(s) into anext(a) ({outcome[0]}): the "
            f"untouched consumer B observed {seen_b} instead of {SOURCE}"
        )


async def scenario_same_consumer(cycles, failures):
    # B has already buffered everything; A's anext() is cancelled and A simply retries.
    a, b = tee(SOURCE)
    assert await drain(b) == SOURCE
    seen_a = []
    outcome = await cancel_after(anext(a), cycles)
    if outcome[0] == "value":
        seen_a.append(outcome[1])
    seen_a += await drain(a)
    if seen_a != SOURCE:
        failures.append(
            f"anext(a) cancelled after {cycles} cycle(s) ({outcome[0]}) on a buffered element, "
            f"then retried: consumer A observed {seen_a} instead of {SOURCE}"
        )


async def main() -> int:
    failures = []
    for cycles in range(0, 6):
        await scenario_other_consumer(cycles, failures)
        await scenario_same_consumer(cycles, failures)

    if failures:
        for f in failures:
            print("PROPERTY VIOLATED:", f)
        return 1

    print("ok")
    return 0


sys.exit(asyncio.run(main()))
