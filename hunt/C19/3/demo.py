"""islice(source, start, stop) with start >= stop > ... : itertools.islice() consumes (skips) the first
`start` elements of the source even though it yields nothing; anyio.itertools.islice() consumes
min(start, stop) - or nothing at all when start == stop - so whatever reads the shared source next
(e.g. the second argument of chain()) produces a different sequence than with the standard library.

Run:  PYTHONPATH=/tmp/hunt_C19/src /venv/bin/python demo.py
"""
import asyncio
import itertools
import signal
import sys

import anyio.itertools as aitertools

signal.alarm(50)  # watchdog
N = 8


async def agen(n):
    for i in range(n):
        await asyncio.sleep(0)
        yield i


async def collect(ait):
    return [x async for x in ait]


async def main() -> int:
    failures = []
    params = [None, 0, 1, 2, 3, 5]
    arg_sets = [(p,) for p in params]
    arg_sets += [(p, q) for p in params for q in params]
    arg_sets += [(p, q, r) for p in params for q in params for r in (None, 1, 2, 3)]

    for args in arg_sets:
        # reference: itertools.chain(itertools.islice(src, *args), src) on one shared iterator
        src = iter(range(N))
        expected = list(itertools.chain(itertools.islice(src, *args), src))

        for label, make in (("sync iterator", lambda: iter(range(N))), ("async iterator", lambda: agen(N))):
            asrc = make()
            got = await collect(aitertools.chain(aitertools.islice(asrc, *args), asrc))
            if got != expected:
                failures.append(
                    f"chain(islice(src, {', '.join(map(str, args))}), src) over src=range({N}) "
                    f"[{label}]: itertools -> {expected}, anyio -> {got}"
                )

    if failures:
        for f in failures[:12]:
            print("PROPERTY VIOLATED:", f)
        if len(failures) > 12:
            print(f"... and {len(failures) - 12} more parameter combinations")
        return 1

    print("ok")
    return 0


sys.exit(asyncio.run(main()))
