"""anyio.itertools.groupby() splits a run of keys that itertools.groupby() keeps together.

itertools.groupby() decides "same group" with PyObject_RichCompareBool(old_key, new_key, Py_EQ),
i.e. ``old is new or old == new``.  anyio.itertools.groupby() uses ``new != old`` instead, so a
key that is not equal to itself (float('nan') / math.nan / numpy.nan / Decimal('NaN'), ...) starts
a new group for every element, where the standard library yields one group.

Run:  PYTHONPATH=/tmp/hunt_C19/src /venv/bin/python demo.py
"""
import asyncio
import itertools
import math
import signal
import sys
from decimal import Decimal

import anyio.itertools as aitertools

signal.alarm(50)  # watchdog


async def aiter_from(seq):
    for x in seq:
        await asyncio.sleep(0)
        yield x


def shape(groups):
    # NaN != NaN, so compare by identity of the keys/elements instead of by value
    return [(id(k), [id(v) for v in vs]) for k, vs in groups]


async def main() -> int:
    nan = math.nan
    dnan = Decimal("NaN")
    failures = []

    async def nan_key(x):
        return nan

    cases = [
        ("groupby([nan, nan, 1.0, 1.0])", [nan, nan, 1.0, 1.0], None, None),
        ("groupby([1.0, nan, nan, nan])", [1.0, nan, nan, nan], None, None),
        ("groupby([Decimal('NaN')] * 3)", [dnan, dnan, dnan], None, None),
        ("groupby([1, 2, 3], key=lambda x: nan)", [1, 2, 3], (lambda x: nan), nan_key),
    ]
    for label, data, skey, akey in cases:
        expected = [(k, list(g)) for k, g in itertools.groupby(data, skey)]
        for src_label, src in (("sync source", data), ("async source", aiter_from(data))):
            got = [item async for item in aitertools.groupby(src, akey)]
            if shape(got) != shape(expected):
                failures.append(
                    f"{label} [{src_label}]: itertools gives {len(expected)} group(s) "
                    f"{expected!r}, anyio gives {len(got)} group(s) {got!r}"
                )

    if failures:
        for f in failures:
            print("PROPERTY VIOLATED:", f)
        return 1

    print("ok")
    return 0


sys.exit(asyncio.run(main()))
