"""
CapacityLimiter (asyncio backend): two acquire_on_behalf_of() calls that wait for the
same borrower share ONE wait-queue slot (the queue is a dict keyed by the borrower).
The second call silently overwrites the first caller's wake-up event, and whichever
of the two is cancelled first deletes the slot of the other one.  Result: a waiter
that is never woken although tokens are free (lost waiter / FIFO violation) and a
tasks_waiting statistic that under-counts.

Run:  PYTHONPATH=<worktree>/src python demo.py
"""
import asyncio
import sys

import anyio
from anyio import CapacityLimiter

problems: list[str] = []


async def settle(n: int = 10) -> None:
    for _ in range(n):
        await asyncio.sleep(0)


async def acquirer(lim: CapacityLimiter, borrower: object, out: dict, name: str) -> None:
    out[name] = "blocked"
    try:
        await lim.acquire_on_behalf_of(borrower)
    except asyncio.CancelledError:
        out[name] = "cancelled"
        raise
    except RuntimeError as exc:  # acceptable: the duplicate is rejected outright
        out[name] = f"rejected ({exc})"
        return

    out[name] = "holding"


async def scenario_restart() -> None:
    """Cancel a queued request for a key and issue a new one for the same key."""
    lim = CapacityLimiter(1)
    lim.acquire_on_behalf_of_nowait("other user")  # the only token is taken
    key = ("user", 42)  # any hashable object is a legal borrower
    out: dict[str, str] = {}

    t1 = asyncio.ensure_future(acquirer(lim, key, out, "old request"))
    await settle()
    assert out["old request"] == "blocked"

    # same event-loop cycle: start the replacement, then cancel the old request
    t2 = asyncio.ensure_future(acquirer(lim, ("user", 42), out, "new request"))
    t1.cancel()
    await settle()

    blocked = [n for n, s in out.items() if s == "blocked"]
    waiting = lim.statistics().tasks_waiting
    if waiting != len(blocked):
        problems.append(
            f"[restart] statistics().tasks_waiting == {waiting} but {len(blocked)} "
            f"task(s) are blocked in acquire_on_behalf_of(): {out}"
        )

    lim.release_on_behalf_of("other user")  # now a token is free
    await settle()
    blocked = [n for n, s in out.items() if s == "blocked"]
    if blocked and lim.available_tokens > 0:
        problems.append(
            f"[restart] {blocked} still blocked forever although available_tokens == "
            f"{lim.available_tokens} and tasks_waiting == "
            f"{lim.statistics().tasks_waiting}: cancelling the old waiter removed the "
            f"new waiter's queue entry"
        )

    for t in (t1, t2):
        t.cancel()
    await asyncio.gather(t1, t2, return_exceptions=True)


async def scenario_fifo() -> None:
    """Two tasks wait for the same borrower; one token is released, then given back."""
    lim = CapacityLimiter(1)
    lim.acquire_on_behalf_of_nowait("other user")
    key = "job-7"
    out: dict[str, str] = {}

    t1 = asyncio.ensure_future(acquirer(lim, key, out, "first caller"))
    await settle()
    t2 = asyncio.ensure_future(acquirer(lim, key, out, "second caller"))
    await settle()

    blocked = [n for n, s in out.items() if s == "blocked"]
    waiting = lim.statistics().tasks_waiting
    if waiting != len(blocked):
        problems.append(
            f"[fifo] statistics().tasks_waiting == {waiting} but {len(blocked)} tasks "
            f"are blocked in acquire_on_behalf_of()"
        )

    lim.release_on_behalf_of("other user")
    await settle()
    if out["second caller"] == "holding" and out["first caller"] == "blocked":
        problems.append(
            "[fifo] the token went to the SECOND caller while the first caller, which "
            "queued earlier, is still blocked (not first come first served)"
        )

    # whoever holds the token for `key` gives it back -> limiter completely free
    if key in lim.statistics().borrowers:
        lim.release_on_behalf_of(key)
    await settle()
    blocked = [n for n, s in out.items() if s == "blocked"]
    if blocked and lim.available_tokens > 0 and key not in lim.statistics().borrowers:
        problems.append(
            f"[fifo] {blocked} blocked forever: borrowed_tokens == "
            f"{lim.borrowed_tokens}, available_tokens == {lim.available_tokens}, "
            f"tasks_waiting == {lim.statistics().tasks_waiting}"
        )

    for t in (t1, t2):
        t.cancel()
    await asyncio.gather(t1, t2, return_exceptions=True)


async def main() -> None:
    await scenario_restart()
    await scenario_fifo()


if __name__ == "__main__":
    print("anyio from", anyio.__file__)
    try:
        asyncio.run(asyncio.wait_for(main(), 30))  # watchdog
    except asyncio.TimeoutError:
        problems.append("watchdog: demo hung")

    if problems:
        for p in problems:
            print("PROPERTY VIOLATED:", p)
        sys.exit(1)

    print("ok")
