"""
TaskGroup.start(): the child's pre-started() failure is silently discarded when the
caller of start() is cancelled natively (Task.cancel() / asyncio.timeout() /
asyncio.wait_for()) in the same event loop iteration in which the failure was handed
over to start().

Run:  PYTHONPATH=<worktree>/src python demo.py
Prints "PROPERTY VIOLATED: ..." and exits 1 on the buggy tree, "ok" / exit 0 when fixed.
"""

from __future__ import annotations

import asyncio
import sys
import threading
import os

import anyio
from anyio import create_task_group


class ChildFailed(Exception):
    pass


def flatten(exc: BaseException | None) -> list[BaseException]:
    if exc is None:
        return []
    if isinstance(exc, BaseExceptionGroup):
        out: list[BaseException] = []
        for sub in exc.exceptions:
            out += flatten(sub)
        return out
    return [exc]


async def scenario(use_timeout: bool) -> list[str]:
    """
    cycle c   : child (2nd step) raises ChildFailed before task_status.started()
    cycle c+1 : the group's done callback hands ChildFailed over to start()'s future
                (start() is now merely waiting to be resumed)
                ... and, later in the same cycle, the caller is cancelled natively
    cycle c+2 : start() resumes
    """
    problems: list[str] = []
    loop = asyncio.get_running_loop()
    unhandled: list[dict] = []
    loop.set_exception_handler(lambda _loop, ctx: unhandled.append(ctx))

    child_exc = ChildFailed("bind failed")
    seen: dict[str, BaseException | None] = {"start": None, "caller": None, "group": None}
    timeout_cm: asyncio.Timeout | None = None

    async def child(*, task_status: anyio.abc.TaskStatus[None]) -> None:
        await asyncio.sleep(0)
        raise child_exc  # never calls task_status.started()

    async def caller(tg: anyio.abc.TaskGroup) -> None:
        nonlocal timeout_cm
        async def do_start() -> None:
            try:
                await tg.start(child)
            except BaseException as exc:
                seen["start"] = exc
                raise

        if use_timeout:
            async with asyncio.timeout(3600) as timeout_cm:
                await do_start()
        else:
            await do_start()

    async def canceller(task: asyncio.Task) -> None:
        # Created after the child task, so in every cycle it runs right after it.
        if use_timeout:
            await asyncio.sleep(0)
            # c: make the asyncio.timeout() expire "now"; its callback
            # runs in cycle c+1, right after the done callback of the child
            assert timeout_cm is not None
            timeout_cm.reschedule(loop.time() - 1)
        else:
            await asyncio.sleep(0)
            await asyncio.sleep(0)
            # c+1: the child's done callback has just run
            task.cancel()

    try:
        async with create_task_group() as tg:
            caller_task = loop.create_task(caller(tg))
            await asyncio.sleep(0)  # caller runs up to "await future" in start()
            canceller_task = loop.create_task(canceller(caller_task))
            try:
                await caller_task
            except BaseException as exc:
                seen["caller"] = exc
            await canceller_task
    except BaseException as exc:
        seen["group"] = exc

    surfaced = any(
        child_exc in flatten(exc) or child_exc in [
            e.__cause__ for e in flatten(exc)
        ] + [e.__context__ for e in flatten(exc)]
        for exc in seen.values()
    )
    logged = any(ctx.get("exception") is child_exc for ctx in unhandled)
    label = "asyncio.timeout()" if use_timeout else "Task.cancel()"
    if not isinstance(seen["start"], (asyncio.CancelledError, ChildFailed)):
        problems.append(
            f"[{label}] scenario did not hit the window (start() raised "
            f"{seen['start']!r}); demo needs adjusting"
        )
    elif not surfaced and not logged:
        problems.append(
            f"[{label}] the child raised {child_exc!r} before calling started(), but "
            f"start() raised {seen['start']!r}, the caller saw {seen['caller']!r}, "
            f"the task group raised {seen['group']!r} and nothing was logged: the "
            f"child's exception was silently discarded"
        )
    return problems


def watchdog() -> None:
    print("PROPERTY VIOLATED: demo hung (watchdog)")
    sys.stdout.flush()
    os._exit(1)


def main() -> int:
    timer = threading.Timer(50, watchdog)
    timer.daemon = True
    timer.start()
    problems: list[str] = []
    for use_timeout in (False, True):
        problems += asyncio.run(scenario(use_timeout))

    timer.cancel()
    if problems:
        for problem in problems:
            print("PROPERTY VIOLATED:", problem)
        return 1

    print("ok")
    return 0


if __name__ == "__main__":
    sys.exit(main())
