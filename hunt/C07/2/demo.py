"""
task_status.started() raises a spurious TypeError / KeyError (after having delivered the
start value) when the child signals readiness from anywhere else than an AnyIO-known
task: a worker thread via from_thread.run_sync(), an event loop callback, or a helper
asyncio task. start() returns the value, and then the child - which should now be an
ordinary member of the group - is killed by the bogus error and takes the group down.

Run:  PYTHONPATH=<worktree>/src python demo.py
"""

from __future__ import annotations

import asyncio
import os
import sys
import threading

import anyio
from anyio import create_task_group, from_thread, get_current_task, to_thread
from anyio.abc import TaskStatus


async def via_worker_thread(*, task_status: TaskStatus[str]) -> None:
    # blocking initialisation done in a worker thread, which reports readiness itself
    def blocking_init() -> None:
        from_thread.run_sync(task_status.started, "ready")

    await to_thread.run_sync(blocking_init)
    await anyio.sleep(0.05)  # "serve"


async def via_loop_callback(*, task_status: TaskStatus[str]) -> None:
    # readiness reported from a plain event loop callback (e.g. a protocol callback)
    errors: list[BaseException] = []
    done = asyncio.Event()

    def callback() -> None:
        try:
            task_status.started("ready")
        except BaseException as exc:
            errors.append(exc)
        finally:
            done.set()

    asyncio.get_running_loop().call_soon(callback)
    await done.wait()
    if errors:
        raise errors[0]
    await anyio.sleep(0.05)


async def via_helper_task(*, task_status: TaskStatus[str]) -> None:
    # readiness reported from a helper asyncio task
    async def helper() -> None:
        task_status.started("ready")

    await asyncio.create_task(helper())
    await anyio.sleep(0.05)


async def check(func) -> list[str]:  # type: ignore[no-untyped-def]
    problems: list[str] = []
    value = None
    starter_parent_before = starter_parent_after = None
    try:
        async with create_task_group() as tg:
            starter_parent_before = get_current_task().parent_id
            value = await tg.start(func)
            starter_parent_after = get_current_task().parent_id
    except BaseException as exc:
        problems.append(
            f"{func.__name__}: start() returned {value!r}, but the FIRST (and only) "
            f"task_status.started() call raised and killed the child; task group "
            f"raised {exc!r} {getattr(exc, 'exceptions', '')}"
        )
    else:
        if value != "ready":
            problems.append(f"{func.__name__}: start() returned {value!r}")

    return problems


async def amain() -> list[str]:
    problems: list[str] = []
    for func in (via_worker_thread, via_loop_callback, via_helper_task):
        problems += await check(func)
    return problems


def watchdog() -> None:
    print("PROPERTY VIOLATED: demo hung (watchdog)")
    sys.stdout.flush()
    os._exit(1)


def main() -> int:
    timer = threading.Timer(50, watchdog)
    timer.daemon = True
    timer.start()
    problems = asyncio.run(amain())
    timer.cancel()
    if problems:
        for problem in problems:
            print("PROPERTY VIOLATED:", problem)
        return 1

    print("ok")
    return 0


if __name__ == "__main__":
    sys.exit(main())
