"""
With an eager task factory (asyncio.eager_task_factory, Python 3.12+; AnyIO explicitly
supports it), a cancel scope can be cancelled by an eagerly started child *while the host
task is in the middle of a step*.  CancelScope._deliver_cancellation() then calls
Task.cancel() on the (running, but not "current") host task, which can only take effect at
the host's NEXT await.  If the host leaves the scope before awaiting, the CancelledError
meant for the scope is raised at the first await AFTER the scope - nobody swallows it.

On Python 3.12 Task.uncancel() does not clear the task's pending "must cancel" flag, so the
scope's uncancel() on exit does not help.  (Python 3.13+ clears the flag when the
cancellation count drops to zero, which hides the bug unless the count was > 0 on entry.)

Run:  PYTHONPATH=<worktree>/src python demo.py
"""

from __future__ import annotations

import asyncio
import signal
import sys

import anyio
from anyio import CancelScope

violations: list[str] = []


async def scenario_plain() -> None:
    async def child(scope: CancelScope) -> None:
        scope.cancel()  # runs synchronously inside the parent's create_task() call
        await asyncio.sleep(0)

    host = asyncio.current_task()
    assert host is not None
    before = host.cancelling()
    with CancelScope() as scope:
        child_task = asyncio.create_task(child(scope))
        # no await here: the scope is left in the same step in which it was cancelled

    after = host.cancelling()
    try:
        await asyncio.sleep(0.01)
    except asyncio.CancelledError as exc:
        violations.append(
            "first await after leaving the (already exited) cancel scope raised "
            f"CancelledError({exc.args[0][:45]}...); cancelling() before/after scope = "
            f"{before}/{after}"
        )
        while host.cancelling() > before:
            host.uncancel()

    await child_task


async def scenario_nonzero_baseline() -> None:
    """
    Variant that also fails on Python 3.13+: the host task is in the cleanup phase of a
    native cancellation (cancelling() == 1), so the scope's uncancel() does not bring the
    count to zero and the pending "must cancel" flag survives the scope there too.
    """

    async def child(scope: CancelScope) -> None:
        scope.cancel()
        await asyncio.sleep(0)

    host = asyncio.current_task()
    assert host is not None
    host.cancel()
    try:
        await asyncio.sleep(0)
    except asyncio.CancelledError:
        pass  # natively cancelled task, now running its (edge-cancelled) cleanup code

    before = host.cancelling()
    with CancelScope() as scope:
        child_task = asyncio.create_task(child(scope))

    after = host.cancelling()
    try:
        await asyncio.sleep(0.01)
    except asyncio.CancelledError:
        violations.append(
            "cleanup await after leaving the cancel scope was interrupted; cancelling() "
            f"before/after scope = {before}/{after}"
        )

    host.uncancel()
    await child_task


async def scenario_shield() -> None:
    """Same root cause: the late CancelledError even penetrates a shielded scope."""

    async def child(scope: CancelScope) -> None:
        scope.cancel()
        await asyncio.sleep(0)

    with CancelScope() as outer:
        child_task = asyncio.create_task(child(outer))
        with CancelScope(shield=True):
            try:
                await asyncio.sleep(0.01)
            except asyncio.CancelledError:
                violations.append(
                    "await inside a shielded scope was interrupted by the enclosing "
                    "scope's cancellation"
                )

    await child_task


async def main() -> None:
    asyncio.get_running_loop().set_task_factory(asyncio.eager_task_factory)
    for scenario in (scenario_plain, scenario_nonzero_baseline, scenario_shield):
        task = asyncio.get_running_loop().create_task(scenario())
        done, pending = await asyncio.wait([task], timeout=10)
        if pending:
            violations.append(f"{scenario.__name__}: watchdog timeout")
            task.cancel()
        elif task.exception() is not None:
            violations.append(f"{scenario.__name__}: {task.exception()!r}")


if __name__ == "__main__":
    if hasattr(signal, "alarm"):
        signal.alarm(50)

    if not hasattr(asyncio, "eager_task_factory"):
        print("ok (eager task factories need Python 3.12+)")
        sys.exit(0)

    anyio.run(main, backend="asyncio")
    if violations:
        for v in violations:
            print("PROPERTY VIOLATED:", v)
        sys.exit(1)

    print("ok")
