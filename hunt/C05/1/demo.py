"""
A native asyncio cancellation request (Task.cancel(), asyncio.timeout(), asyncio.wait_for(),
asyncio.TaskGroup abort) that reaches a task while it is inside an AnyIO cancel scope that
has *also* been cancelled is silently swallowed when that scope exits.  The native construct
around the scope then behaves differently than if the scope had never been cancelled: the
timeout never fires / the task ignores Task.cancel() and keeps running.

Run:  PYTHONPATH=<worktree>/src python demo.py
Prints "PROPERTY VIOLATED: ..." and exits 1 on the buggy tree, "ok" and exits 0 when fixed.
Only public API (anyio + asyncio) is used; no wall-clock races: all orderings are forced
with events / call_soon.
"""

from __future__ import annotations

import asyncio
import signal
import sys

import anyio
from anyio import CancelScope, create_task_group

violations: list[str] = []


# ---------------------------------------------------------------------------------------
# Scenario A: Task.cancel() arrives while the task runs shielded cleanup code for a
# cancelled scope.  Expected: the task ends up cancelled.  Actual: it runs to completion.
# ---------------------------------------------------------------------------------------
async def scenario_a() -> None:
    in_cleanup = asyncio.Event()
    progress: list[str] = []

    async def worker() -> str:
        with CancelScope() as scope:
            scope.cancel()
            try:
                await asyncio.sleep(10)  # interrupted by the scope's own cancellation
            finally:
                with CancelScope(shield=True):  # typical "async cleanup" idiom
                    in_cleanup.set()
                    await asyncio.sleep(0.05)  # <- the native cancellation lands here

        # The scope has been left.  Task.cancel() was requested and never "uncancelled"
        # by anybody, so this code must not be running.
        progress.append(f"after scope: cancelling()={asyncio.current_task().cancelling()}")
        await asyncio.sleep(0.05)
        progress.append("second await completed undisturbed")
        return "worker ran to completion"

    task = asyncio.create_task(worker())
    await in_cleanup.wait()
    task.cancel()  # plain, native asyncio cancellation
    try:
        result = await task
    except asyncio.CancelledError:
        return  # expected

    violations.append(
        f"A: Task.cancel() was swallowed by the exiting cancel scope: {result!r}; "
        f"{progress}"
    )


# ---------------------------------------------------------------------------------------
# Scenario B: the same thing with asyncio.timeout() *around* the AnyIO scope.
# Expected: TimeoutError.  Actual: the block runs to its end, no TimeoutError at all.
# ---------------------------------------------------------------------------------------
async def scenario_b() -> None:
    loop = asyncio.get_running_loop()
    try:
        async with asyncio.timeout(None) as native_timeout:
            with CancelScope() as scope:
                scope.cancel()
                try:
                    await asyncio.sleep(10)
                finally:
                    with CancelScope(shield=True):
                        # make the native timeout expire right now, during the cleanup
                        native_timeout.reschedule(loop.time())
                        await asyncio.sleep(0.05)

            await asyncio.sleep(0.05)  # must not complete: the timeout has expired
            violations.append(
                "B: asyncio.timeout() around a cancelled AnyIO scope expired "
                f"(expired()={native_timeout.expired()}) but the body kept running"
            )
    except TimeoutError:
        return  # expected

    if not violations or not violations[-1].startswith("B:"):
        violations.append("B: asyncio.timeout() expired but raised no TimeoutError")


# ---------------------------------------------------------------------------------------
# Scenario C: no shielded cleanup, no exception chaining involved: the scope's cancellation
# and a native Task.cancel() hit the task in the same event loop iteration.
# ---------------------------------------------------------------------------------------
async def scenario_c() -> None:
    loop = asyncio.get_running_loop()
    started = asyncio.Event()

    async def worker() -> str:
        with CancelScope() as scope:
            loop.call_soon(scope.cancel)  # 1st callback of the next iteration
            loop.call_soon(asyncio.current_task().cancel)  # 2nd callback, same iteration
            started.set()
            await asyncio.sleep(10)

        await asyncio.sleep(0.05)
        return "worker ran to completion"

    task = asyncio.create_task(worker())
    await started.wait()
    try:
        result = await task
    except asyncio.CancelledError:
        return  # expected

    violations.append(
        f"C: Task.cancel() issued in the same loop iteration as CancelScope.cancel() "
        f"was swallowed: {result!r}"
    )


# ---------------------------------------------------------------------------------------
# Scenario D: task group flavour: the group's own scope is cancelled, the host waits in
# __aexit__ for a child doing shielded cleanup, and Task.cancel() arrives meanwhile.
# ---------------------------------------------------------------------------------------
async def scenario_d() -> None:
    child_in_cleanup = asyncio.Event()

    async def child() -> None:
        try:
            await asyncio.sleep(10)
        finally:
            with CancelScope(shield=True):
                child_in_cleanup.set()
                await asyncio.sleep(0.05)

    async def worker() -> str:
        async with create_task_group() as tg:
            tg.start_soon(child)
            await asyncio.sleep(0)
            tg.cancel_scope.cancel()
            await asyncio.sleep(10)

        await asyncio.sleep(0.05)
        return "worker ran to completion"

    task = asyncio.create_task(worker())
    await child_in_cleanup.wait()
    await asyncio.sleep(0.01)  # host is now parked in TaskGroup.__aexit__
    task.cancel()
    try:
        result = await task
    except asyncio.CancelledError:
        return  # expected

    violations.append(
        f"D: Task.cancel() on a task waiting in TaskGroup.__aexit__ was swallowed: "
        f"{result!r}"
    )


async def main() -> None:
    CancelScope()  # make sure the backend is imported before anything is timed
    for scenario in (scenario_a, scenario_b, scenario_c, scenario_d):
        try:
            await asyncio.wait_for(scenario(), 10)
        except (asyncio.TimeoutError, TimeoutError):
            violations.append(f"{scenario.__name__}: watchdog timeout (hang)")


if __name__ == "__main__":
    if hasattr(signal, "alarm"):
        signal.alarm(50)  # hard watchdog

    if sys.version_info < (3, 11):
        print("ok (needs Python 3.11+ for asyncio.timeout / Task.cancelling)")
        sys.exit(0)

    anyio.run(main, backend="asyncio")
    if violations:
        for v in violations:
            print("PROPERTY VIOLATED:", v)
        sys.exit(1)

    print("ok")
