"""
A worker thread that was abandoned because its host task's cancel scope was cancelled
(``to_thread.run_sync(..., abandon_on_cancel=True)`` inside ``move_on_after()``) calls
``from_thread.run()``.  The coroutine is registered in the (already exited) cancel scope
of the abandoned call.  AnyIO then *considers* that task cancelled
(``has_pending_cancellation()`` is True, ``current_effective_deadline()`` is -inf,
``from_thread.check_cancelled()`` raises) but nothing ever delivers the cancellation:

* ``anyio.sleep()`` / ``Event.wait()`` are not interrupted, and
* everything built on ``checkpoint_if_cancelled()`` (``Lock.acquire()``,
  ``Semaphore.acquire()``, ``CapacityLimiter.acquire()`` ...) busy-loops forever: it is
  neither interrupted with the cancellation exception nor allowed to complete.

Run with:  PYTHONPATH=<worktree>/src python demo.py
Exit code 1 + "PROPERTY VIOLATED: ..." on the buggy tree, "ok" + exit code 0 otherwise.
"""

from __future__ import annotations

import asyncio
import os
import sys
import threading

import anyio
from anyio import Lock, from_thread, get_cancelled_exc_class, to_thread

# hard watchdog: never hang the caller
_watchdog = threading.Timer(
    50, lambda: (print("PROPERTY VIOLATED: demo hung (watchdog)"), os._exit(1))
)
_watchdog.daemon = True
_watchdog.start()

LOCK_BUDGET = 2.0  # seconds an *uncontended* Lock.acquire() gets before we call it stuck


async def run_case(loop_name: str) -> list[str]:
    problems: list[str] = []
    host_left_scope = threading.Event()
    thread_done = threading.Event()
    report: dict[str, object] = {}

    async def called_from_abandoned_thread() -> None:
        # Runs in the event loop, on behalf of the abandoned worker thread
        report["pending"] = anyio.get_current_task().has_pending_cancellation()
        report["deadline"] = anyio.current_effective_deadline()

        # 1. an operation that has to wait: must be interrupted if the task is in a
        #    cancelled scope
        await anyio.sleep(0.05)
        report["sleep_completed"] = True

        # 2. an operation that does not have to wait at all: must either be interrupted
        #    or complete, within a few event loop cycles
        lock = Lock()
        try:
            async with asyncio.timeout(LOCK_BUDGET):  # native timeout, only a probe
                await lock.acquire()
        except TimeoutError:
            report["lock"] = "stuck"
        else:
            report["lock"] = "acquired"
            lock.release()

    def worker() -> None:
        try:
            host_left_scope.wait(10)  # the host has given up on us by now
            try:
                from_thread.check_cancelled()
                report["check_cancelled"] = "not cancelled"
            except BaseException as exc:
                report["check_cancelled"] = type(exc).__name__

            try:
                from_thread.run(called_from_abandoned_thread)
                report["outcome"] = "completed"
            except BaseException as exc:  # concurrent.futures.CancelledError if cancelled
                report["outcome"] = type(exc).__name__
        finally:
            thread_done.set()

    with anyio.move_on_after(0.05) as scope:
        await to_thread.run_sync(worker, abandon_on_cancel=True)

    assert scope.cancelled_caught  # the host was interrupted and abandoned the thread
    host_left_scope.set()
    while not thread_done.is_set():
        await asyncio.sleep(0.01)

    print(f"[{loop_name}] {report}")
    interrupted = report.get("outcome") == "CancelledError" and not report.get(
        "sleep_completed"
    )
    if interrupted:
        return problems  # consistent: treated as cancelled, and really interrupted

    if report.get("lock") == "stuck":
        problems.append(
            f"[{loop_name}] uncontended Lock.acquire() was neither interrupted nor "
            f"completed within {LOCK_BUDGET} s (checkpoint_if_cancelled() busy-loops)"
        )

    if report.get("pending") and report.get("sleep_completed"):
        problems.append(
            f"[{loop_name}] task reported has_pending_cancellation()=True / effective "
            f"deadline {report.get('deadline')} but sleep() was not interrupted"
        )

    return problems


def main() -> int:
    def eager_loop() -> asyncio.AbstractEventLoop:
        loop = asyncio.new_event_loop()
        loop.set_task_factory(asyncio.eager_task_factory)
        return loop

    configs: list[tuple[str, dict[str, object]]] = [
        ("asyncio", {}),
        ("asyncio+eager", {"loop_factory": eager_loop}),
    ]
    try:
        import uvloop  # noqa: F401

        configs.append(("asyncio+uvloop", {"use_uvloop": True}))
    except ImportError:
        pass

    problems: list[str] = []
    for name, options in configs:
        problems += anyio.run(
            run_case, name, backend="asyncio", backend_options=options
        )

    if problems:
        print(
            "PROPERTY VIOLATED: a task in a cancelled scope (started by from_thread.run() "
            "from an abandoned worker thread) is never interrupted; "
            + "; ".join(problems)
        )
        return 1

    print("ok")
    return 0


if __name__ == "__main__":
    rc = main()
    sys.stdout.flush()
    os._exit(rc)
