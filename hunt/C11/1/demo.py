"""
Condition keeps a private shadow copy of "who holds the lock" (Condition._owner_task)
instead of asking its Lock.  As soon as the (user supplied, shareable) lock is
acquired or released through anything but this very Condition object, the shadow copy
is wrong and notify()/notify_all()/wait() are accepted/refused on the wrong grounds.

Run:  PYTHONPATH=/tmp/hunt_C11/src /venv/bin/python demo.py
"""

import sys

import anyio
from anyio import Condition, Lock, create_task_group, move_on_after

violations: list[str] = []


async def scenario_accept_without_lock() -> None:
    """notify()/notify_all() accepted, and wait() leaves a ghost waiter behind, although
    the calling task does NOT hold the condition's lock."""
    lock = Lock()
    cond = Condition(lock)

    await cond.acquire()  # acquire through the condition ...
    lock.release()  # ... release through the (very same) lock object
    assert not lock.locked() and not cond.locked()

    for name, op in (("notify()", cond.notify), ("notify_all()", cond.notify_all)):
        try:
            op()
        except RuntimeError:
            pass
        else:
            violations.append(
                f"{name} was accepted although the calling task does not hold the "
                f"condition's lock (lock.locked() is False)"
            )

    # wait() is "refused" only by accident (Lock.release() raises), *after* the waiter
    # entry has already been queued -> a ghost waiter stays behind ...
    try:
        with move_on_after(1):
            await cond.wait()
    except RuntimeError:
        pass

    ghosts = cond.statistics().tasks_waiting
    if ghosts:
        violations.append(
            f"refused wait() left {ghosts} ghost waiter(s) in the condition's queue"
        )

    # ... which swallows the next notification: a lost wake-up for a genuine waiter.
    woke = False

    async def genuine_waiter() -> None:
        nonlocal woke
        async with cond:
            await cond.wait()
            woke = True

    async with create_task_group() as tg:
        tg.start_soon(genuine_waiter)
        while cond.statistics().tasks_waiting < ghosts + 1:
            await anyio.sleep(0)

        async with cond:
            cond.notify(1)  # exactly one genuine task is waiting at this moment

        with move_on_after(1):  # watchdog
            while not woke:
                await anyio.sleep(0.01)

        if not woke:
            violations.append(
                "lost wake-up: notify(1) with exactly one task waiting released nobody "
                "(the notification was consumed by the ghost waiter)"
            )
            tg.cancel_scope.cancel()


async def scenario_refuse_with_lock() -> None:
    """The mirror image: the calling task DOES hold the condition's lock but is refused.
    This is the classic "two conditions sharing one lock" bounded buffer."""
    lock = Lock()
    not_full = Condition(lock)
    not_empty = Condition(lock)

    async with not_full:  # the task now holds `lock`, i.e. also not_empty's lock
        try:
            not_empty.notify()
        except RuntimeError as exc:
            violations.append(
                f"notify() on a condition sharing the held lock was refused: {exc}"
            )

    cond = Condition(lock)
    async with lock:  # holding the condition's lock, acquired via the lock itself
        try:
            cond.notify_all()
        except RuntimeError as exc:
            violations.append(
                f"notify_all() while holding the condition's lock (via 'async with "
                f"lock') was refused: {exc}"
            )


async def main() -> None:
    with anyio.fail_after(30):
        await scenario_accept_without_lock()
        await scenario_refuse_with_lock()


anyio.run(main)
if violations:
    for v in violations:
        print("PROPERTY VIOLATED:", v)
    sys.exit(1)

print("ok")
