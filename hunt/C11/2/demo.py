"""
Spurious wake-up: a task that starts Condition.wait() AFTER a notify_all() (and is never
notified by anybody) is released anyway, because a waiter that was selected by that
notify_all() and is being cancelled "passes its notification on" to whoever happens to
be at the head of the waiter queue at that moment -- even a task that was not waiting
when the notification was issued.

Run:  PYTHONPATH=/tmp/hunt_C11/src /venv/bin/python demo.py
"""

import sys

import anyio
from anyio import CancelScope, Condition, Event, create_task_group, move_on_after

history: list[str] = []
late_woke_spuriously = False


async def main() -> None:
    global late_woke_spuriously
    cond = Condition()
    gate = Event()
    scope1 = CancelScope()

    async def early_waiter(name: str, scope: CancelScope) -> None:
        with scope:
            async with cond:
                history.append(f"{name}: wait() starts")
                await cond.wait()
                history.append(f"{name}: wait() returned")

    async def notifier() -> None:
        async with cond:
            await gate.wait()
            scope1.cancel()  # W1 is cancelled ...
            history.append("notifier: notify_all()")
            cond.notify_all()  # ... in the same cycle as the notification selecting it

    async def late_waiter() -> None:
        global late_woke_spuriously
        await gate.wait()
        cond.acquire_nowait()  # the notifier has already released the lock
        try:
            history.append("LATE: wait() starts (after notify_all)")
            with move_on_after(1):  # watchdog: the correct behaviour is to stay blocked
                await cond.wait()
                history.append("LATE: wait() returned")
                late_woke_spuriously = True
        finally:
            cond.release()

    async with create_task_group() as tg:
        tg.start_soon(early_waiter, "W1", scope1)
        tg.start_soon(early_waiter, "W2", CancelScope())
        while cond.statistics().tasks_waiting < 2:
            await anyio.sleep(0)

        tg.start_soon(notifier)  # parks on `gate` first, holding the lock
        for _ in range(3):
            await anyio.sleep(0)

        tg.start_soon(late_waiter)  # parks on `gate` second
        for _ in range(3):
            await anyio.sleep(0)

        # Wakes notifier, then late_waiter, in this order, in one event loop cycle; W1's
        # cancellation is processed right after them.
        gate.set()


async def run() -> None:
    with anyio.fail_after(30):
        await main()


anyio.run(run)
for line in history:
    print("   ", line)

notifications_after_late_started = [
    h
    for h in history[history.index("LATE: wait() starts (after notify_all)") :]
    if h.startswith("notifier")
]
if late_woke_spuriously and not notifications_after_late_started:
    print(
        "PROPERTY VIOLATED: spurious wake-up - a task that began Condition.wait() after "
        "the only notify_all() call, and was never notified, was released (it received "
        "the notification 'passed on' by a cancelled waiter of the earlier notify_all)"
    )
    sys.exit(1)

print("ok")
