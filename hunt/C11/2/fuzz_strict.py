import asyncio, random, sys, traceback
from collections import deque
import anyio
from anyio import Condition, CancelScope, Lock, WouldBlock

inwait = {}
STATS = {"cancel_notified": 0, "passon": 0}
LOG = []


class TCond(Condition):
    __slots__ = ()

    def release(self):
        t = asyncio.current_task()
        if inwait.get(t) == "calling":
            inwait[t] = "waiting"
            LOG.append(("enter", t.get_name()))
        super().release()

    async def acquire(self):
        t = asyncio.current_task()
        if inwait.get(t) == "waiting":
            inwait[t] = "reacq"
            exc = sys.exc_info()[1]
            LOG.append(("wake", t.get_name(), exc is not None))
        await super().acquire()


class Violation(Exception):
    pass


class Model:
    def __init__(self):
        self.queue = deque()
        self.notified = []
        self.ticket = {}
        self.horizon = {}
        self.count = 0

    def enter(self, t):
        self.queue.append(t)
        self.ticket[t] = self.count
        self.count += 1

    def notify(self, n):
        k = 0
        while k < n and self.queue:
            t = self.queue.popleft()
            self.horizon[t] = self.count
            self.notified.append(t)
            k += 1

    def notify_all(self):
        self.notify(len(self.queue))

    def wake(self, t, exc):
        if not exc:
            if t not in self.notified:
                raise Violation(f"spurious wake of {t}; queue={list(self.queue)} notified={self.notified}")
            if self.notified[0] != t:
                raise Violation(f"out of order wake of {t}; notified={self.notified}")
            self.notified.remove(t)
        else:
            if t in self.queue:
                self.queue.remove(t)
            elif t in self.notified:
                self.notified.remove(t)
                STATS["cancel_notified"] += 1
                if self.queue:
                    STATS["passon"] += 1
                if self.queue and self.ticket[self.queue[0]] < self.horizon[t]:
                    nxt = self.queue.popleft()
                    self.horizon[nxt] = self.horizon[t]
                    self.notified.append(nxt)
            else:
                raise Violation(f"{t} woke with exc but not known")


async def trial(seed, verbose=False):
    rnd = random.Random(seed)
    LOG.clear()
    inwait.clear()
    fast = rnd.random() < 0.3
    lock = Lock(fast_acquire=fast) if rnd.random() < 0.5 else None
    cond = TCond(lock)
    model = Model()
    nW = rnd.randint(1, 5)
    nN = rnd.randint(1, 3)
    scopes = {}
    tasks = {}
    results = {}
    problems = []
    stop = []

    def apply_log():
        # apply pending LOG entries to model
        while LOG:
            e = LOG.pop(0)
            if verbose:
                print("   ", e)
            if e[0] == "enter":
                model.enter(e[1])
            elif e[0] == "wake":
                model.wake(e[1], e[2])
            elif e[0] == "notify":
                model.notify(e[1])
            elif e[0] == "notify_all":
                model.notify_all()

    async def ticks(k):
        for _ in range(k):
            await asyncio.sleep(0)

    async def waiter(name, rounds, delays, shield_outer):
        t = asyncio.current_task()
        for r in range(rounds):
            try:
                with CancelScope() as scope:
                    scopes[name] = scope
                    await ticks(delays[r])
                    async with cond:
                        inwait[t] = "calling"
                        try:
                            await cond.wait()
                        finally:
                            st = inwait.get(t)
                            inwait[t] = None
                        # returned normally
                        owner = cond.statistics().lock_statistics.owner
                        if owner is None or owner.id != id(t):
                            problems.append(f"{name} returned from wait without lock; owner={owner}")
                        LOG.append(("ret", name))
                        await ticks(rnd.randint(0, 2))
            except asyncio.CancelledError:
                # native cancel
                LOG.append(("native-cancelled", name))
                if stop:
                    return
                if verbose:
                    print("   native cancelled", name)
            except RuntimeError as e:
                problems.append(f"{name} RuntimeError {e!r}")
                return

    async def notifier(name, acts):
        for delay, kind, n in acts:
            await ticks(delay)
            async with cond:
                if kind == "all":
                    LOG.append(("notify_all",))
                    cond.notify_all()
                else:
                    LOG.append(("notify", n))
                    cond.notify(n)
                # maybe cancel somebody in the same step
                if rnd.random() < 0.4:
                    do_cancel()
            if rnd.random() < 0.4:
                do_cancel()

    def do_cancel():
        name = f"W{rnd.randrange(nW)}"
        mode = rnd.random()
        if mode < 0.5:
            sc = scopes.get(name)
            if sc is not None:
                if verbose: print("   scope-cancel", name)
                sc.cancel()
        elif mode < 0.8:
            t = tasks[name]
            if inwait.get(t) == "waiting" and not t.done():
                if verbose: print("   native-cancel", name)
                t.cancel()
        else:
            sc = scopes.get(name)
            if sc is not None:
                asyncio.get_running_loop().call_soon(sc.cancel)

    async def canceller(acts):
        for delay in acts:
            await ticks(delay)
            do_cancel()

    async def intruder(delay):
        await ticks(delay)
        for op in (lambda: cond.notify(1), cond.notify_all):
            try:
                op()
            except RuntimeError:
                pass
            else:
                problems.append("notify accepted without lock")
        try:
            await cond.wait()
        except RuntimeError:
            pass
        else:
            problems.append("wait accepted without lock")

    coros = {}
    for i in range(nW):
        rounds = rnd.randint(1, 3)
        coros[f"W{i}"] = waiter(f"W{i}", rounds, [rnd.randint(0, 6) for _ in range(rounds)], False)
    for i in range(nN):
        acts = [(rnd.randint(0, 6), rnd.choice(["n", "n", "all"]), rnd.choice([0, 1, 1, 2, 3, -1])) for _ in range(rnd.randint(1, 4))]
        coros[f"N{i}"] = notifier(f"N{i}", acts)
    coros["C"] = canceller([rnd.randint(0, 5) for _ in range(rnd.randint(0, 5))])
    coros["I"] = intruder(rnd.randint(0, 8))
    names = list(coros)
    rnd.shuffle(names)
    for nm in names:
        tasks[nm] = asyncio.create_task(coros[nm], name=nm)

    # let it run to quiescence
    for _ in range(200):
        await asyncio.sleep(0)
        try:
            apply_log()
        except Violation as v:
            problems.append(str(v))
            break
    # quiescence check
    blocked = [nm for nm in names if nm.startswith("W") and not tasks[nm].done()]
    if not problems:
        waiting = {nm for nm in blocked if inwait.get(tasks[nm]) == "waiting"}
        other = [nm for nm in blocked if nm not in waiting]
        if other:
            problems.append(f"tasks stuck not in wait: {other} states={[inwait.get(tasks[n]) for n in other]}")
        if model.notified:
            problems.append(f"lost wakeup: notified but still blocked: {model.notified}; queue={list(model.queue)}")
        if set(model.queue) != waiting:
            problems.append(f"queue mismatch model={list(model.queue)} real waiting={waiting}")
        if cond.statistics().tasks_waiting != len(model.queue):
            problems.append(f"stat mismatch {cond.statistics()} vs {list(model.queue)}")
    stop.append(1)
    for nm in names:
        if not tasks[nm].done():
            tasks[nm].cancel()
    await asyncio.gather(*tasks.values(), return_exceptions=True)
    for nm in names:
        t = tasks[nm]
        if not t.cancelled() and t.exception() is not None:
            problems.append(f"{nm} raised {t.exception()!r}")
    return problems


def main():
    start = int(sys.argv[1]) if len(sys.argv) > 1 else 0
    count = int(sys.argv[2]) if len(sys.argv) > 2 else 2000
    verbose = len(sys.argv) > 3
    bad = 0
    for seed in range(start, start + count):
        try:
            problems = asyncio.run(trial(seed, verbose))
        except Exception:
            traceback.print_exc()
            problems = ["crash"]
        if problems:
            bad += 1
            print("seed", seed, problems[:3])
            if bad > 15:
                break
    print("done, bad =", bad, STATS)


main()
