(* Proofs about pure/Itertools.v: every model agrees with its standard-library spec (C19), the tee LTS
   invariant, and the checkpoint discipline of the traces (C08, itertools clause). *)
From AV Require Import Base Itertools.
From Coq Require Import ZifyBool.

(* ------------------------------------------------------------------------------------------------ *)
(* basic facts about traces *)
Lemma yields_app {A} (a b : list (event A)) : yields (a ++ b) = yields a ++ yields b.
Proof.
  induction a as [|e a IH]; cbn; [reflexivity|]. destruct e; cbn; now rewrite IH.
Qed.

Lemma yields_pre {A} k : yields (@pre A k) = [].
Proof. destruct k; reflexivity. Qed.

Lemma yields_tail {A} y : yields (@tail A y) = [].
Proof. destruct y; reflexivity. Qed.

Lemma yields_pre_app {A} k (t : list (event A)) : yields (pre k ++ t) = yields t.
Proof. now rewrite yields_app, yields_pre. Qed.

Lemma yields_collect {B} k l : yields (@collect B k l) = [].
Proof. induction l as [|x r IH]; cbn; [apply yields_pre|]. now rewrite yields_pre_app. Qed.

Lemma yields_emit_sync {B} (vs : list B) : yields (emit_sync vs) = vs.
Proof. induction vs as [|v r IH]; cbn; [reflexivity|]. now rewrite IH. Qed.

Lemma yields_collect_all {B} ss : yields (@collect_all B ss) = [].
Proof. induction ss as [|s r IH]; cbn; [reflexivity|]. now rewrite yields_app, yields_collect, IH. Qed.

Ltac ysimp :=
  repeat (rewrite ?yields_pre_app, ?yields_app, ?yields_pre, ?yields_tail, ?yields_collect, ?yields_emit_sync,
                  ?yields_collect_all; cbn [yields app fst snd]).

Lemma outcome_tapp {A} ev (t : trace A) : outcome (tapp ev t) = (yields ev ++ fst (outcome t), snd (outcome t)).
Proof. destruct t as [tr e]. unfold outcome, tapp. cbn. now rewrite yields_app. Qed.

(* ------------------------------------------------------------------------------------------------ *)
(* chain *)
Lemma iter_all_yields k l : yields (iter_all k l) = l.
Proof. induction l as [|x r IH]; cbn; ysimp; [reflexivity|]. now rewrite IH. Qed.

Lemma chain_go_yields ko ss : forall y, yields (chain_go ko ss y) = concat (map snd ss).
Proof.
  induction ss as [|s r IH]; intros y; cbn; ysimp; [reflexivity|].
  now rewrite iter_all_yields, IH.
Qed.

Theorem chain_agrees : forall ko ss, outcome (chain_model ko ss) = chain_spec (map snd ss).
Proof. intros. unfold outcome, chain_model, chain_spec. cbn. now rewrite chain_go_yields. Qed.

(* repeat *)
Lemma repeat_inf_yields x k : yields (repeat_inf x k) = repeat x k.
Proof. induction k; cbn; [reflexivity|]. now rewrite IHk. Qed.

Lemma repeat_fin_yields x k : yields (repeat_fin x k) = repeat x k.
Proof. induction k; cbn; [reflexivity|]. now rewrite IHk. Qed.

Theorem repeat_agrees : forall x times k, outcome (repeat_model x times k) = repeat_spec x times k.
Proof.
  intros x [t|] k; unfold outcome, repeat_model, repeat_spec; cbn.
  - destruct (Z.leb_spec t 0); cbn.
    + replace (zn t) with 0 by (unfold zn; lia). reflexivity.
    + now rewrite repeat_fin_yields.
  - now rewrite repeat_inf_yields.
Qed.

(* count *)
Lemma count_go_yields step k : forall n,
  yields (count_go n step k) = map (fun i => (n + Z.of_nat i * step)%Z) (seq 0 k).
Proof.
  induction k as [|k IH]; intros n; cbn [count_go yields]; [reflexivity|].
  rewrite IH. cbn [seq map]. f_equal; [lia|].
  rewrite <- seq_shift, map_map. apply map_ext. intros i. rewrite Nat2Z.inj_succ. ring.
Qed.

Theorem count_agrees : forall start step k, outcome (count_model start step k) = count_spec start step k.
Proof. intros. unfold outcome, count_model, count_spec. cbn. now rewrite count_go_yields. Qed.

(* compress *)
Lemma compress_go_yields kd ks d : forall s y,
  yields (compress_go kd ks d s y) = map fst (filter (fun p => truthy (snd p)) (combine d s)).
Proof.
  induction d as [|x d IH]; intros s y; cbn; ysimp; [reflexivity|].
  destruct s as [|b s]; cbn; ysimp; [reflexivity|].
  destruct (truthy b); cbn; now rewrite IH.
Qed.

Theorem compress_agrees : forall d s, outcome (compress_model d s) = compress_spec (snd d) (snd s).
Proof. intros. unfold outcome, compress_model, compress_spec. cbn. now rewrite compress_go_yields. Qed.

(* filterfalse *)
Lemma filterfalse_go_yields p k l : forall y,
  yields (filterfalse_go p k l y) = filter (fun x => negb (p x)) l.
Proof.
  induction l as [|x r IH]; intros y; cbn; ysimp; [reflexivity|].
  destruct (p x); cbn; now rewrite IH.
Qed.

Theorem filterfalse_agrees : forall p s, outcome (filterfalse_model p s) = filterfalse_spec p (snd s).
Proof. intros. unfold outcome, filterfalse_model, filterfalse_spec. cbn. now rewrite filterfalse_go_yields. Qed.

(* takewhile *)
Lemma takewhile_go_yields p k l : forall y, yields (takewhile_go p k l y) = takewhile_list p l.
Proof.
  induction l as [|x r IH]; intros y; cbn; ysimp; [reflexivity|].
  destruct (p x); cbn; ysimp; [now rewrite IH|reflexivity].
Qed.

Theorem takewhile_agrees : forall p s, outcome (takewhile_model p s) = takewhile_spec p (snd s).
Proof. intros. unfold outcome, takewhile_model, takewhile_spec. cbn. now rewrite takewhile_go_yields. Qed.

(* dropwhile *)
Lemma dropwhile_go_not_dropping p k l : forall y, yields (dropwhile_go p k l false y) = l.
Proof. induction l as [|x r IH]; intros y; cbn; ysimp; [reflexivity|]. now rewrite IH. Qed.

Lemma dropwhile_go_yields p k l : forall y, yields (dropwhile_go p k l true y) = dropwhile_list p l.
Proof.
  induction l as [|x r IH]; intros y; cbn; ysimp; [reflexivity|].
  destruct (p x); cbn; [apply IH|]. now rewrite dropwhile_go_not_dropping.
Qed.

Theorem dropwhile_agrees : forall p s, outcome (dropwhile_model p s) = dropwhile_spec p (snd s).
Proof. intros. unfold outcome, dropwhile_model, dropwhile_spec. cbn. now rewrite dropwhile_go_yields. Qed.

(* starmap *)
Lemma starmap_go_yields f ko ss : forall y, yields (starmap_go f ko ss y) = map f (map snd ss).
Proof. induction ss as [|s r IH]; intros y; cbn; ysimp; [reflexivity|]. now rewrite IH. Qed.

Theorem starmap_agrees : forall f ko ss, outcome (starmap_model f ko ss) = starmap_spec f (map snd ss).
Proof. intros. unfold outcome, starmap_model, starmap_spec. cbn. now rewrite starmap_go_yields. Qed.

(* pairwise *)
Lemma pairwise_loop_yields k l : forall prev y, yields (pairwise_loop k prev l y) = combine (prev :: l) l.
Proof.
  induction l as [|x r IH]; intros prev y; cbn [pairwise_loop]; ysimp; [reflexivity|].
  rewrite IH. reflexivity.
Qed.

Theorem pairwise_agrees : forall s, outcome (pairwise_model s) = pairwise_spec (snd s).
Proof.
  intros [k l]. unfold outcome, pairwise_model, pairwise_spec. cbn [fst snd].
  destruct l as [|x r]; cbn [fst snd]; ysimp; [reflexivity|].
  now rewrite pairwise_loop_yields.
Qed.

(* accumulate: for an arbitrary callback that may raise *)
Lemma accumulate_loop_outcome f k l : forall total,
  (total :: fst (outcome (accumulate_loop f k total l)), snd (outcome (accumulate_loop f k total l))) = scanl_p f total l.
Proof.
  induction l as [|x r IH]; intros total; cbn [accumulate_loop scanl_p].
  - unfold outcome. cbn [fst snd]. now rewrite yields_pre.
  - destruct (f total x) as [t|].
    + rewrite outcome_tapp. cbn [fst snd]. rewrite yields_app, yields_pre. cbn [yields app].
      specialize (IH t). destruct (scanl_p f t r) as [ys e]. injection IH as <- <-. reflexivity.
    + unfold outcome. cbn [fst snd]. now rewrite yields_pre.
Qed.

Theorem accumulate_agrees : forall f initial s,
  outcome (accumulate_model f initial s) = accumulate_spec f initial (snd s).
Proof.
  intros f initial [k l]. unfold accumulate_model, accumulate_spec. cbn [snd].
  destruct initial as [i|].
  - rewrite outcome_tapp. cbn [yields app]. exact (accumulate_loop_outcome f k l i).
  - destruct l as [|x r]; [unfold outcome; cbn [fst snd]; ysimp; reflexivity|].
    rewrite outcome_tapp, yields_app, yields_pre. cbn [yields app]. exact (accumulate_loop_outcome f k r x).
Qed.

(* the four delegating functions: pool collection, then exactly what the stdlib function yields on the pool *)
Theorem combinations_agrees : forall r s, outcome (combinations_model r s) = combinations_spec r (snd s).
Proof.
  intros r s. unfold outcome, combinations_model, combinations_spec.
  destruct (r <? 0)%Z; cbn [fst snd]; ysimp; reflexivity.
Qed.

Theorem combinations_with_replacement_agrees : forall r s, outcome (cwr_model r s) = cwr_spec r (snd s).
Proof.
  intros r s. unfold outcome, cwr_model, cwr_spec.
  destruct (r <? 0)%Z; cbn [fst snd]; ysimp; reflexivity.
Qed.

Theorem permutations_agrees : forall r s, outcome (permutations_model r s) = permutations_spec r (snd s).
Proof.
  intros [r|] s; unfold outcome, permutations_model, permutations_spec.
  - destruct (r <? 0)%Z; cbn [fst snd]; ysimp; reflexivity.
  - cbn [fst snd]; ysimp; reflexivity.
Qed.

Theorem product_agrees : forall rep ss, outcome (product_model rep ss) = product_spec rep (map snd ss).
Proof.
  intros rep ss. unfold outcome, product_model, product_spec.
  destruct (rep <? 0)%Z; cbn [fst snd]; ysimp; reflexivity.
Qed.

(* ------------------------------------------------------------------------------------------------ *)
(* reduce: for an arbitrary callback that may raise *)
Lemma reduce_loop_spec f l : forall v,
  yields (fst (reduce_loop f v l)) = [] /\ snd (reduce_loop f v l) = fold_p f l v.
Proof.
  induction l as [|x r IH]; intros v; cbn [reduce_loop fold_p]; [auto|].
  destruct (f v x) as [v'|]; [|auto].
  destruct (IH v') as (Y & S). destruct (reduce_loop f v' r) as [ev o]. cbn in *. auto.
Qed.

Lemma reduce_finish_outcome pref f l v : yields pref = [] ->
  outcome (reduce_finish pref (reduce_loop f v l)) = reduce_result (fold_p f l v).
Proof.
  intros Hp. destruct (reduce_loop_spec f l v) as (Y & S). destruct (reduce_loop f v l) as [ev o]. cbn [fst snd] in *.
  rewrite <- S. unfold reduce_finish, outcome, reduce_result. destruct o as [w|]; cbn [fst snd].
  - rewrite !yields_app, Hp, Y. reflexivity.
  - rewrite yields_app, Hp, Y. reflexivity.
Qed.

Theorem reduce_agrees : forall f initial s, outcome (reduce_model f initial s false) = reduce_spec f initial (snd s).
Proof.
  intros f initial [k l]. unfold reduce_model, reduce_spec. cbn [snd].
  destruct initial as [i|]; [now apply reduce_finish_outcome|].
  destruct l as [|x r]; [reflexivity|]. now apply reduce_finish_outcome.
Qed.

(* groupby: for an ARBITRARY key comparison `same` (nothing assumed: not reflexive, symmetric or transitive) *)
Lemma groupby_loop_yields same key k : forall l n gk vs, length l <= n ->
  yields (groupby_loop same key k gk vs l) =
  (gk, vs ++ takewhile_list (fun y => same gk (key y)) l)
  :: groupby_fuel n same key (dropwhile_list (fun y => same gk (key y)) l).
Proof.
  induction l as [|x r IH]; intros n gk vs Hn; cbn [groupby_loop takewhile_list dropwhile_list]; ysimp.
  - rewrite app_nil_r. destruct n; reflexivity.
  - cbn [length] in Hn. destruct (same gk (key x)) eqn:E; cbn [negb yields].
    + rewrite (IH n gk (vs ++ [x])) by lia. now rewrite <- app_assoc.
    + rewrite app_nil_r. destruct n as [|n]; [lia|]. cbn [groupby_fuel].
      rewrite (IH n (key x) [x]) by lia. reflexivity.
Qed.

Theorem groupby_agrees : forall same key s, outcome (groupby_model same key s) = groupby_spec same key (snd s).
Proof.
  intros same key [k l]. unfold outcome, groupby_model, groupby_spec. cbn [fst snd].
  destruct l as [|x r]; cbn [fst snd length groupby_fuel]; ysimp; [reflexivity|].
  now rewrite (groupby_loop_yields same key k r (length r) (key x) [x] (le_n _)).
Qed.

(* the comparison before the F35 fix (`!=` alone) splits a run of one NaN object that itertools keeps together *)
Theorem groupby_pre_F35_refuted_pinned :
  exists key s, outcome (groupby_model eq_only key s) <> groupby_spec same_obj key (snd s).
Proof. exists (fun x => x), (KSync, [99; 99; 1]%Z). vm_compute. discriminate. Qed.

(* cycle *)
Lemma concat_repeat_snoc (w : list Z) m : concat (repeat w (S m)) = concat (repeat w m) ++ w.
Proof.
  induction m as [|m IH]; [cbn; now rewrite app_nil_r|].
  change (concat (repeat w (S (S m)))) with (w ++ concat (repeat w (S m))).
  rewrite IH at 1. rewrite app_assoc. reflexivity.
Qed.

Lemma len_concat_repeat (w : list Z) m : w <> [] -> m <= length (concat (repeat w m)).
Proof.
  intros Hw. induction m as [|m IH]; cbn; [lia|]. rewrite app_length.
  destruct w; [congruence|]. cbn. lia.
Qed.

Lemma concat_repeat_nil m : concat (repeat (@nil Z) m) = [].
Proof. induction m; cbn; auto. Qed.

Lemma firstn_enough (w p : list Z) k m : w <> [] -> k <= m ->
  firstn k (p ++ concat (repeat w m)) = firstn k (p ++ concat (repeat w (S m))).
Proof.
  intros Hw Hk. rewrite concat_repeat_snoc, app_assoc, (firstn_app k (p ++ _) w).
  replace (k - length (p ++ concat (repeat w m))) with 0.
  - cbn. now rewrite app_nil_r.
  - rewrite app_length. pose proof (len_concat_repeat w m Hw). lia.
Qed.

Lemma cycle_rep_yields w : w <> [] -> forall j cur,
  yields (cycle_rep w cur j) = firstn j (cur ++ concat (repeat w j)).
Proof.
  intros Hw. induction j as [|j IH]; intros cur; [reflexivity|].
  destruct cur as [|x r].
  - destruct w as [|x r]; [congruence|]. cbn [cycle_rep yields]. rewrite IH.
    change (concat (repeat (x :: r) (S j))) with ((x :: r) ++ concat (repeat (x :: r) j)).
    reflexivity.
  - cbn [cycle_rep yields]. rewrite IH. cbn [app firstn]. f_equal.
    apply firstn_enough; [exact Hw|lia].
Qed.

Lemma cycle_go_yields kd : forall k saved l,
  yields (cycle_go kd saved l k) = firstn k (l ++ concat (repeat (saved ++ l) k)).
Proof.
  induction k as [|k IH]; intros saved l; [reflexivity|].
  destruct l as [|x r]; cbn [cycle_go]; ysimp.
  - rewrite app_nil_r. destruct saved as [|a sv].
    + cbn [yields]. rewrite concat_repeat_nil. reflexivity.
    + rewrite cycle_rep_yields by congruence. symmetry.
      exact (firstn_enough (a :: sv) [] (S k) (S k) ltac:(congruence) (le_n _)).
  - rewrite IH. rewrite <- app_assoc. cbn [app firstn]. f_equal.
    apply firstn_enough; [destruct saved; cbn; congruence|lia].
Qed.

Theorem cycle_agrees : forall s k, outcome (cycle_model s k) = cycle_spec (snd s) k.
Proof.
  intros [kd l] k. unfold outcome, cycle_model, cycle_spec. cbn [fst snd].
  rewrite cycle_go_yields. cbn [app]. f_equal.
  destruct k as [|k]; [reflexivity|].
  destruct l as [|x r]; [cbn [app]; now rewrite concat_repeat_nil|].
  change (concat (repeat (x :: r) (S k))) with ((x :: r) ++ concat (repeat (x :: r) k)).
  cbn [app firstn]. f_equal. symmetry. apply firstn_enough; [congruence|lia].
Qed.

(* ------------------------------------------------------------------------------------------------ *)
(* islice *)
Lemma below_mono i stop : below i stop = false -> below (i + 1)%Z stop = false.
Proof. destruct stop as [s|]; cbn; [lia|congruence]. Qed.

Lemma yields_poll {A} k (t : list (event A)) : yields (poll k ++ t) = yields t.
Proof. destruct k; reflexivity. Qed.

Lemma islice_filter_past start stop step l : forall i,
  below i stop = false -> filter (islice_sel start stop step) (enumZ i l) = [].
Proof.
  induction l as [|x r IH]; intros i H; cbn [enumZ filter]; [reflexivity|].
  unfold islice_sel at 1. cbn [fst]. rewrite H, andb_false_r. cbn [andb].
  apply IH, below_mono, H.
Qed.

Lemma islice_go_yields k start stop step l : forall index y,
  yields (islice_go k start stop step l index y) =
  map snd (filter (islice_sel start stop step) (enumZ index l)).
Proof.
  induction l as [|x r IH]; intros index y.
  - cbn. destruct (below index stop); rewrite ?yields_poll, ?yields_tail; reflexivity.
  - cbn [islice_go enumZ filter]. unfold islice_sel at 1. cbn [fst].
    destruct (below index stop) eqn:B.
    + rewrite andb_true_r, yields_poll.
      destruct ((start <=? index)%Z && ((index - start) mod step =? 0)%Z); cbn [yields map snd]; now rewrite IH.
    + rewrite andb_false_r. cbn [andb]. rewrite yields_tail.
      fold (islice_sel start stop step). rewrite islice_filter_past; [reflexivity|].
      apply below_mono, B.
Qed.

(* selecting up to limit = max(start, stop) selects the same elements as selecting up to stop *)
Lemma islice_sel_limit start stop step p :
  islice_sel start (islice_limit start stop) step p = islice_sel start stop step p.
Proof.
  unfold islice_sel, islice_limit. destruct stop as [st|]; [|reflexivity]. cbn [below].
  f_equal. destruct (Z.leb_spec start (fst p)); cbn [andb]; [|reflexivity]. lia.
Qed.

Definition islice_model3 (a b c : option Z) (s : src) : trace Z :=
  if neg_opt a then ([], Some ValueError) else
  if neg_opt b then ([], Some ValueError) else
  if neg_opt c then ([], Some ValueError) else
  let start := dflt 0%Z a in
  let step := dflt 1%Z c in
  if (step <=? 0)%Z then ([], Some ValueError) else
  (islice_go (fst s) start (islice_limit start b) step (snd s) 0%Z false, None).

Definition islice_spec3 (a b c : option Z) (l : list Z) : list Z * option err :=
  if neg_opt a || neg_opt b || neg_opt c || (dflt 1 c <=? 0)%Z then ([], Some ValueError)
  else (map snd (filter (islice_sel (dflt 0 a) b (dflt 1 c)) (enumZ 0 l)), None).

Lemma islice3_agrees a b c s : outcome (islice_model3 a b c s) = islice_spec3 a b c (snd s).
Proof.
  unfold islice_model3, islice_spec3.
  destruct (neg_opt a) eqn:Na; [reflexivity|].
  destruct (neg_opt b) eqn:Nb; [reflexivity|].
  destruct (neg_opt c) eqn:Nc; [reflexivity|].
  cbn [orb]. destruct (dflt 1 c <=? 0)%Z; [reflexivity|].
  unfold outcome. cbn [fst snd]. rewrite islice_go_yields. do 2 f_equal.
  apply filter_ext. intros p. apply islice_sel_limit.
Qed.

Theorem islice_agrees : forall args s, outcome (islice_model args s) = islice_spec args (snd s).
Proof.
  intros args s.
  destruct args as [|a [|b [|c [|d rest]]]]; try reflexivity.
  - exact (islice3_agrees None a None s).
  - exact (islice3_agrees a b None s).
  - exact (islice3_agrees a b c s).
Qed.

(* consumption: the source is asked min(len + 1, max(start, stop)) times (len + 1 = all elements and the exhaustion),
   i.e. exactly min(len, max(start, stop)) elements are taken from it - for all start, stop, step *)
Lemma count_next_app {A} (a b : list (event A)) : count_next (a ++ b) = count_next a + count_next b.
Proof. unfold count_next. now rewrite filter_app, app_length. Qed.

Lemma count_next_poll {A} k : count_next (@poll A k) = 1.
Proof. destruct k; reflexivity. Qed.

Lemma count_next_tail {A} y : count_next (@tail A y) = 0.
Proof. destruct y; reflexivity. Qed.

Lemma islice_go_polls k start limit step l : forall index y,
  count_next (islice_go k start limit step l index y) =
  match limit with
  | None => S (length l)
  | Some m => Nat.min (S (length l)) (Z.to_nat (m - index))
  end.
Proof.
  induction l as [|x r IH]; intros index y; cbn [islice_go]; destruct (below index limit) eqn:B;
    rewrite ?count_next_app, ?count_next_poll, ?count_next_tail.
  - destruct limit as [m|]; cbn [below length] in *; lia.
  - destruct limit as [m|]; cbn [below length] in *; [lia|discriminate].
  - destruct ((start <=? index)%Z && ((index - start) mod step =? 0)%Z);
      [change (count_next (Yield x :: islice_go k start limit step r (index + 1)%Z true))
         with (count_next (islice_go k start limit step r (index + 1)%Z true))|];
      rewrite IH; destruct limit as [m|]; cbn [below length] in *; lia.
  - destruct limit as [m|]; cbn [below length] in *; [lia|discriminate].
Qed.

Theorem islice_consumption : forall a b c s,
  snd (islice_model3 a b c s) = None ->
  count_next (fst (islice_model3 a b c s)) =
    match b with
    | None => S (length (snd s))
    | Some st => Nat.min (S (length (snd s))) (Z.to_nat (Z.max (dflt 0 a) st))
    end /\
  Nat.min (count_next (fst (islice_model3 a b c s))) (length (snd s)) = islice_consumed [a; b; c] (snd s).
Proof.
  intros a b c s. unfold islice_model3, islice_consumed. cbn [slice_args].
  destruct (neg_opt a); [discriminate|]. destruct (neg_opt b); [discriminate|].
  destruct (neg_opt c); [discriminate|]. destruct (dflt 1 c <=? 0)%Z; [discriminate|].
  intros _. cbn [fst snd]. rewrite islice_go_polls. unfold islice_limit.
  destruct b as [st|]; rewrite ?Z.sub_0_r; split; try reflexivity; lia.
Qed.

(* the shape before the F36 fix does not consume what itertools consumes: islice(it, 2, 2) took nothing *)
Theorem islice_pre_F36_refuted_pinned :
  exists args s, snd (islice_model_pre_F36 args s) = None /\
                 Nat.min (count_next (fst (islice_model_pre_F36 args s))) (length (snd s)) <> islice_consumed args (snd s).
Proof. exists [Some 2; Some 2]%Z, (KSync, [0; 1; 2]%Z). vm_compute. split; [reflexivity|discriminate]. Qed.

(* chain(islice(it, *args), it) over one shared iterator: the slice, then exactly what itertools leaves *)
Lemma drain_nx_yields k l : yields (drain_nx k l) = l.
Proof. induction l as [|x r IH]; cbn [drain_nx]; [destruct k; reflexivity|]. rewrite yields_poll. cbn. now rewrite IH. Qed.

Lemma islice_then_rest3 ko a b c s :
  outcome (islice_then_rest_model ko [a; b; c] s) = islice_then_rest_spec [a; b; c] (snd s) /\
  islice_model [a; b; c] s = islice_model3 a b c s /\ islice_spec [a; b; c] (snd s) = islice_spec3 a b c (snd s).
Proof.
  split; [|split; reflexivity].
  unfold islice_then_rest_model, islice_then_rest_spec.
  change (islice_model [a; b; c] s) with (islice_model3 a b c s).
  pose proof (islice3_agrees a b c s) as Ag. change (islice_spec [a; b; c] (snd s)) with (islice_spec3 a b c (snd s)).
  unfold outcome in Ag. destruct (islice_spec3 a b c (snd s)) as [ys e] eqn:Sp. injection Ag as Hy He.
  cbn [snd fst]. rewrite He. destruct e as [e|].
  - assert (ys = []) as -> by (unfold islice_spec3 in Sp; destruct (_ || _); [now injection Sp|discriminate Sp]).
    unfold outcome. cbn [fst snd]. now rewrite yields_app, yields_pre, Hy.
  - destruct (islice_consumption a b c s He) as (_ & Hc). rewrite Hc.
    unfold outcome. cbn [fst snd].
    rewrite !yields_app, !yields_pre, drain_nx_yields, yields_tail, Hy. cbn. now rewrite app_nil_r.
Qed.

Theorem islice_then_rest_agrees : forall ko args s,
  outcome (islice_then_rest_model ko args s) = islice_then_rest_spec args (snd s).
Proof.
  intros ko args s.
  destruct args as [|a [|b [|c [|d rest]]]].
  - unfold outcome, islice_then_rest_model, islice_then_rest_spec. cbn. now rewrite yields_app, yields_pre.
  - exact (proj1 (islice_then_rest3 ko None a None s)).
  - exact (proj1 (islice_then_rest3 ko a b None s)).
  - exact (proj1 (islice_then_rest3 ko a b c s)).
  - unfold outcome, islice_then_rest_model, islice_then_rest_spec. cbn. now rewrite yields_app, yields_pre.
Qed.

(* batched *)
Lemma chunks_fuel2 n : 1 <= n -> forall f1 f2 l, length l <= f1 -> length l <= f2 -> chunks f1 n l = chunks f2 n l.
Proof.
  intros Hn. induction f1 as [|f1 IH]; intros f2 l H1 H2.
  - destruct l; [|cbn in H1; lia]. destruct f2; reflexivity.
  - destruct l as [|x r]; [destruct f2; reflexivity|].
    destruct f2 as [|f2]; [cbn in H2; lia|].
    cbn [chunks]. f_equal.
    assert (Hs : length (skipn n (x :: r)) <= length r) by (rewrite skipn_length; cbn [length]; lia).
    cbn [length] in H1, H2. apply IH; lia.
Qed.

Lemma chunks_fuel n : 1 <= n -> forall f l, length l <= f -> chunks f n l = chunks (length l) n l.
Proof. intros Hn f l H. apply chunks_fuel2; [exact Hn|exact H|apply le_n]. Qed.

Section Batched.
  Variables (n : nat) (strict : bool) (k : kind).
  Hypothesis Hn : 1 <= n.

  Definition bbody (l : list Z) : list (list Z) * option err :=
    let cs := chunks (length l) n l in
    if strict && negb (Nat.eqb (length l mod n) 0) then (removelast cs, Some ValueError) else (cs, None).

  Lemma batched_go_step : forall l batch j, 1 <= j ->
    outcome (batched_go n strict k l batch j) =
    if Nat.leb j (length l)
    then let o := outcome (batched_go n strict k (skipn j l) [] n) in ((batch ++ firstn j l) :: fst o, snd o)
    else match batch ++ l with
         | [] => ([], None)
         | w => if strict then ([], Some ValueError) else ([w], None)
         end.
  Proof.
    induction l as [|x r IH]; intros batch j Hj.
    - destruct j as [|j]; [lia|]. cbn [length Nat.leb]. rewrite app_nil_r.
      cbn [batched_go]. destruct batch as [|b bs].
      + unfold outcome; cbn [fst snd]; ysimp; reflexivity.
      + destruct strict; unfold outcome; cbn [fst snd]; ysimp; reflexivity.
    - destruct j as [|[|j]]; [lia| |].
      + cbn [batched_go length Nat.leb skipn firstn]. rewrite outcome_tapp. ysimp. reflexivity.
      + cbn [batched_go]. rewrite outcome_tapp. ysimp.
        rewrite IH by lia. cbn [length]. change (Nat.leb (S (S j)) (S (length r))) with (Nat.leb (S j) (length r)).
        destruct (Nat.leb (S j) (length r)).
        * cbn [skipn firstn]. rewrite <- app_assoc. reflexivity.
        * rewrite <- app_assoc. cbn [app]. symmetry. apply surjective_pairing.
  Qed.

  Lemma mod_sub a : n <= a -> a mod n = (a - n) mod n.
  Proof.
    intros H. replace a with ((a - n) + 1 * n) at 1 by lia. apply Nat.mod_add. lia.
  Qed.

  Lemma batched_go_body : forall fuel l, length l <= fuel ->
    outcome (batched_go n strict k l [] n) = bbody l.
  Proof.
    induction fuel as [|fuel IH]; intros l Hl.
    - destruct l; [|cbn in Hl; lia]. unfold bbody. cbn [length chunks].
      rewrite Nat.mod_0_l by lia. cbn. rewrite andb_false_r.
      unfold outcome; cbn [fst snd]; ysimp; reflexivity.
    - destruct l as [|x r].
      { unfold bbody. cbn [length chunks]. rewrite Nat.mod_0_l by lia. cbn. rewrite andb_false_r.
        unfold outcome; cbn [fst snd]; ysimp; reflexivity. }
      rewrite batched_go_step by exact Hn. cbn [app].
      destruct (Nat.leb_spec n (length (x :: r))) as [Hle|Hlt].
      + assert (Hs : length (skipn n (x :: r)) = length (x :: r) - n) by apply skipn_length.
        rewrite IH by (rewrite Hs; cbn [length] in *; lia).
        unfold bbody. rewrite Hs, <- (mod_sub _ Hle).
        cbn [length chunks].
        rewrite (chunks_fuel n Hn (length r) (skipn n (x :: r))) by (rewrite Hs; cbn [length]; lia).
        rewrite Hs. cbn [length].
        destruct (strict && negb (Nat.eqb (S (length r) mod n) 0)) eqn:E; cbn [fst snd]; [|reflexivity].
        f_equal.
        destruct (chunks (S (length r) - n) n (skipn n (x :: r))) eqn:C; [|reflexivity].
        exfalso. destruct (skipn n (x :: r)) eqn:Sk.
        * cbn [length] in Hs. assert (S (length r) = n) by (cbn [length] in Hle; lia).
          rewrite H, Nat.mod_same in E by lia. cbn in E. now rewrite andb_false_r in E.
        * cbn [length] in Hs. rewrite <- Hs in C. cbn in C. discriminate.
      + unfold bbody. cbn [length chunks].
        rewrite firstn_all2 by (cbn [length] in *; lia).
        rewrite skipn_all2 by (cbn [length] in *; lia).
        replace (chunks (length r) n []) with (@nil (list Z)) by (destruct (length r); reflexivity).
        rewrite Nat.mod_small by exact Hlt. cbn [length Nat.eqb negb]. rewrite andb_true_r.
        destruct strict; reflexivity.
  Qed.
End Batched.

Theorem batched_agrees : forall n strict s, outcome (batched_model n strict s) = batched_spec n strict (snd s).
Proof.
  intros n strict [k l]. unfold batched_model, batched_spec. cbn [fst snd].
  destruct (Z.ltb_spec n 1); [reflexivity|].
  apply (batched_go_body (zn n) strict k ltac:(unfold zn; lia) (length l) l (le_n _)).
Qed.

(* ------------------------------------------------------------------------------------------------ *)
(* zip_longest *)
Definition is_nil (l : list Z) : bool := match l with [] => true | _ => false end.
Definition zl_rows (fill : Z) (ls : list (list Z)) : list (list Z) :=
  map (fun i => map (fun l => nth i l fill) ls) (seq 0 (max_len ls)).

Lemma max_len_nil ls : forallb is_nil ls = true -> max_len ls = 0.
Proof.
  induction ls as [|l r IH]; [reflexivity|]. cbn [forallb]. 
  destruct l; cbn [is_nil andb]; [|discriminate]. intros H. change (max_len ([] :: r)) with (Nat.max 0 (max_len r)).
  rewrite (IH H). reflexivity.
Qed.

Lemma max_len_cons l r : max_len (l :: r) = Nat.max (length l) (max_len r).
Proof. reflexivity. Qed.

Lemma max_len_tl_nil ls : forallb is_nil ls = true -> max_len (map (@List.tl Z) ls) = 0.
Proof.
  induction ls as [|l r IH]; [reflexivity|]. cbn [forallb map]. rewrite max_len_cons.
  destruct l; cbn [is_nil andb]; [|discriminate]. intros H. rewrite (IH H). reflexivity.
Qed.

Lemma max_len_tl ls : forallb is_nil ls = false -> max_len ls = S (max_len (map (@List.tl Z) ls)).
Proof.
  induction ls as [|l r IH]; [discriminate|].
  cbn [forallb map]. rewrite !max_len_cons.
  destruct l as [|x xs]; cbn [is_nil andb length List.tl].
  - intros H. rewrite (IH H). lia.
  - intros _. destruct (forallb is_nil r) eqn:E.
    + rewrite (max_len_nil _ E), (max_len_tl_nil _ E). lia.
    + rewrite (IH eq_refl). lia.
Qed.

Lemma zl_rows_nil fill ls : forallb is_nil ls = true -> zl_rows fill ls = [].
Proof. intros H. unfold zl_rows. now rewrite (max_len_nil _ H). Qed.

Lemma zl_rows_cons fill ls : forallb is_nil ls = false ->
  zl_rows fill ls = map (hd fill) ls :: zl_rows fill (map (@List.tl Z) ls).
Proof.
  intros H. unfold zl_rows. rewrite (max_len_tl _ H). cbn [seq map]. f_equal.
  - apply map_ext. intros l. destruct l; reflexivity.
  - rewrite <- seq_shift, map_map. apply map_ext. intros i. rewrite map_map. apply map_ext.
    intros l. destruct l; [destruct i; reflexivity|reflexivity].
Qed.

Definition z_ok (it : zit) : Prop := zactive it = false -> zrest it = [].
Definition z_dead (it : zit) : bool := zactive it && is_nil (zrest it).     (* will be found exhausted *)
Definition count_b {A} (f : A -> bool) (l : list A) : nat := length (filter f l).
Definition z_adv (it : zit) : zit :=
  if zactive it then match zrest it with
                     | _ :: xs => mkZ (zk it) xs true
                     | [] => mkZ (zk it) [] false
                     end
  else it.

Lemma zl_round_completes fill y : forall its na,
  Forall z_ok its -> count_b z_dead its < na ->
  exists ev, zl_round fill its na y =
             (ev, Some (map (fun it => hd fill (zrest it)) its, map z_adv its, na - count_b z_dead its))
             /\ yields ev = [].
Proof.
  induction its as [|it rest IH]; intros na Hok Hc.
  - exists []. cbn. rewrite Nat.sub_0_r. auto.
  - inversion Hok as [|? ? Hit Hrest]; subst.
    unfold count_b in *. cbn [filter zl_round map] in *. unfold z_dead at 1 in Hc. unfold z_dead at 1.
    destruct (zactive it) eqn:Ea; cbn [negb andb] in *.
    + destruct (zrest it) as [|x xs] eqn:Er; cbn [is_nil length hd] in *.
      * assert (Hadv : z_adv it = mkZ (zk it) [] false) by (unfold z_adv; now rewrite Ea, Er).
        destruct na as [|[|na]]; [lia|lia|]. cbn [pred].
        destruct (IH (S na) Hrest ltac:(lia)) as (ev & E & Y). rewrite E, Hadv.
        exists (pre (zk it) ++ ev). split; [reflexivity|ysimp; exact Y].
      * assert (Hadv : z_adv it = mkZ (zk it) xs true) by (unfold z_adv; now rewrite Ea, Er).
        destruct (IH na Hrest Hc) as (ev & E & Y). rewrite E, Hadv.
        exists (pre (zk it) ++ ev). split; [reflexivity|ysimp; exact Y].
    + assert (Hadv : z_adv it = it) by (unfold z_adv; now rewrite Ea).
      destruct (IH na Hrest Hc) as (ev & E & Y). rewrite E, Hadv.
      exists ev. split; [|exact Y]. rewrite (Hit Ea). reflexivity.
Qed.

Lemma zl_round_returns fill y : forall its na,
  1 <= na -> na <= count_b z_dead its ->
  exists ev, zl_round fill its na y = (ev, None) /\ yields ev = [].
Proof.
  induction its as [|it rest IH]; intros na H1 Hc.
  - cbn in Hc. lia.
  - unfold count_b in *. cbn [filter zl_round] in *. unfold z_dead at 1 in Hc.
    destruct (zactive it) eqn:Ea; cbn [negb andb] in *.
    + destruct (zrest it) as [|x xs] eqn:Er; cbn [is_nil length] in *.
      * destruct na as [|[|na]]; [lia| |]; cbn [pred].
        -- exists (pre (zk it) ++ tail y). split; [reflexivity|ysimp; reflexivity].
        -- destruct (IH (S na) ltac:(lia) ltac:(lia)) as (ev & E & Y). rewrite E.
           exists (pre (zk it) ++ ev). split; [reflexivity|ysimp; exact Y].
      * destruct (IH na H1 Hc) as (ev & E & Y). rewrite E.
        exists (pre (zk it) ++ ev). split; [reflexivity|ysimp; exact Y].
    + destruct (IH na H1 Hc) as (ev & E & Y). rewrite E. exists ev. auto.
Qed.

Definition z_act (it : zit) : bool := zactive it.

Lemma z_dead_all its : Forall z_ok its -> forallb is_nil (map zrest its) = true ->
  count_b z_dead its = count_b z_act its.
Proof.
  induction its as [|it r IH]; intros Hok H; [reflexivity|].
  inversion Hok as [|? ? Hit Hr]; subst. cbn in H. apply andb_prop in H as [E1 E2].
  unfold count_b, z_dead, z_act in *. cbn [filter]. rewrite E1, andb_true_r.
  destruct (zactive it); cbn [length]; rewrite IH; auto.
Qed.

Lemma z_dead_some its : Forall z_ok its -> forallb is_nil (map zrest its) = false ->
  count_b z_dead its < count_b z_act its.
Proof.
  induction its as [|it r IH]; intros Hok H; [discriminate|].
  inversion Hok as [|? ? Hit Hr]; subst. cbn [map forallb] in H.
  assert (Hle : forall l, count_b z_dead l <= count_b z_act l).
  { clear. induction l as [|a l IHl]; [auto|]. unfold count_b, z_dead, z_act in *. cbn [filter].
    destruct (zactive a); cbn [andb]; [destruct (is_nil (zrest a))|]; cbn [length]; lia. }
  unfold count_b, z_dead, z_act in *. cbn [filter].
  destruct (is_nil (zrest it)) eqn:En.
  - cbn [andb] in H. specialize (IH Hr H). rewrite andb_true_r. destruct (zactive it); cbn [length]; lia.
  - rewrite andb_false_r. destruct (zactive it) eqn:Ea.
    + cbn [length]. specialize (Hle r). unfold count_b, z_dead, z_act in Hle. lia.
    + rewrite (Hit Ea) in En. discriminate.
Qed.

Lemma z_adv_ok its : Forall z_ok its -> Forall z_ok (map z_adv its).
Proof.
  induction 1 as [|it r Hit Hr IH]; constructor; [|exact IH].
  unfold z_ok, z_adv in *. destruct (zactive it) eqn:Ea; [|rewrite Ea; exact Hit].
  destruct (zrest it); cbn; [reflexivity|discriminate].
Qed.

Lemma z_adv_rest its : Forall z_ok its -> map zrest (map z_adv its) = map (@List.tl Z) (map zrest its).
Proof.
  induction 1 as [|it r Hit Hr IH]; [reflexivity|]. cbn [map]. f_equal; [|exact IH].
  unfold z_ok, z_adv in *. destruct (zactive it) eqn:Ea.
  - destruct (zrest it); reflexivity.
  - now rewrite (Hit eq_refl).
Qed.

Lemma z_adv_count its : count_b z_act (map z_adv its) = count_b z_act its - count_b z_dead its.
Proof.
  assert (Hle : forall l, count_b z_dead l <= count_b z_act l).
  { induction l as [|a l IHl]; [auto|]. unfold count_b, z_dead, z_act in *. cbn [filter].
    destruct (zactive a); cbn [andb]; [destruct (is_nil (zrest a))|]; cbn [length]; lia. }
  induction its as [|it r IH]; [reflexivity|].
  specialize (Hle r). unfold count_b, z_dead, z_act, z_adv in *. cbn [map filter].
  destruct (zactive it) eqn:Ea; cbn [andb].
  - destruct (zrest it); cbn [is_nil zactive length]; rewrite IH; lia.
  - rewrite Ea. exact IH.
Qed.

Lemma zl_loop_yields fill : forall fuel its y,
  Forall z_ok its -> 1 <= count_b z_act its -> max_len (map zrest its) < fuel ->
  exists t, zl_loop fuel fill its (count_b z_act its) y = Some t /\ yields t = zl_rows fill (map zrest its).
Proof.
  induction fuel as [|fuel IH]; intros its y Hok Hna Hf; [lia|].
  cbn [zl_loop].
  destruct (forallb is_nil (map zrest its)) eqn:E.
  - destruct (zl_round_returns fill y its (count_b z_act its) Hna) as (ev & R & Y).
    { rewrite (z_dead_all its Hok E). apply le_n. }
    rewrite R. exists ev. split; [reflexivity|]. now rewrite Y, zl_rows_nil.
  - pose proof (z_dead_some its Hok E) as Hlt.
    destruct (zl_round_completes fill y its (count_b z_act its) Hok Hlt) as (ev & R & Y).
    rewrite R. rewrite <- z_adv_count.
    destruct (IH (map z_adv its) true (z_adv_ok its Hok)) as (t & L & Yt).
    + rewrite z_adv_count. lia.
    + rewrite (z_adv_rest its Hok). rewrite (max_len_tl _ E) in Hf. lia.
    + rewrite L. exists (ev ++ Yield (map (fun it => hd fill (zrest it)) its) :: t). split; [reflexivity|].
      rewrite yields_app, Y. cbn [app yields]. rewrite Yt, (z_adv_rest its Hok), (zl_rows_cons _ _ E).
      f_equal. symmetry. apply map_map.
Qed.

Lemma max_len_total ss : max_len (map snd ss) <= total_len ss.
Proof.
  induction ss as [|s r IH]; [cbn; lia|].
  unfold total_len in *. cbn [map fold_right]. rewrite max_len_cons. lia.
Qed.

Lemma zip_longest_run_spec fill ss :
  exists t, zip_longest_run fill ss = Some t /\ yields t = zl_rows fill (map snd ss).
Proof.
  destruct ss as [|s0 r0]; [exists [Ck]; split; reflexivity|].
  unfold zip_longest_run. set (ss := s0 :: r0).
  set (its := map (fun s : src => mkZ (fst s) (snd s) true) ss).
  assert (Hrest : map zrest its = map snd ss) by (unfold its; rewrite map_map; reflexivity).
  assert (Hact : count_b z_act its = length ss).
  { unfold its, count_b. clear. induction ss as [|s r IH]; cbn; [reflexivity|]. now rewrite IH. }
  assert (Hok : Forall z_ok its).
  { unfold its. apply Forall_forall. intros it Hin. apply in_map_iff in Hin as (s & <- & _).
    unfold z_ok. cbn. discriminate. }
  rewrite <- Hact, <- Hrest.
  apply zl_loop_yields; [exact Hok|rewrite Hact; cbn; lia|].
  rewrite Hrest. pose proof (max_len_total ss). lia.
Qed.

Theorem zip_longest_fuel_ok : forall fill ss, zip_longest_run fill ss <> None.
Proof. intros fill ss. destruct (zip_longest_run_spec fill ss) as (t & E & _). congruence. Qed.

Theorem zip_longest_agrees : forall fill ss,
  outcome (zip_longest_model fill ss) = zip_longest_spec fill (map snd ss).
Proof.
  intros fill ss. unfold zip_longest_model, zip_longest_spec.
  destruct (zip_longest_run_spec fill ss) as (t & E & Y). rewrite E.
  unfold outcome. cbn [fst snd]. now rewrite Y.
Qed.

(* ------------------------------------------------------------------------------------------------ *)
(* C08, itertools clause: every error-free traversal passes a checkpoint if its sources are synchronous or if it
   yields nothing.  "Passes a checkpoint" = a cancellation check AND a real yield (passes_ck), and no element is handed
   out before the first cancellation check (check_before_first_yield_value).
   `good t`: the trace passes a checkpoint or yields something. *)
Notation cbf := check_before_first_yield_value.
Definition ckd {A} (t : list (event A)) : Prop := passes_ck t = true /\ cbf t = true.
Definition good {A} (t : list (event A)) : Prop := passes_ck t = true \/ yields t <> [].

Lemma passes_app_l {A} (a b : list (event A)) : passes_ck a = true -> passes_ck (a ++ b) = true.
Proof.
  unfold passes_ck. intros H. apply andb_prop in H as [H1 H2]. now rewrite !existsb_app, H1, H2.
Qed.

Lemma passes_app_r {A} (a b : list (event A)) : passes_ck b = true -> passes_ck (a ++ b) = true.
Proof.
  unfold passes_ck. intros H. apply andb_prop in H as [H1 H2]. rewrite !existsb_app, H1, H2. now rewrite !orb_true_r.
Qed.

Lemma passes_has_ck {A} (t : list (event A)) : passes_ck t = true -> has_ck t = true.
Proof.
  unfold passes_ck, has_ck. intros H. apply andb_prop in H as [H _]. apply existsb_exists in H as (e & I & E).
  apply existsb_exists. exists e. split; [exact I|]. destruct e; cbn in *; congruence.
Qed.

Lemma cbf_no_yield {A} (t : list (event A)) : yields t = [] -> cbf t = true.
Proof. induction t as [|e r IH]; [reflexivity|]. destruct e; cbn; auto; discriminate. Qed.

Lemma cbf_app_l {A} (a b : list (event A)) : existsb is_check a = true -> cbf a = true -> cbf (a ++ b) = true.
Proof. induction a as [|e r IH]; [discriminate|]. destruct e; cbn; auto; discriminate. Qed.

Lemma cbf_app_r {A} (a b : list (event A)) : yields a = [] -> cbf b = true -> cbf (a ++ b) = true.
Proof. induction a as [|e r IH]; [auto|]. destruct e; cbn; auto; discriminate. Qed.

Lemma ckd_app_l {A} (a b : list (event A)) : ckd a -> ckd (a ++ b).
Proof.
  intros [P C]. split; [now apply passes_app_l|]. apply cbf_app_l; [|exact C].
  unfold passes_ck in P. now apply andb_prop in P as [_ P].
Qed.

Lemma ckd_app_r {A} (a b : list (event A)) : yields a = [] -> ckd b -> ckd (a ++ b).
Proof. intros Y [P C]. split; [now apply passes_app_r|now apply cbf_app_r]. Qed.

Lemma good_app_r {A} (a t : list (event A)) : good t -> good (a ++ t).
Proof.
  intros [H|H]; [left; now apply passes_app_r|].
  right. rewrite yields_app. destruct (yields a); [exact H|discriminate].
Qed.

Lemma good_yield {A} (a t : list (event A)) v : good (a ++ Yield v :: t).
Proof. apply good_app_r. right. discriminate. Qed.

Lemma good_ck {A} (a : list (event A)) : good (a ++ [Ck]).
Proof. apply good_app_r. left. reflexivity. Qed.

Lemma good_tail {A} (a : list (event A)) : good (a ++ tail false).
Proof. apply good_ck. Qed.

Lemma good_use {A} (t : list (event A)) : good t -> yields t = [] -> ckd t.
Proof. intros [H|H] Y; [split; [exact H|now apply cbf_no_yield]|contradiction]. Qed.

Lemma sync_pre {A} k (t : list (event A)) : is_sync k = true -> ckd (pre k ++ t).
Proof. destruct k; [split; reflexivity|discriminate]. Qed.

Lemma ckd_pre_ck {A} k : ckd (@pre A k ++ [Ck]).
Proof. apply good_use; [apply good_ck|]. now rewrite yields_app, yields_pre. Qed.

Lemma ckd_emit_sync {B} (vs : list B) : ckd (emit_sync vs).
Proof. destruct vs; split; reflexivity. Qed.

Lemma ckd_collect_emit {B} k l (vs : list B) : ckd (collect k l ++ emit_sync vs).
Proof. apply ckd_app_r; [apply yields_collect|apply ckd_emit_sync]. Qed.

Lemma ckd_collect_all_emit {B} ss (vs : list B) : ckd (collect_all ss ++ emit_sync vs).
Proof. apply ckd_app_r; [apply yields_collect_all|apply ckd_emit_sync]. Qed.

(* accumulate *)
Lemma accumulate_loop_starts f k total l t :
  is_sync k = true -> ckd (fst (tapp (pre k ++ t) (accumulate_loop f k total l))).
Proof. intros H. unfold tapp. cbn [fst]. rewrite <- app_assoc. now apply sync_pre. Qed.

Theorem accumulate_checkpoints : forall f initial s,
  snd (accumulate_model f initial s) = None ->
  is_sync (fst s) = true \/ yields (fst (accumulate_model f initial s)) = [] ->
  ckd (fst (accumulate_model f initial s)).
Proof.
  intros f initial [k l] He H. unfold accumulate_model in *. cbn [fst] in *.
  destruct initial as [i|]; [unfold tapp; cbn [fst]; split; reflexivity|].
  destruct l as [|x r]; cbn [fst] in *.
  - apply good_use; [apply good_ck|]. ysimp. reflexivity.
  - destruct H as [H|H]; [now apply accumulate_loop_starts|].
    revert H. unfold tapp. cbn [fst]. ysimp. discriminate.
Qed.

(* batched *)
Lemma batched_go_starts n strict k l batch j :
  is_sync k = true -> ckd (fst (batched_go n strict k l batch j)).
Proof.
  intros H. destruct l as [|x r]; cbn [batched_go].
  - destruct k; [|discriminate H]. destruct batch; [|destruct strict]; split; reflexivity.
  - destruct j as [|[|j]]; unfold tapp; cbn [fst]; rewrite <- ?app_assoc; now apply sync_pre.
Qed.

Lemma batched_go_good n strict k : forall l batch j,
  snd (batched_go n strict k l batch j) = None -> good (fst (batched_go n strict k l batch j)).
Proof.
  induction l as [|x r IH]; intros batch j He; cbn [batched_go] in *.
  - destruct batch; [apply good_ck|]. destruct strict; [discriminate|]. cbn [fst]. apply good_yield.
  - destruct j as [|[|j]]; unfold tapp in *; cbn [fst snd] in *.
    + rewrite <- app_assoc. apply good_yield.
    + rewrite <- app_assoc. apply good_yield.
    + apply good_app_r, IH, He.
Qed.

Theorem batched_checkpoints : forall n strict s,
  snd (batched_model n strict s) = None ->
  is_sync (fst s) = true \/ yields (fst (batched_model n strict s)) = [] ->
  ckd (fst (batched_model n strict s)).
Proof.
  intros n strict [k l]. unfold batched_model. cbn [fst snd].
  destruct (n <? 1)%Z; [discriminate|]. intros He [H|H].
  - now apply batched_go_starts.
  - apply good_use; [now apply batched_go_good|exact H].
Qed.

(* chain *)
Lemma chain_go_good ko : forall ss y, y = false \/ True -> good (chain_go ko ss y) \/ y = true.
Proof.
  induction ss as [|s r IH]; intros y _; cbn [chain_go].
  - destruct y; [now right|left; apply good_tail].
  - destruct y; [now right|]. left. cbn [orb].
    destruct (snd s) as [|x xs] eqn:E; cbn [nonempty iter_all].
    + destruct (IH false (or_intror I)) as [G|G]; [|discriminate]. now apply good_app_r, good_app_r.
    + apply good_app_r. rewrite <- app_assoc. cbn [app]. apply good_yield.
Qed.

Theorem chain_checkpoints : forall ko ss,
  is_sync ko = true \/ yields (fst (chain_model ko ss)) = [] ->
  ckd (fst (chain_model ko ss)).
Proof.
  intros ko ss [H|H]; unfold chain_model in *; cbn [fst] in *.
  - destruct ss; cbn [chain_go]; now apply sync_pre.
  - destruct (chain_go_good ko ss false (or_intror I)) as [G|G]; [|discriminate]. now apply good_use.
Qed.

(* the four delegating functions: the stdlib iterator is synchronous, so the adaptor always checkpoints *)
Theorem combinations_checkpoints : forall r s,
  snd (combinations_model r s) = None -> ckd (fst (combinations_model r s)).
Proof.
  intros r s. unfold combinations_model. destruct (r <? 0)%Z; [discriminate|]. intros _. cbn [fst].
  apply ckd_collect_emit.
Qed.

Theorem combinations_with_replacement_checkpoints : forall r s,
  snd (cwr_model r s) = None -> ckd (fst (cwr_model r s)).
Proof.
  intros r s. unfold cwr_model. destruct (r <? 0)%Z; [discriminate|]. intros _. cbn [fst].
  apply ckd_collect_emit.
Qed.

Theorem permutations_checkpoints : forall r s,
  snd (permutations_model r s) = None -> ckd (fst (permutations_model r s)).
Proof.
  intros [r|] s; unfold permutations_model; [destruct (r <? 0)%Z; [discriminate|]|]; intros _; cbn [fst];
    apply ckd_collect_emit.
Qed.

Theorem product_checkpoints : forall rep ss,
  snd (product_model rep ss) = None -> ckd (fst (product_model rep ss)).
Proof.
  intros rep ss. unfold product_model. destruct (rep <? 0)%Z; [discriminate|]. intros _. cbn [fst].
  apply ckd_collect_all_emit.
Qed.

(* compress *)
Lemma compress_go_good kd ks : forall d s, good (compress_go kd ks d s false).
Proof.
  induction d as [|x d IH]; intros s; cbn [compress_go]; [apply good_tail|].
  apply good_app_r. destruct s as [|b s]; [apply good_tail|].
  destruct (truthy b); [apply good_yield|apply good_app_r, IH].
Qed.

Theorem compress_checkpoints : forall d s,
  is_sync (fst d) = true \/ yields (fst (compress_model d s)) = [] ->
  ckd (fst (compress_model d s)).
Proof.
  intros [kd d] [ks s] [H|H]; unfold compress_model in *; cbn [fst snd] in *.
  - destruct d; cbn [compress_go]; now apply sync_pre.
  - apply good_use; [apply compress_go_good|exact H].
Qed.

(* count *)
Theorem count_checkpoints : forall start step k, 1 <= k -> ckd (fst (count_model start step k)).
Proof. intros start step [|k] H; [lia|split; reflexivity]. Qed.

(* cycle *)
Theorem cycle_checkpoints : forall s k, 1 <= k ->
  is_sync (fst s) = true \/ yields (fst (cycle_model s k)) = [] ->
  ckd (fst (cycle_model s k)).
Proof.
  intros [kd l] [|k] Hk H; [lia|]. unfold cycle_model in *. cbn [fst snd] in *.
  destruct l as [|x r]; cbn [cycle_go] in *.
  - apply ckd_pre_ck.
  - destruct H as [H|H]; [now apply sync_pre|]. revert H. ysimp. discriminate.
Qed.

(* dropwhile / filterfalse / takewhile *)
Lemma dropwhile_go_good p k : forall l, good (dropwhile_go p k l true false).
Proof.
  induction l as [|x r IH]; cbn [dropwhile_go]; [apply good_tail|].
  destruct (p x); cbn [andb]; [apply good_app_r, IH|apply good_yield].
Qed.

Theorem dropwhile_checkpoints : forall p s,
  is_sync (fst s) = true \/ yields (fst (dropwhile_model p s)) = [] ->
  ckd (fst (dropwhile_model p s)).
Proof.
  intros p [k l] [H|H]; unfold dropwhile_model in *; cbn [fst snd] in *.
  - destruct l; cbn [dropwhile_go]; now apply sync_pre.
  - apply good_use; [apply dropwhile_go_good|exact H].
Qed.

Lemma filterfalse_go_good p k : forall l, good (filterfalse_go p k l false).
Proof.
  induction l as [|x r IH]; cbn [filterfalse_go]; [apply good_tail|].
  destruct (p x); [apply good_app_r, IH|apply good_yield].
Qed.

Theorem filterfalse_checkpoints : forall p s,
  is_sync (fst s) = true \/ yields (fst (filterfalse_model p s)) = [] ->
  ckd (fst (filterfalse_model p s)).
Proof.
  intros p [k l] [H|H]; unfold filterfalse_model in *; cbn [fst snd] in *.
  - destruct l; cbn [filterfalse_go]; now apply sync_pre.
  - apply good_use; [apply filterfalse_go_good|exact H].
Qed.

Lemma takewhile_go_good p k : forall l, good (takewhile_go p k l false).
Proof.
  destruct l as [|x r]; cbn [takewhile_go]; [apply good_tail|].
  destruct (p x); [apply good_yield|apply good_tail].
Qed.

Theorem takewhile_checkpoints : forall p s,
  is_sync (fst s) = true \/ yields (fst (takewhile_model p s)) = [] ->
  ckd (fst (takewhile_model p s)).
Proof.
  intros p [k l] [H|H]; unfold takewhile_model in *; cbn [fst snd] in *.
  - destruct l; cbn [takewhile_go]; now apply sync_pre.
  - apply good_use; [apply takewhile_go_good|exact H].
Qed.

(* groupby *)
Lemma groupby_loop_good same key k : forall l gk vs, yields (groupby_loop same key k gk vs l) <> [].
Proof.
  induction l as [|x r IH]; intros gk vs; cbn [groupby_loop]; ysimp; [discriminate|].
  destruct (negb (same gk (key x))); [discriminate|apply IH].
Qed.

Theorem groupby_checkpoints : forall same key s,
  is_sync (fst s) = true \/ yields (fst (groupby_model same key s)) = [] ->
  ckd (fst (groupby_model same key s)).
Proof.
  intros same key [k l] H. unfold groupby_model in *. cbn [fst snd] in *.
  destruct l as [|x r]; cbn [fst] in *.
  - apply ckd_pre_ck.
  - destruct H as [H|H]; [now apply sync_pre|]. revert H. ysimp. intros H.
    now apply groupby_loop_good in H.
Qed.

(* islice *)
Lemma sync_poll {A} k (t : list (event A)) : is_sync k = true -> ckd (poll k ++ t).
Proof. destruct k; [split; reflexivity|discriminate]. Qed.

Lemma islice_go_good k start stop step : forall l index, good (islice_go k start stop step l index false).
Proof.
  induction l as [|x r IH]; intros index; cbn [islice_go]; destruct (below index stop);
    try (left; reflexivity); [apply good_tail|].
  destruct ((start <=? index)%Z && ((index - start) mod step =? 0)%Z); [apply good_yield|apply good_app_r, IH].
Qed.

Lemma islice_go_starts k start stop step l index :
  is_sync k = true -> ckd (islice_go k start stop step l index false).
Proof.
  intros H. destruct l; cbn [islice_go]; destruct (below index stop); try (split; reflexivity); now apply sync_poll.
Qed.

Lemma islice3_checkpoints a b c s :
  snd (islice_model3 a b c s) = None ->
  is_sync (fst s) = true \/ yields (fst (islice_model3 a b c s)) = [] ->
  ckd (fst (islice_model3 a b c s)).
Proof.
  unfold islice_model3.
  destruct (neg_opt a); [discriminate|]. destruct (neg_opt b); [discriminate|].
  destruct (neg_opt c); [discriminate|]. destruct (dflt 1 c <=? 0)%Z; [discriminate|].
  cbn [fst snd]. intros _ [H|H]; [now apply islice_go_starts|].
  apply good_use; [apply islice_go_good|exact H].
Qed.

Theorem islice_checkpoints : forall args s,
  snd (islice_model args s) = None ->
  is_sync (fst s) = true \/ yields (fst (islice_model args s)) = [] ->
  ckd (fst (islice_model args s)).
Proof.
  intros args s.
  destruct args as [|a [|b [|c [|d rest]]]]; try discriminate.
  - exact (islice3_checkpoints None a None s).
  - exact (islice3_checkpoints a b None s).
  - exact (islice3_checkpoints a b c s).
Qed.

(* pairwise *)
Theorem pairwise_checkpoints : forall s,
  is_sync (fst s) = true \/ yields (fst (pairwise_model s)) = [] ->
  ckd (fst (pairwise_model s)).
Proof.
  intros [k l] H. unfold pairwise_model in *. cbn [fst snd] in *.
  destruct l as [|x r]; cbn [fst] in *.
  - apply ckd_pre_ck.
  - destruct H as [H|H]; [now apply sync_pre|].
    destruct r as [|y r]; cbn [pairwise_loop] in *.
    + apply good_use; [apply good_app_r, good_ck|]. now rewrite !yields_app, !yields_pre.
    + revert H. ysimp. discriminate.
Qed.

(* repeat *)
Theorem repeat_checkpoints : forall x times k, (times = None -> 1 <= k) ->
  ckd (fst (repeat_model x times k)).
Proof.
  intros x [t|] k H; unfold repeat_model.
  - destruct (Z.leb_spec t 0); [split; reflexivity|]. cbn [fst].
    destruct (zn t) eqn:E; [unfold zn in E; lia|split; reflexivity].
  - destruct k; [specialize (H eq_refl); lia|split; reflexivity].
Qed.

(* starmap *)
Theorem starmap_checkpoints : forall f ko ss,
  is_sync ko = true \/ yields (fst (starmap_model f ko ss)) = [] ->
  ckd (fst (starmap_model f ko ss)).
Proof.
  intros f ko ss [H|H]; unfold starmap_model in *; cbn [fst] in *.
  - destruct ss; cbn [starmap_go]; now apply sync_pre.
  - destruct ss as [|s r]; cbn [starmap_go] in *.
    + apply ckd_pre_ck.
    + revert H. ysimp. discriminate.
Qed.

(* reduce (after the F22 fix), at full strength - for EVERY callback, source kind and initial value:
   the very first event is the cancellation check (nothing is consumed and the callback is not called before it),
   an error-free call really yields to the event loop (cancel_shielded_checkpoint), and when the caller's scope is
   already cancelled the check raises and nothing at all is consumed or called *)
Lemma passes_ckif {A} (t : list (event A)) : passes_ck (CkIf :: t) = existsb is_yield t.
Proof. unfold passes_ck. cbn. now rewrite andb_true_r. Qed.

Lemma reduce_finish_ck pref f l v :
  hd_error pref = Some CkIf -> yields pref = [] ->
  hd_error (fst (reduce_finish pref (reduce_loop f v l))) = Some CkIf /\
  (snd (reduce_finish pref (reduce_loop f v l)) = None ->
   passes_ck (fst (reduce_finish pref (reduce_loop f v l))) = true /\
   check_before_first_yield_value (fst (reduce_finish pref (reduce_loop f v l))) = true).
Proof.
  intros Hh Hy. destruct pref as [|e pr]; [discriminate|]. cbn in Hh. injection Hh as ->.
  destruct (reduce_loop f v l) as [ev [w|]]; cbn [reduce_finish fst snd app hd_error]; (split; [reflexivity|]);
    [intros _|discriminate].
  split; [|reflexivity]. rewrite passes_ckif, !existsb_app. cbn. now rewrite !orb_true_r.
Qed.

Theorem reduce_checkpoints : forall f initial s,
  hd_error (fst (reduce_model f initial s false)) = Some CkIf /\
  (snd (reduce_model f initial s false) = None ->
   passes_ck (fst (reduce_model f initial s false)) = true /\
   check_before_first_yield_value (fst (reduce_model f initial s false)) = true).
Proof.
  intros f initial [k l]. unfold reduce_model. cbn [snd].
  destruct initial as [i|]; [now apply reduce_finish_ck|].
  destruct l as [|x r]; [cbn; split; [reflexivity|discriminate]|]. now apply reduce_finish_ck.
Qed.

Theorem reduce_cancelled : forall f initial s,
  reduce_model f initial s true = ([CkIf], Some Cancelled) /\
  has_next (fst (reduce_model f initial s true)) = false /\ has_call (fst (reduce_model f initial s true)) = false.
Proof. intros. repeat split. Qed.

(* the shape before the fix does violate the clause: a reducer that never yields, called at least once, leaves a
   trace without any checkpoint event (pinned witness) *)
Theorem reduce_pre_F22_refuted_pinned :
  exists f initial s, snd (reduce_model_pre_F22 f initial s) = None /\
                      has_ck (fst (reduce_model_pre_F22 f initial s)) = false /\
                      has_call (fst (reduce_model_pre_F22 f initial s)) = true.
Proof. exists Z.add, None, (KSync, [1; 2; 3]%Z). vm_compute. auto. Qed.

(* zip_longest *)
Lemma zl_round_none_ck fill : forall its na ev, zl_round fill its na false = (ev, None) -> passes_ck ev = true.
Proof.
  induction its as [|it rest IH]; intros na ev H; cbn [zl_round] in H; [discriminate|].
  destruct (negb (zactive it)).
  - destruct (zl_round fill rest na false) as [ev' [[[vs its'] na']|]] eqn:R; [discriminate|].
    injection H as <-. eapply IH, R.
  - destruct (zrest it) as [|x xs].
    + destruct (pred na) as [|m] eqn:P.
      * injection H as <-. apply passes_app_r. reflexivity.
      * destruct (zl_round fill rest (S m) false) as [ev' [[[vs its'] na']|]] eqn:R; [discriminate|].
        injection H as <-. apply passes_app_r, (IH _ _ R).
    + destruct (zl_round fill rest na false) as [ev' [[[vs its'] na']|]] eqn:R; [discriminate|].
      injection H as <-. apply passes_app_r, (IH _ _ R).
Qed.

Lemma zl_round_starts fill it rest na y :
  zactive it = true -> is_sync (zk it) = true -> ckd (fst (zl_round fill (it :: rest) na y)).
Proof.
  intros Ha Hs. cbn [zl_round]. rewrite Ha. cbn [negb].
  destruct (zrest it).
  - destruct (pred na); [cbn [fst]; now apply sync_pre|].
    destruct (zl_round fill rest (S n) y) as [ev r]. cbn [fst]. now apply sync_pre.
  - destruct (zl_round fill rest na y) as [ev r]. cbn [fst]. now apply sync_pre.
Qed.

Theorem zip_longest_checkpoints : forall fill ss,
  all_sync ss = true \/ yields (fst (zip_longest_model fill ss)) = [] ->
  ckd (fst (zip_longest_model fill ss)).
Proof.
  intros fill ss H. unfold zip_longest_model in *.
  destruct (zip_longest_run_spec fill ss) as (t & E & _). rewrite E in *. cbn [fst] in *.
  destruct ss as [|s0 r0]; [injection E as <-; split; reflexivity|].
  unfold zip_longest_run in E. cbn [zl_loop map] in E.
  set (it0 := mkZ (fst s0) (snd s0) true) in *.
  match type of E with
  | context [zl_round fill (it0 :: ?rs) ?n false] =>
      pose proof (zl_round_starts fill it0 rs n false eq_refl) as St;
      destruct (zl_round fill (it0 :: rs) n false) as [ev [[[vs its'] na']|]] eqn:R
  end.
  - destruct (zl_loop (total_len (s0 :: r0)) fill its' na' true) as [t'|]; [|discriminate].
    injection E as <-. destruct H as [H|H].
    + cbn in H. apply andb_prop in H as [H _]. cbn [fst] in St. apply ckd_app_l, St.
      unfold it0. cbn. destruct (fst s0); [reflexivity|discriminate].
    + revert H. ysimp. destruct (yields ev); discriminate.
  - injection E as <-. destruct H as [H|H].
    + cbn in H. apply andb_prop in H as [H _]. cbn [fst] in St. apply St.
      unfold it0. cbn. destruct (fst s0); [reflexivity|discriminate].
    + apply good_use; [left; eapply zl_round_none_ck, R|exact H].
Qed.

(* ------------------------------------------------------------------------------------------------ *)
(* Non-vacuity: concrete traversals meeting the hypotheses of the checkpoint theorems (one over a synchronous
   source that yields, one over an asynchronous source that yields nothing), and concrete traces / outcomes. *)
Local Open Scope Z_scope.

Example accumulate_trace :
  accumulate_model (fn2p 0) None (KSync, [1; 2; 3]) =
  ([CkIf; Sh; Yield 1; CkIf; Sh; Yield 3; CkIf; Sh; Yield 6; CkIf; Sh], None) /\
  (* None is an element like any other: accumulate([None]) yields it *)
  outcome (accumulate_model (fn2p 7) None (KAsync, [none_code])) = ([none_code], None) /\
  outcome (accumulate_model (fn2p 7) None (KAsync, [none_code; 1; none_code; 2])) = ([none_code; 1; 1; 2], None) /\
  (* with `+`: the first element is yielded, then None + 1 raises TypeError *)
  outcome (accumulate_model (fn2p 0) None (KSync, [none_code; 1])) = ([none_code], Some TypeError).
Proof. vm_compute. repeat split. Qed.

Example batched_ex_sync : snd (batched_model 2 false (KSync, [0; 1; 2])) = None /\
  outcome (batched_model 2 false (KSync, [0; 1; 2])) = ([[0; 1]; [2]], None).
Proof. vm_compute. auto. Qed.
Example batched_ex_empty : snd (batched_model 2 true (KAsync, [])) = None /\
  yields (fst (batched_model 2 true (KAsync, []))) = [] /\ fst (batched_model 2 true (KAsync, [])) = [Ck].
Proof. vm_compute. auto. Qed.
Example batched_ex_strict : outcome (batched_model 2 true (KAsync, [0; 1; 2])) = ([[0; 1]], Some ValueError).
Proof. vm_compute. auto. Qed.
Example batched_ex_invalid : batched_model 0 false (KSync, [1]) = ([], Some ValueError).
Proof. reflexivity. Qed.

Example chain_ex_empty : yields (fst (chain_model KAsync [(KAsync, []); (KAsync, [])])) = [] /\
  fst (chain_model KAsync [(KAsync, []); (KAsync, [])]) = [Ck].
Proof. vm_compute. auto. Qed.
Example compress_ex_empty : yields (fst (compress_model (KAsync, [1; 2]) (KAsync, [0; 0]))) = [] /\
  fst (compress_model (KAsync, [1; 2]) (KAsync, [0; 0])) = [Ck].
Proof. vm_compute. auto. Qed.
Example cycle_ex : outcome (cycle_model (KAsync, [1; 2]) 5) = ([1; 2; 1; 2; 1], None) /\
  fst (cycle_model (KAsync, []) 3) = [Ck].
Proof. vm_compute. auto. Qed.
Example dropwhile_ex_empty : yields (fst (dropwhile_model (fun _ => true) (KAsync, [1; 2]))) = [] /\
  fst (dropwhile_model (fun _ => true) (KAsync, [1; 2])) = [Ck].
Proof. vm_compute. auto. Qed.
Example filterfalse_ex_empty : yields (fst (filterfalse_model (fun _ => true) (KAsync, [1; 2]))) = [] /\
  fst (filterfalse_model (fun _ => true) (KAsync, [1; 2])) = [Ck].
Proof. vm_compute. auto. Qed.
Example takewhile_ex_empty : yields (fst (takewhile_model (fun _ => false) (KAsync, [1; 2]))) = [] /\
  fst (takewhile_model (fun _ => false) (KAsync, [1; 2])) = [Ck].
Proof. vm_compute. auto. Qed.
Example groupby_ex : outcome (groupby_model Z.eqb (fun x => x mod 2) (KSync, [1; 3; 2; 4; 5])) =
  ([(1, [1; 3]); (0, [2; 4]); (1, [5])], None) /\ fst (groupby_model Z.eqb (fun x => x) (KAsync, [])) = [Ck] /\
  (* one NaN object (99) twice, another NaN object (199), the int 1: the run of the same object is one group *)
  outcome (groupby_model same_obj (fun x => x) (KAsync, [99; 99; 199; 1; 1])) =
    ([(99, [99; 99]); (199, [199]); (1, [1; 1])], None) /\
  (* a key function that returns one NaN object for every element: a single group *)
  outcome (groupby_model same_obj (fun _ => 99) (KSync, [0; 1; 2])) = ([(99, [0; 1; 2])], None).
Proof. vm_compute. repeat split. Qed.
Example islice_ex : outcome (islice_model [Some 1; None; Some 2] (KAsync, [0; 1; 2; 3; 4])) = ([1; 3], None) /\
  islice_model [Some 2; Some 2] (KAsync, [0; 1; 2]) = ([Nx; Nx; Ck], None) /\
  islice_model [Some 5; Some 1] (KAsync, [0; 1; 2]) = ([Nx; Nx; Nx; Nx; Ck], None) /\
  islice_model [Some 0] (KSync, [0; 1]) = ([Ck], None) /\
  outcome (islice_then_rest_model KSync [Some 2; Some 2] (KAsync, [0; 1; 2; 3])) = ([2; 3], None) /\
  islice_model [Some (-1)] (KSync, [0]) = ([], Some ValueError) /\
  islice_model [Some 0; Some 1; Some 0] (KSync, [0]) = ([], Some ValueError) /\
  islice_model [] (KSync, [0]) = ([], Some TypeError).
Proof. vm_compute. repeat split. Qed.
Example pairwise_ex : outcome (pairwise_model (KSync, [1; 2; 3])) = ([(1, 2); (2, 3)], None) /\
  fst (pairwise_model (KAsync, [1])) = [Ck] /\ fst (pairwise_model (KAsync, [])) = [Ck].
Proof. vm_compute. auto. Qed.
Example starmap_ex_empty : fst (starmap_model (fun _ => 0) KAsync []) = [Ck].
Proof. reflexivity. Qed.
Example zip_longest_ex : outcome (zip_longest_model 9 [(KSync, [1; 2; 3]); (KAsync, [4])]) =
  ([[1; 4]; [2; 9]; [3; 9]], None) /\
  fst (zip_longest_model 9 [(KAsync, []); (KAsync, [])]) = [Ck] /\ fst (zip_longest_model 9 []) = [Ck].
Proof. vm_compute. auto. Qed.
Example reduce_ex : reduce_model (fn2p 0) None (KSync, [1; 2; 3]) false =
    ([CkIf; Nx; Nx; Call; Nx; Call; Nx; Sh; Yield 6], None) /\
  reduce_model (fn2p 0) (Some 5) (KSync, []) false = ([CkIf; Nx; Sh; Yield 5], None) /\
  outcome (reduce_model (fn2p 7) (Some none_code) (KSync, [none_code; 3]) false) = ([3], None) /\
  outcome (reduce_model (fn2p 0) None (KSync, [1; none_code]) false) = ([], Some TypeError) /\
  reduce_model (fn2p 0) None (KAsync, [4]) false = ([CkIf; Nx; Nx; Sh; Yield 4], None) /\
  reduce_model (fn2p 0) None (KSync, []) false = ([CkIf; Nx], Some TypeError) /\
  reduce_model (fn2p 0) None (KSync, [1; 2]) true = ([CkIf], Some Cancelled).
Proof. vm_compute. repeat split. Qed.
Example oracle_ex :
  combs [1; 2; 3] 2 = [[1; 2]; [1; 3]; [2; 3]] /\
  cwr 2 [1; 2] = [[1; 1]; [1; 2]; [2; 2]] /\
  perms 2 [1; 2; 3] = [[1; 2]; [1; 3]; [2; 1]; [2; 3]; [3; 1]; [3; 2]] /\
  product_oracle [[1; 2]; [3]] 2 = [[1; 3; 1; 3]; [1; 3; 2; 3]; [2; 3; 1; 3]; [2; 3; 2; 3]].
Proof. vm_compute. auto. Qed.
(* the hypothesis "asynchronous source and something was yielded" really is outside the checkpoint guarantee *)
Example async_nonempty_has_no_checkpoint :
  has_ck (fst (filterfalse_model (fun _ => false) (KAsync, [1; 2]))) = false /\
  check_before_first_yield_value (fst (filterfalse_model (fun _ => false) (KAsync, [1; 2]))) = false.
Proof. split; reflexivity. Qed.
