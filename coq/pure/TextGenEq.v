(* Tie T for the text half of C16: the regenerated receive / send of anyio.streams.text, interpreted, ARE Text.tstep. *)
From AV Require Import Base Text TextImp TextGen.
From Coq Require Import Lia.

Definition recv_body : tstmt := match gen_text_receive with TWhileTrue b => b | _ => TIfDecodedReturn end.

Lemma recv_loop_eq : forall w fuel e d en st0, (length w < fuel)%nat ->
  tloop fuel recv_body e (mkt en d w st0) =
  Some (let '(d', w', r) := recv_loop en d w in TODone (mkt en d' w' st0) r).
Proof.
  induction w as [|c r IH]; intros fuel e d en st0 Hf; (destruct fuel as [|f]; [cbn in Hf; lia|]).
  - reflexivity.
  - cbn [tloop recv_loop]. unfold recv_body. cbn [gen_text_receive run_tblock run_tatom wire tenc dec started t_chunk t_item t_decoded t_encoded].
    destruct (decode_chunk en d c) as [d' o|x] eqn:D; cbn [run_tblock t_decoded].
    + destruct o as [|y o'].
      * cbn [run_tblock t_decoded]. change (TSeq (TAtom TFetch) _) with recv_body.
        rewrite IH by (cbn in Hf; lia). destruct (recv_loop en d' r) as [[d2 w2] r2]. reflexivity.
      * reflexivity.
    + reflexivity.
Qed.

Theorem tie_text_receive s : g_receive gen_text_receive s = Some (tstep s TRecv).
Proof.
  destruct s as [en d w st0]. unfold g_receive. cbn [texec gen_text_receive wire tstep tenc dec started].
  change (TSeq (TAtom TFetch) _) with recv_body. rewrite recv_loop_eq by (cbn; lia).
  destruct (recv_loop en d w) as [[d' w'] r]. reflexivity.
Qed.

Theorem tie_text_send s x : g_send gen_text_send s x = Some (tstep s (TSend x)).
Proof.
  destruct s as [en d w st0]. unfold g_send. cbn [texec gen_text_send run_tblock run_tatom tstep tenc dec wire started t_item tenv0].
  destruct (encode en st0 x) as [b|]; reflexivity.
Qed.
