(* pure/Itertools: executable trace models of anyio.itertools (src/anyio/itertools.py) and
   anyio.functools.reduce (src/anyio/functools.py:344-400), the standard-library specs they are compared
   with, the tee LTS, and the codec.  Definitions only: proofs live in ItertoolsProofs.v.

   A model maps source lists (each with its kind: synchronous iterable, wrapped by _IterableAsyncIterator,
   or asynchronous iterable) and arguments to a trace: the list of events the generator performs during a
   complete traversal (Yield v / the three checkpoint functions, in program order) and the error class that
   ends it, if any.  Callbacks are plain functions (the Python callbacks are `async def` functions that do
   not checkpoint). *)
From AV Require Import Base.

(* Call: one invocation of the awaited callback; Nx: one next() / __anext__() on the iterable (both reduce only) *)
Inductive event (A : Type) := Yield (v : A) | Ck | CkIf | Sh | Call | Nx.
Arguments Yield {A} v.
Arguments Call {A}.
Arguments Nx {A}.
Arguments Ck {A}.
Arguments CkIf {A}.
Arguments Sh {A}.

Inductive err := ValueError | TypeError | Cancelled.   (* Cancelled: the scope's cancellation exception *)
Inductive kind := KSync | KAsync.

Definition trace (A : Type) := (list (event A) * option err)%type.
Definition src := (kind * list Z)%type.

(* events of one __anext__ on the adaptor (lines 57-66): checkpoint_if_cancelled, next(), shielded checkpoint *)
Definition pre {A} (k : kind) : list (event A) :=
  match k with KSync => [CkIf; Sh] | KAsync => [] end.

(* the `if not element_yielded: await checkpoint()` tails *)
Definition tail {A} (yielded : bool) : list (event A) := if yielded then [] else [Ck].

Definition tapp {A} (ev : list (event A)) (t : trace A) : trace A := (ev ++ fst t, snd t).

Fixpoint yields {A} (t : list (event A)) : list A :=
  match t with
  | [] => []
  | Yield v :: r => v :: yields r
  | _ :: r => yields r
  end.

Definition is_ck {A} (e : event A) : bool := match e with Ck | CkIf | Sh => true | _ => false end.
Definition is_call {A} (e : event A) : bool := match e with Call => true | _ => false end.
Definition has_call {A} (t : list (event A)) : bool := existsb is_call t.
Definition is_next {A} (e : event A) : bool := match e with Nx => true | _ => false end.
Definition has_next {A} (t : list (event A)) : bool := existsb is_next t.
(* events that really suspend: checkpoint() and cancel_shielded_checkpoint() (checkpoint_if_cancelled does not) *)
Definition is_yield {A} (e : event A) : bool := match e with Ck | Sh => true | _ => false end.
Definition has_yield {A} (t : list (event A)) : bool := existsb is_yield t.
(* events that observe a pending cancellation: checkpoint() and checkpoint_if_cancelled() (the shielded one does not) *)
Definition is_check {A} (e : event A) : bool := match e with Ck | CkIf => true | _ => false end.
(* "passes a checkpoint": a cancellation check AND a real yield to the event loop *)
Definition passes_ck {A} (t : list (event A)) : bool := existsb is_yield t && existsb is_check t.
(* order-aware: no element is handed out (Yield v) before the first cancellation check *)
Fixpoint check_before_first_yield_value {A} (t : list (event A)) : bool :=
  match t with
  | [] => true
  | e :: r => if is_check e then true
              else match e with Yield _ => false | _ => check_before_first_yield_value r end
  end.
Definition has_ck {A} (t : list (event A)) : bool := existsb is_ck t.
Definition outcome {A} (t : trace A) : list A * option err := (yields (fst t), snd t).
Definition all_sync (ss : list src) : bool := forallb (fun s => match fst s with KSync => true | KAsync => false end) ss.
Definition is_sync (k : kind) : bool := match k with KSync => true | KAsync => false end.

(* the distinguished element: Python's None is transported as this value (sources may contain it; it is also the default
   fill value of zip_longest).  Callbacks treat it as Python does: arithmetic on it is a TypeError, it is falsy. *)
Definition none_code : Z := (-99)%Z.
Definition is_none (z : Z) : bool := (z =? none_code)%Z.
Definition truthy (z : Z) : bool := negb (z =? 0)%Z && negb (is_none z).

(* `[element async for element in _iterate(iterable)]` *)
Fixpoint collect {B} (k : kind) (l : list Z) : list (event B) :=
  match l with
  | [] => pre k
  | _ :: r => pre k ++ collect k r
  end.

(* `async for v in _iterate(<synchronous stdlib iterator>): yield v` *)
Fixpoint emit_sync {B} (vs : list B) : list (event B) :=
  match vs with
  | [] => [CkIf; Sh]
  | v :: r => CkIf :: Sh :: Yield v :: emit_sync r
  end.

(* ------------------------------------------------------------------------------------------------ *)
(* accumulate; the callback may raise (None = TypeError, e.g. `None + 1`): the elements accumulated so far have been
   yielded and the traversal ends with the error *)
Fixpoint accumulate_loop (f : Z -> Z -> option Z) (k : kind) (total : Z) (l : list Z) : trace Z :=
  match l with
  | [] => (pre k, None)
  | x :: r => match f total x with
              | Some t => tapp (pre k ++ [Yield t]) (accumulate_loop f k t r)
              | None => (pre k, Some TypeError)
              end
  end.

Definition accumulate_model (f : Z -> Z -> option Z) (initial : option Z) (s : src) : trace Z :=
  let (k, l) := s in
  match initial with
  | None => match l with
            | [] => (pre k ++ [Ck], None)
            | x :: r => tapp (pre k ++ [Yield x]) (accumulate_loop f k x r)
            end
  | Some i => tapp [CkIf; Sh; Yield i] (accumulate_loop f k i l)
  end.

(* batched (175-198); j = iterations of `for _ in range(n)` still to run, including the current one *)
Fixpoint batched_go (n : nat) (strict : bool) (k : kind) (l : list Z) (batch : list Z) (j : nat)
  : trace (list Z) :=
  match l with
  | [] => match batch with
          | [] => (pre k ++ [Ck], None)
          | _ :: _ => if strict then (pre k, Some ValueError) else (pre k ++ [Yield batch], None)
          end
  | x :: r => match j with
              | S (S j') => tapp (pre k) (batched_go n strict k r (batch ++ [x]) (S j'))
              | _ => tapp (pre k ++ [Yield (batch ++ [x])]) (batched_go n strict k r [] n)
              end
  end.

Definition batched_model (n : Z) (strict : bool) (s : src) : trace (list Z) :=
  if (n <? 1)%Z then ([], Some ValueError)
  else batched_go (zn n) strict (fst s) (snd s) [] (zn n).

(* chain.from_iterable (207-229); chain called with positional iterables = from_iterable(<tuple>) i.e. a synchronous outer *)
Fixpoint iter_all (k : kind) (l : list Z) : list (event Z) :=
  match l with
  | [] => pre k
  | x :: r => pre k ++ Yield x :: iter_all k r
  end.

Definition nonempty (l : list Z) : bool := match l with [] => false | _ => true end.

Fixpoint chain_go (ko : kind) (ss : list src) (yielded : bool) : list (event Z) :=
  match ss with
  | [] => pre ko ++ tail yielded
  | s :: r => pre ko ++ iter_all (fst s) (snd s) ++ chain_go ko r (yielded || nonempty (snd s))
  end.

Definition chain_model (ko : kind) (ss : list src) : trace Z := (chain_go ko ss false, None).

(* ---- oracles: Coq implementations of the four stdlib functions AnyIO delegates to ---- *)
Fixpoint combs (l : list Z) (r : nat) : list (list Z) :=
  match l with
  | [] => match r with 0 => [[]] | S _ => [] end
  | x :: t => match r with
              | 0 => [[]]
              | S r' => map (cons x) (combs t r') ++ combs t r
              end
  end.

Fixpoint cwr (r : nat) : list Z -> list (list Z) :=
  match r with
  | 0 => fun _ => [[]]
  | S r' => fix go (l : list Z) : list (list Z) :=
              match l with
              | [] => []
              | x :: t => map (cons x) (cwr r' l) ++ go t
              end
  end.

Fixpoint selects (l : list Z) : list (Z * list Z) :=
  match l with
  | [] => []
  | x :: r => (x, r) :: map (fun p => (fst p, x :: snd p)) (selects r)
  end.

Fixpoint perms (r : nat) (l : list Z) : list (list Z) :=
  match r with
  | 0 => [[]]
  | S r' => flat_map (fun p => map (cons (fst p)) (perms r' (snd p))) (selects l)
  end.

Fixpoint cart (ps : list (list Z)) : list (list Z) :=
  match ps with
  | [] => [[]]
  | p :: r => flat_map (fun x => map (cons x) (cart r)) p
  end.

Definition product_oracle (pools : list (list Z)) (rep : nat) : list (list Z) :=
  cart (concat (repeat pools rep)).

(* combinations / combinations_with_replacement (235-248): the stdlib constructor raises for r < 0 after the
   pool has been collected *)
Definition combinations_model (r : Z) (s : src) : trace (list Z) :=
  if (r <? 0)%Z then (collect (fst s) (snd s), Some ValueError)
  else (collect (fst s) (snd s) ++ emit_sync (combs (snd s) (zn r)), None).

Definition cwr_model (r : Z) (s : src) : trace (list Z) :=
  if (r <? 0)%Z then (collect (fst s) (snd s), Some ValueError)
  else (collect (fst s) (snd s) ++ emit_sync (cwr (zn r) (snd s)), None).

(* permutations (490-503) *)
Definition permutations_model (r : option Z) (s : src) : trace (list Z) :=
  match r with
  | None => (collect (fst s) (snd s) ++ emit_sync (perms (length (snd s)) (snd s)), None)
  | Some r => if (r <? 0)%Z then (collect (fst s) (snd s), Some ValueError)
              else (collect (fst s) (snd s) ++ emit_sync (perms (zn r) (snd s)), None)
  end.

(* product (506-519): the repeat check precedes the collection of the pools *)
Fixpoint collect_all {B} (ss : list src) : list (event B) :=
  match ss with
  | [] => []
  | s :: r => collect (fst s) (snd s) ++ collect_all r
  end.

Definition product_model (rep : Z) (ss : list src) : trace (list Z) :=
  if (rep <? 0)%Z then ([], Some ValueError)
  else (collect_all ss ++ emit_sync (product_oracle (map snd ss) (zn rep)), None).

(* compress (251-271) *)
Fixpoint compress_go (kd ks : kind) (d s : list Z) (y : bool) : list (event Z) :=
  match d with
  | [] => pre kd ++ tail y
  | x :: d' =>
      pre kd ++
      match s with
      | [] => pre ks ++ tail y
      | b :: s' => pre ks ++ if truthy b then Yield x :: compress_go kd ks d' s' true
                             else compress_go kd ks d' s' y
      end
  end.

Definition compress_model (d s : src) : trace Z :=
  (compress_go (fst d) (fst s) (snd d) (snd s) false, None).

(* count (274-281): first k elements *)
Fixpoint count_go (n step : Z) (k : nat) : list (event Z) :=
  match k with
  | 0 => []
  | S k' => CkIf :: Sh :: Yield n :: count_go (n + step)%Z step k'
  end.

Definition count_model (start step : Z) (k : nat) : trace Z := (count_go start step k, None).

(* cycle (284-299): first k elements *)
Fixpoint cycle_rep (saved cur : list Z) (k : nat) : list (event Z) :=
  match k with
  | 0 => []
  | S k' => match cur with
            | x :: r => Ck :: Yield x :: cycle_rep saved r k'
            | [] => match saved with
                    | [] => []
                    | x :: r => Ck :: Yield x :: cycle_rep saved r k'
                    end
            end
  end.

Fixpoint cycle_go (kd : kind) (saved l : list Z) (k : nat) {struct k} : list (event Z) :=
  match k with
  | 0 => []
  | S k' => match l with
            | x :: r => pre kd ++ Yield x :: cycle_go kd (saved ++ [x]) r k'
            | [] => pre kd ++ match saved with
                              | [] => [Ck]
                              | _ :: _ => cycle_rep saved saved k
                              end
            end
  end.

Definition cycle_model (s : src) (k : nat) : trace Z := (cycle_go (fst s) [] (snd s) k, None).

(* dropwhile (302-318) *)
Fixpoint dropwhile_go (p : Z -> bool) (k : kind) (l : list Z) (dropping yielded : bool) : list (event Z) :=
  match l with
  | [] => pre k ++ tail yielded
  | x :: r => pre k ++ if dropping && p x then dropwhile_go p k r dropping yielded
                       else Yield x :: dropwhile_go p k r false true
  end.

Definition dropwhile_model (p : Z -> bool) (s : src) : trace Z :=
  (dropwhile_go p (fst s) (snd s) true false, None).

(* filterfalse (321-333) *)
Fixpoint filterfalse_go (p : Z -> bool) (k : kind) (l : list Z) (yielded : bool) : list (event Z) :=
  match l with
  | [] => pre k ++ tail yielded
  | x :: r => pre k ++ if p x then filterfalse_go p k r yielded
                       else Yield x :: filterfalse_go p k r true
  end.

Definition filterfalse_model (p : Z -> bool) (s : src) : trace Z :=
  (filterfalse_go p (fst s) (snd s) false, None).

(* groupby; key=None is the identity.  `same old new` is the test the code applies to consecutive keys
   (`group_key is next_key or group_key == next_key`, the PyObject_RichCompareBool of itertools): an arbitrary
   relation - for objects like NaN it is not reflexive on equal-looking values, and nothing is assumed about it *)
Fixpoint groupby_loop (same : Z -> Z -> bool) (key : Z -> Z) (k : kind) (gk : Z) (values l : list Z)
  : list (event (Z * list Z)) :=
  match l with
  | [] => pre k ++ [Yield (gk, values)]
  | x :: r => pre k ++ if negb (same gk (key x)) then Yield (gk, values) :: groupby_loop same key k (key x) [x] r
                       else groupby_loop same key k gk (values ++ [x]) r
  end.

Definition groupby_model (same : Z -> Z -> bool) (key : Z -> Z) (s : src) : trace (Z * list Z) :=
  match snd s with
  | [] => (pre (fst s) ++ [Ck], None)
  | x :: r => (pre (fst s) ++ groupby_loop same key (fst s) (key x) [x] r, None)
  end.

(* islice (394-466) *)
Definition slice_args (args : list (option Z)) : option Z * option Z * option Z :=
  match args with
  | [a] => (None, a, None)
  | [a; b] => (a, b, None)
  | [a; b; c] => (a, b, c)
  | _ => (None, None, None)
  end.

Definition neg_opt (o : option Z) : bool := match o with Some v => (v <? 0)%Z | None => false end.
Definition dflt (d : Z) (o : option Z) : Z := match o with Some v => v | None => d end.
Definition below (index : Z) (stop : option Z) : bool :=
  match stop with None => true | Some s => (index <? s)%Z end.

(* one __anext__ on the source with the consumption made visible (Nx): adaptor = check, next(), shielded yield *)
Definition poll {A} (k : kind) : list (event A) :=
  match k with KSync => [CkIf; Nx; Sh] | KAsync => [Nx] end.

(* after the F36 fix: the loop runs to limit = max(start, stop) so that the first `start` elements are consumed
   even when nothing can be yielded; there is no early return any more *)
Fixpoint islice_go (k : kind) (start : Z) (limit : option Z) (step : Z) (l : list Z) (index : Z) (yielded : bool)
  : list (event Z) :=
  if below index limit then
    match l with
    | [] => poll k ++ tail yielded
    | x :: r =>
        poll k ++ if (start <=? index)%Z && ((index - start) mod step =? 0)%Z
                  then Yield x :: islice_go k start limit step r (index + 1)%Z true
                  else islice_go k start limit step r (index + 1)%Z yielded
    end
  else tail yielded.

Definition islice_limit (start : Z) (stop : option Z) : option Z :=
  match stop with None => None | Some st => Some (Z.max start st) end.

Definition islice_model (args : list (option Z)) (s : src) : trace Z :=
  match args with
  | [] => ([], Some TypeError)
  | _ :: _ :: _ :: _ :: _ => ([], Some TypeError)
  | _ =>
      let '(a, b, c) := slice_args args in
      if neg_opt a then ([], Some ValueError) else
      if neg_opt b then ([], Some ValueError) else
      if neg_opt c then ([], Some ValueError) else
      let start := dflt 0%Z a in
      let step := dflt 1%Z c in
      if (step <=? 0)%Z then ([], Some ValueError) else
      (islice_go (fst s) start (islice_limit start b) step (snd s) 0%Z false, None)
  end.

(* the shape before the fix (kept for the refutation witness): early return, loop bounded by stop *)
Definition islice_model_pre_F36 (args : list (option Z)) (s : src) : trace Z :=
  match args with
  | [] => ([], Some TypeError)
  | _ :: _ :: _ :: _ :: _ => ([], Some TypeError)
  | _ =>
      let '(a, b, c) := slice_args args in
      if neg_opt a then ([], Some ValueError) else
      if neg_opt b then ([], Some ValueError) else
      if neg_opt c then ([], Some ValueError) else
      let start := dflt 0%Z a in
      let step := dflt 1%Z c in
      if (step <=? 0)%Z then ([], Some ValueError) else
      if (match b with Some st => (st =? 0)%Z || (start =? st)%Z | None => false end)
      then ([Ck], None)
      else (islice_go (fst s) start b step (snd s) 0%Z false, None)
  end.

Definition count_next {A} (t : list (event A)) : nat := length (filter is_next t).

(* pairwise (469-487) *)
Fixpoint pairwise_loop (k : kind) (prev : Z) (l : list Z) (yielded : bool) : list (event (Z * Z)) :=
  match l with
  | [] => pre k ++ tail yielded
  | x :: r => pre k ++ Yield (prev, x) :: pairwise_loop k x r true
  end.

Definition pairwise_model (s : src) : trace (Z * Z) :=
  match snd s with
  | [] => (pre (fst s) ++ [Ck], None)
  | x :: r => (pre (fst s) ++ pairwise_loop (fst s) x r false, None)
  end.

(* repeat (522-537): times = None is infinite (first k elements) *)
Fixpoint repeat_inf (x : Z) (k : nat) : list (event Z) :=
  match k with 0 => [] | S k' => Ck :: Yield x :: repeat_inf x k' end.

Fixpoint repeat_fin (x : Z) (remaining : nat) : list (event Z) :=
  match remaining with 0 => [] | S r => CkIf :: Sh :: Yield x :: repeat_fin x r end.

Definition repeat_model (x : Z) (times : option Z) (k : nat) : trace Z :=
  match times with
  | None => (repeat_inf x k, None)
  | Some t => if (t <=? 0)%Z then ([Ck], None) else (repeat_fin x (zn t), None)
  end.

(* starmap (540-555): the callback receives the collected argument list *)
Fixpoint starmap_go (f : list Z -> Z) (ko : kind) (ss : list src) (yielded : bool) : list (event Z) :=
  match ss with
  | [] => pre ko ++ tail yielded
  | s :: r => pre ko ++ collect (fst s) (snd s) ++ Yield (f (snd s)) :: starmap_go f ko r true
  end.

Definition starmap_model (f : list Z -> Z) (ko : kind) (ss : list src) : trace Z :=
  (starmap_go f ko ss false, None).

(* takewhile (573-590) *)
Fixpoint takewhile_go (p : Z -> bool) (k : kind) (l : list Z) (yielded : bool) : list (event Z) :=
  match l with
  | [] => pre k ++ tail yielded
  | x :: r => pre k ++ if p x then Yield x :: takewhile_go p k r true else tail yielded
  end.

Definition takewhile_model (p : Z -> bool) (s : src) : trace Z :=
  (takewhile_go p (fst s) (snd s) false, None).

(* zip_longest (593-629) *)
Record zit := mkZ { zk : kind; zrest : list Z; zactive : bool }.

(* one pass of `for index, iterator in enumerate(iterators)`: events, and None if the generator returned,
   else (values, iterators after the pass, num_active) *)
Fixpoint zl_round (fill : Z) (its : list zit) (num_active : nat) (yielded : bool)
  : list (event (list Z)) * option (list Z * list zit * nat) :=
  match its with
  | [] => ([], Some ([], [], num_active))
  | it :: rest =>
      if negb (zactive it) then
        let (ev, r) := zl_round fill rest num_active yielded in
        (ev, match r with
             | Some (vs, its', na) => Some (fill :: vs, it :: its', na)
             | None => None
             end)
      else
        match zrest it with
        | x :: xs =>
            let (ev, r) := zl_round fill rest num_active yielded in
            (pre (zk it) ++ ev,
             match r with
             | Some (vs, its', na) => Some (x :: vs, mkZ (zk it) xs true :: its', na)
             | None => None
             end)
        | [] =>
            match pred num_active with
            | 0 => (pre (zk it) ++ tail yielded, None)
            | S _ as na1 =>
                let (ev, r) := zl_round fill rest na1 yielded in
                (pre (zk it) ++ ev,
                 match r with
                 | Some (vs, its', na) => Some (fill :: vs, mkZ (zk it) [] false :: its', na)
                 | None => None
                 end)
            end
        end
  end.

Fixpoint zl_loop (fuel : nat) (fill : Z) (its : list zit) (na : nat) (yielded : bool) : option (list (event (list Z))) :=
  match fuel with
  | 0 => None
  | S f => match zl_round fill its na yielded with
           | (ev, None) => Some ev
           | (ev, Some (vs, its', na')) =>
               match zl_loop f fill its' na' true with
               | Some t => Some (ev ++ Yield vs :: t)
               | None => None
               end
           end
  end.

Definition total_len (ss : list src) : nat := fold_right (fun s a => length (snd s) + a) 0 ss.

(* None = out of fuel (never: see zip_longest_fuel_ok) *)
Definition zip_longest_run (fill : Z) (ss : list src) : option (list (event (list Z))) :=
  match ss with
  | [] => Some [Ck]
  | _ => zl_loop (S (total_len ss)) fill (map (fun s => mkZ (fst s) (snd s) true) ss) (length ss) false
  end.

Definition zip_longest_model (fill : Z) (ss : list src) : trace (list Z) :=
  match zip_longest_run fill ss with Some t => (t, None) | None => ([], None) end.

(* functools.reduce (after the F22 fix): `await checkpoint_if_cancelled()` before anything is touched; then the
   iterable is consumed (Nx per next()/__anext__(), the exhausting one included; no adaptor, so no per-element
   checkpoints) with one Call per `await function(value, element)`; every error-free call ends with
   `await cancel_shielded_checkpoint()`; the returned value is the final Yield.  cancelled = the caller's scope is
   already cancelled at entry: the initial check raises and nothing else happens. *)
Fixpoint reduce_loop (f : Z -> Z -> option Z) (value : Z) (l : list Z) : list (event Z) * option Z :=
  match l with
  | [] => ([Nx], Some value)
  | x :: r => match f value x with
              | Some v' => let '(ev, v) := reduce_loop f v' r in (Nx :: Call :: ev, v)
              | None => ([Nx; Call], None)         (* the callback raised *)
              end
  end.

Definition reduce_finish (pref : list (event Z)) (lp : list (event Z) * option Z) : trace Z :=
  match lp with
  | (ev, Some v) => (pref ++ ev ++ [Sh; Yield v], None)
  | (ev, None) => (pref ++ ev, Some TypeError)
  end.

Definition reduce_model (f : Z -> Z -> option Z) (initial : option Z) (s : src) (cancelled : bool) : trace Z :=
  if cancelled then ([CkIf], Some Cancelled) else
  match initial with
  | None => match snd s with
            | [] => ([CkIf; Nx], Some TypeError)
            | x :: r => reduce_finish [CkIf; Nx] (reduce_loop f x r)
            end
  | Some i => reduce_finish [CkIf] (reduce_loop f i (snd s))
  end.

(* the shape before the fix (kept for the refutation witness): the only checkpoint was `if not function_called` *)
Fixpoint reduce_loop_pre_F22 (f : Z -> Z -> Z) (value : Z) (l : list Z) (called : bool) : list (event Z) * Z * bool :=
  match l with
  | [] => ([], value, called)
  | x :: r => let '(ev, v, c) := reduce_loop_pre_F22 f (f value x) r true in (Call :: ev, v, c)
  end.

Definition reduce_model_pre_F22 (f : Z -> Z -> Z) (initial : option Z) (s : src) : trace Z :=
  match (match initial with
         | None => match snd s with [] => None | x :: r => Some (x, r) end
         | Some i => Some (i, snd s)
         end) with
  | None => ([], Some TypeError)
  | Some (v0, rest) => let '(ev, v, called) := reduce_loop_pre_F22 f v0 rest false in
                       (ev ++ tail called ++ [Yield v], None)
  end.

(* ------------------------------------------------------------------------------------------------ *)
(* Specs: the standard-library functions on lists *)

(* running results with a callback that may raise: the results up to the failing application, then TypeError *)
Fixpoint scanl_p (f : Z -> Z -> option Z) (a : Z) (l : list Z) : list Z * option err :=
  match l with
  | [] => ([a], None)
  | x :: r => match f a x with
              | Some t => let (ys, e) := scanl_p f t r in (a :: ys, e)
              | None => ([a], Some TypeError)
              end
  end.

Definition accumulate_spec (f : Z -> Z -> option Z) (initial : option Z) (l : list Z) : list Z * option err :=
  match initial with
  | None => match l with [] => ([], None) | x :: r => scanl_p f x r end
  | Some i => scanl_p f i l
  end.

Fixpoint chunks (fuel n : nat) (l : list Z) : list (list Z) :=
  match fuel with
  | 0 => []
  | S f => match l with [] => [] | _ :: _ => firstn n l :: chunks f n (skipn n l) end
  end.

Definition batched_spec (n : Z) (strict : bool) (l : list Z) : list (list Z) * option err :=
  if (n <? 1)%Z then ([], Some ValueError) else
  let cs := chunks (length l) (zn n) l in
  if strict && negb (Nat.eqb (length l mod zn n) 0) then (removelast cs, Some ValueError) else (cs, None).

Definition chain_spec (ls : list (list Z)) : list Z * option err := (concat ls, None).

Definition combinations_spec (r : Z) (l : list Z) : list (list Z) * option err :=
  if (r <? 0)%Z then ([], Some ValueError) else (combs l (zn r), None).
Definition cwr_spec (r : Z) (l : list Z) : list (list Z) * option err :=
  if (r <? 0)%Z then ([], Some ValueError) else (cwr (zn r) l, None).
Definition permutations_spec (r : option Z) (l : list Z) : list (list Z) * option err :=
  match r with
  | None => (perms (length l) l, None)
  | Some r => if (r <? 0)%Z then ([], Some ValueError) else (perms (zn r) l, None)
  end.
Definition product_spec (rep : Z) (ls : list (list Z)) : list (list Z) * option err :=
  if (rep <? 0)%Z then ([], Some ValueError) else (product_oracle ls (zn rep), None).

Definition compress_spec (d s : list Z) : list Z * option err :=
  (map fst (filter (fun p => truthy (snd p)) (combine d s)), None).

Definition count_spec (start step : Z) (k : nat) : list Z * option err :=
  (map (fun i => (start + Z.of_nat i * step)%Z) (seq 0 k), None).

Definition cycle_spec (l : list Z) (k : nat) : list Z * option err :=
  (firstn k (concat (repeat l k)), None).

Fixpoint dropwhile_list (p : Z -> bool) (l : list Z) : list Z :=
  match l with [] => [] | x :: r => if p x then dropwhile_list p r else l end.
Definition dropwhile_spec (p : Z -> bool) (l : list Z) : list Z * option err := (dropwhile_list p l, None).

Definition filterfalse_spec (p : Z -> bool) (l : list Z) : list Z * option err :=
  (filter (fun x => negb (p x)) l, None).

Fixpoint takewhile_list (p : Z -> bool) (l : list Z) : list Z :=
  match l with [] => [] | x :: r => if p x then x :: takewhile_list p r else [] end.

(* a group = an element and the longest run of following elements whose key is `same` as that first element's key
   (itertools compares the key of the group's FIRST element with every later key, in that order) *)
Fixpoint groupby_fuel (fuel : nat) (same : Z -> Z -> bool) (key : Z -> Z) (l : list Z) : list (Z * list Z) :=
  match fuel with
  | 0 => []
  | S f => match l with
           | [] => []
           | x :: r => (key x, x :: takewhile_list (fun y => same (key x) (key y)) r)
                       :: groupby_fuel f same key (dropwhile_list (fun y => same (key x) (key y)) r)
           end
  end.
Definition groupby_spec (same : Z -> Z -> bool) (key : Z -> Z) (l : list Z) : list (Z * list Z) * option err :=
  (groupby_fuel (length l) same key l, None).

Fixpoint enumZ (i : Z) (l : list Z) : list (Z * Z) :=
  match l with [] => [] | x :: r => (i, x) :: enumZ (i + 1)%Z r end.

Definition islice_sel (start : Z) (stop : option Z) (step : Z) (p : Z * Z) : bool :=
  (start <=? fst p)%Z && below (fst p) stop && ((fst p - start) mod step =? 0)%Z.

Definition islice_spec (args : list (option Z)) (l : list Z) : list Z * option err :=
  match args with
  | [] => ([], Some TypeError)
  | _ :: _ :: _ :: _ :: _ => ([], Some TypeError)
  | _ =>
      let '(a, b, c) := slice_args args in
      if neg_opt a || neg_opt b || neg_opt c || (dflt 1 c <=? 0)%Z then ([], Some ValueError)
      else (map snd (filter (islice_sel (dflt 0 a) b (dflt 1 c)) (enumZ 0 l)), None)
  end.

(* how many elements islice takes from its source (itertools: the first max(start, stop) if there are that many) *)
Definition islice_consumed (args : list (option Z)) (l : list Z) : nat :=
  let '(a, b, c) := slice_args args in
  match b with
  | None => length l
  | Some st => Nat.min (length l) (Z.to_nat (Z.max (dflt 0 a) st))
  end.

(* chain(islice(it, *args), it) over ONE shared iterator: the slice, then whatever the slice left in it *)
Definition islice_then_rest_spec (args : list (option Z)) (l : list Z) : list Z * option err :=
  match snd (islice_spec args l) with
  | Some e => ([], Some e)
  | None => (fst (islice_spec args l) ++ skipn (islice_consumed args l) l, None)
  end.

Definition pairwise_spec (l : list Z) : list (Z * Z) * option err := (combine l (List.tl l), None).

Definition repeat_spec (x : Z) (times : option Z) (k : nat) : list Z * option err :=
  match times with
  | None => (repeat x k, None)
  | Some t => (repeat x (zn t), None)
  end.

Definition starmap_spec (f : list Z -> Z) (ls : list (list Z)) : list Z * option err := (map f ls, None).

Definition takewhile_spec (p : Z -> bool) (l : list Z) : list Z * option err := (takewhile_list p l, None).

Definition max_len (ls : list (list Z)) : nat := fold_right (fun l a => Nat.max (length l) a) 0 ls.
Definition zip_longest_spec (fill : Z) (ls : list (list Z)) : list (list Z) * option err :=
  (map (fun i => map (fun l => nth i l fill) ls) (seq 0 (max_len ls)), None).

Fixpoint fold_p (f : Z -> Z -> option Z) (l : list Z) (a : Z) : option Z :=
  match l with
  | [] => Some a
  | x :: r => match f a x with Some t => fold_p f r t | None => None end
  end.

Definition reduce_result (o : option Z) : list Z * option err :=
  match o with Some v => ([v], None) | None => ([], Some TypeError) end.

Definition reduce_spec (f : Z -> Z -> option Z) (initial : option Z) (l : list Z) : list Z * option err :=
  match initial with
  | None => match l with [] => ([], Some TypeError) | x :: r => reduce_result (fold_p f r x) end
  | Some i => reduce_result (fold_p f l i)
  end.

(* ------------------------------------------------------------------------------------------------ *)
(* tee (80-143, 558-571): LTS over the atomic segments of the consumers' __anext__ calls.
   Consumer c runs in its own task; segments end where the code really suspends:
   Lock.acquire's shielded yield / wait for the lock, the adaptor's (or a suspending async source's) yield
   while the source is being advanced, checkpoint(), cancel_shielded_checkpoint(). *)
Inductive cell := CVal (v : Z) | CEnd.

Inductive tph :=
| TIdle
| TLockYield              (* took the free lock, suspended in Lock.acquire's shielded checkpoint *)
| TLockWait               (* queued on the lock *)
| TFilling (x : cell)     (* holds the lock, source already advanced to x, suspended before storing it *)
| TEndCk                  (* at the end cell, suspended in checkpoint() *)
| TRetSh (v : Z).         (* suspended in the final cancel_shielded_checkpoint() before returning v *)

(* TCopy c k: `tee(it_c, k)` on the existing tee iterator it_c - k new consumers (numbered from tn on) that share the
   state and start at it_c's current link, each with its own _element_yielded = False; it_c itself is untouched and
   stays usable (lines 112-122, 567-570) *)
Inductive top := TNext (c : nat) | TResume (c : nat) | TCopy (c k : nat).
Inductive tres := TBlocked | TRet (v : Z) | TStop | TRejected | TCopied (first : nat).

(* source mode: 0 sync (adaptor), 1 async never suspending, 2 async suspending once per __anext__ *)
Record tst := mkT {
  tmode : nat;
  tsrc : list Z;                 (* what the source has not produced yet *)
  tcells : nat -> option cell;   (* link i: None = not filled *)
  towner : option nat;
  twait : list nat;
  tlink : nat -> nat;
  tyielded : nat -> bool;
  tphase : nat -> tph;
  tn : nat;
  tseen : nat -> list Z;         (* ghost: values returned to consumer c, in order *)
  tstopped : nat -> bool;        (* ghost: consumer c has seen StopAsyncIteration *)
  tpolled : list cell;           (* ghost: result of every __anext__ of the source, in order *)
  tstart : nat -> nat;           (* ghost: link at which consumer c started (0, or the original's link for a copy) *)
  tcks : nat -> nat;             (* ghost: checkpoint events logged by consumer c's segments *)
  tlocks : nat -> nat;           (* ghost: Lock.acquire() calls of consumer c (each one is a checkpoint, C08/C09) *)
  tchk : nat -> nat;             (* ghost: cancellation-check events (Ck, CkIf) logged by consumer c's segments *)
  tyld : nat -> nat              (* ghost: yielding events (Ck, Sh) logged by consumer c's segments *)
}.

Definition tinit (mode : nat) (l : list Z) (n : nat) : tst :=
  mkT mode l (fun _ => None) None [] (fun _ => 0) (fun _ => false) (fun _ => TIdle) n
      (fun _ => []) (fun _ => false) [] (fun _ => 0) (fun _ => 0) (fun _ => 0) (fun _ => 0) (fun _ => 0).

Definition set_phase (s : tst) (c : nat) (p : tph) : tst :=
  mkT (tmode s) (tsrc s) (tcells s) (towner s) (twait s) (tlink s) (tyielded s) (upd (tphase s) c p) (tn s)
      (tseen s) (tstopped s) (tpolled s) (tstart s) (tcks s) (tlocks s) (tchk s) (tyld s).

(* The step function is a composition of the following moves.  TIdle also stands for "running": a move that
   resumes a suspended consumer first marks it TIdle (t_wake). *)
Definition t_wake (s : tst) (c : nat) : tst := set_phase s c TIdle.

(* Lock.release() by the owner (no cancelled waiters here) *)
Definition t_release (s : tst) : tst :=
  match twait s with
  | [] => mkT (tmode s) (tsrc s) (tcells s) None [] (tlink s) (tyielded s) (tphase s) (tn s)
              (tseen s) (tstopped s) (tpolled s) (tstart s) (tcks s) (tlocks s) (tchk s) (tyld s)
  | w :: r => mkT (tmode s) (tsrc s) (tcells s) (Some w) r (tlink s) (tyielded s) (tphase s) (tn s)
                  (tseen s) (tstopped s) (tpolled s) (tstart s) (tcks s) (tlocks s) (tchk s) (tyld s)
  end.

(* __anext__ after fill() returned had_yieldpoint (lines 126-143) *)
Definition t_finish (s : tst) (c : nat) (had : bool) : tst * tres * list (event Z) :=
  match tcells s (tlink s c) with
  | Some CEnd =>
      if tyielded s c then
        (mkT (tmode s) (tsrc s) (tcells s) (towner s) (twait s) (tlink s) (tyielded s) (upd (tphase s) c TIdle)
             (tn s) (tseen s) (upd (tstopped s) c true) (tpolled s) (tstart s) (tcks s) (tlocks s) (tchk s) (tyld s), TStop, [])
      else (set_phase s c TEndCk, TBlocked, [Ck])
  | Some (CVal v) =>
      if had then
        (mkT (tmode s) (tsrc s) (tcells s) (towner s) (twait s) (upd (tlink s) c (S (tlink s c)))
             (upd (tyielded s) c true) (upd (tphase s) c TIdle) (tn s)
             (upd (tseen s) c (tseen s c ++ [v])) (tstopped s) (tpolled s) (tstart s) (tcks s) (tlocks s) (tchk s) (tyld s), TRet v, [])
      else
        (mkT (tmode s) (tsrc s) (tcells s) (towner s) (twait s) (upd (tlink s) c (S (tlink s c)))
             (upd (tyielded s) c true) (upd (tphase s) c (TRetSh v)) (tn s)
             (tseen s) (tstopped s) (tpolled s) (tstart s) (tcks s) (tlocks s) (tchk s) (tyld s), TBlocked, [CkIf; Sh])
  | None => (s, TRejected, [])
  end.

(* `link.value = ...; link.next = _TeeLink(); link.filled = True` by the (running) lock owner *)
Definition t_store (s : tst) (c : nat) (x : cell) : tst :=
  mkT (tmode s) (tsrc s) (upd (tcells s) (tlink s c) (Some x)) (towner s) (twait s) (tlink s)
      (tyielded s) (upd (tphase s) c TIdle) (tn s) (tseen s) (tstopped s) (tpolled s) (tstart s) (tcks s) (tlocks s) (tchk s) (tyld s).

(* store x into the consumer's link, release the lock, finish *)
Definition t_fill (s : tst) (c : nat) (x : cell) : tst * tres * list (event Z) :=
  t_finish (t_release (t_store s c x)) c true.

Definition next_cell (s : tst) : cell := match tsrc s with [] => CEnd | v :: _ => CVal v end.

(* `await anext(self.iterator, _tee_end)` by the lock owner: the source has produced next_cell, the consumer
   holds it (TFilling) until it is stored *)
Definition t_poll (s : tst) (c : nat) : tst :=
  mkT (tmode s) (List.tl (tsrc s)) (tcells s) (towner s) (twait s) (tlink s) (tyielded s)
      (upd (tphase s) c (TFilling (next_cell s))) (tn s) (tseen s) (tstopped s) (tpolled s ++ [next_cell s])
      (tstart s) (tcks s) (tlocks s) (tchk s) (tyld s).

(* consumer c owns the lock: `if link.filled: return True` else advance the source (lines 96-104) *)
Definition t_locked (s : tst) (c : nat) : tst * tres * list (event Z) :=
  let s0 := t_wake s c in
  match tcells s0 (tlink s0 c) with
  | Some _ => t_finish (t_release s0) c true
  | None =>
      let x := next_cell s0 in
      let s1 := t_poll s0 c in
      match tmode s with
      | 0 => (s1, TBlocked, [CkIf; Sh])
      | 1 => t_fill s1 c x
      | _ => (s1, TBlocked, [])
      end
  end.

Definition is_tidle (p : tph) : bool := match p with TIdle => true | _ => false end.
Definition owner_is (o : option nat) (c : nat) : bool := match o with Some x => Nat.eqb x c | None => false end.

Definition t_take (s : tst) (c : nat) : tst :=
  mkT (tmode s) (tsrc s) (tcells s) (Some c) [] (tlink s) (tyielded s)
      (upd (tphase s) c TLockYield) (tn s) (tseen s) (tstopped s) (tpolled s) (tstart s) (tcks s)
      (upd (tlocks s) c (S (tlocks s c))) (tchk s) (tyld s).

Definition t_enqueue (s : tst) (c : nat) : tst :=
  mkT (tmode s) (tsrc s) (tcells s) (towner s) (twait s ++ [c]) (tlink s) (tyielded s)
      (upd (tphase s) c TLockWait) (tn s) (tseen s) (tstopped s) (tpolled s) (tstart s) (tcks s)
      (upd (tlocks s) c (S (tlocks s c))) (tchk s) (tyld s).

Definition t_stop (s : tst) (c : nat) : tst :=
  mkT (tmode s) (tsrc s) (tcells s) (towner s) (twait s) (tlink s) (tyielded s) (upd (tphase s) c TIdle)
      (tn s) (tseen s) (upd (tstopped s) c true) (tpolled s) (tstart s) (tcks s) (tlocks s) (tchk s) (tyld s).

Definition t_return (s : tst) (c : nat) (v : Z) : tst :=
  mkT (tmode s) (tsrc s) (tcells s) (towner s) (twait s) (tlink s) (tyielded s) (upd (tphase s) c TIdle)
      (tn s) (upd (tseen s) c (tseen s c ++ [v])) (tstopped s) (tpolled s) (tstart s) (tcks s) (tlocks s) (tchk s) (tyld s).

(* new consumers j in [tn, tn + k): override f on that range *)
Definition on_new {A} (s : tst) (k : nat) (f : nat -> A) (v : A) : nat -> A :=
  fun j => if Nat.leb (tn s) j && Nat.ltb j (tn s + k) then v else f j.

Definition t_copy (s : tst) (c k : nat) : tst :=
  mkT (tmode s) (tsrc s) (tcells s) (towner s) (twait s) (on_new s k (tlink s) (tlink s c))
      (on_new s k (tyielded s) false) (tphase s) (tn s + k) (on_new s k (tseen s) [])
      (on_new s k (tstopped s) false) (tpolled s) (on_new s k (tstart s) (tlink s c))
      (on_new s k (tcks s) 0) (on_new s k (tlocks s) 0) (on_new s k (tchk s) 0) (on_new s k (tyld s) 0).

Definition tstep0 (s : tst) (o : top) : tst * tres * list (event Z) :=
  match o with
  | TCopy c k => if Nat.ltb c (tn s) then (t_copy s c k, TCopied (tn s), []) else (s, TRejected, [])
  | TNext c =>
      if negb (Nat.ltb c (tn s)) || negb (is_tidle (tphase s c)) then (s, TRejected, []) else
      match tcells s (tlink s c) with
      | Some _ => t_finish s c false
      | None =>
          match towner s, twait s with
          | None, [] => (t_take s c, TBlocked, [])
          | _, _ => (t_enqueue s c, TBlocked, [])
          end
      end
  | TResume c =>
      if negb (Nat.ltb c (tn s)) then (s, TRejected, []) else
      match tphase s c with
      | TIdle => (s, TRejected, [])
      | TLockYield => t_locked s c
      | TLockWait => if owner_is (towner s) c then t_locked s c else (s, TRejected, [])
      | TFilling x => t_fill s c x
      | TEndCk => (t_stop s c, TStop, [])
      | TRetSh v => (t_return s c v, TRet v, [])
      end
  end.

(* ghost bookkeeping: the checkpoint events of a segment are attributed to the consumer that ran it *)
Definition count_ck (ev : list (event Z)) : nat := length (filter is_ck ev).
Definition op_consumer (o : top) : nat := match o with TNext c | TResume c | TCopy c _ => c end.
Definition t_bump (s : tst) (c n : nat) : tst :=
  mkT (tmode s) (tsrc s) (tcells s) (towner s) (twait s) (tlink s) (tyielded s) (tphase s) (tn s) (tseen s)
      (tstopped s) (tpolled s) (tstart s) (upd (tcks s) c (tcks s c + n)) (tlocks s) (tchk s) (tyld s).
Definition count_check (ev : list (event Z)) : nat := length (filter is_check ev).
Definition count_yield (ev : list (event Z)) : nat := length (filter is_yield ev).
Definition t_bump2 (s : tst) (c nc ny : nat) : tst :=
  mkT (tmode s) (tsrc s) (tcells s) (towner s) (twait s) (tlink s) (tyielded s) (tphase s) (tn s) (tseen s)
      (tstopped s) (tpolled s) (tstart s) (tcks s) (tlocks s) (upd (tchk s) c (tchk s c + nc)) (upd (tyld s) c (tyld s c + ny)).

Definition tstep (s : tst) (o : top) : tst * tres * list (event Z) :=
  let '(s1, r, ev) := tstep0 s o in
  (t_bump2 (t_bump s1 (op_consumer o) (count_ck ev)) (op_consumer o) (count_check ev) (count_yield ev), r, ev).

Definition tstep1 (s : tst) (o : top) : tst * (tres * list (event Z)) :=
  let '(s1, r, ev) := tstep s o in (s1, (r, ev)).

Definition trun (mode : nat) (l : list Z) (n : nat) (ops : list top) : tst :=
  final tstep1 (tinit mode l n) ops.

(* tee(): argument check (lines 561-565) *)
Definition tee_count (n : Z) : nat + err := if (n <? 0)%Z then inr ValueError else inl (zn n).

(* ------------------------------------------------------------------------------------------------ *)
(* Aliasing: the same iterator OBJECT passed at several argument positions (e.g. the "grouper" recipe
   zip_longest of n references to one iterator).  The underlying iterators live in a store indexed by nat
   (remaining elements, and the kind of each: a synchronous iterator object - every position wraps it in its own
   _IterableAsyncIterator but they share the underlying iterator - or an asynchronous iterator object, which
   _iterate returns unchanged); an argument position is an index into the store.  Distinct sources are the special
   case in which no index occurs twice. *)
Definition istore := nat -> list Z.
Definition ikinds := nat -> kind.

(* what each position receives when the positions are drained completely, one after the other *)
Fixpoint drain (st : istore) (ps : list nat) : list (list Z) :=
  match ps with
  | [] => []
  | i :: r => st i :: drain (upd st i []) r
  end.

(* chain.from_iterable over aliased inner iterables *)
Fixpoint chain_alias_go (ko : kind) (kd : ikinds) (st : istore) (ps : list nat) (yielded : bool) : list (event Z) :=
  match ps with
  | [] => pre ko ++ tail yielded
  | i :: r => pre ko ++ iter_all (kd i) (st i) ++ chain_alias_go ko kd (upd st i []) r (yielded || nonempty (st i))
  end.

Definition chain_alias_model (ko : kind) (kd : ikinds) (st : istore) (ps : list nat) : trace Z :=
  (chain_alias_go ko kd st ps false, None).

(* product over aliased iterables *)
Fixpoint collect_alias {B} (kd : ikinds) (st : istore) (ps : list nat) : list (event B) :=
  match ps with
  | [] => []
  | i :: r => collect (kd i) (st i) ++ collect_alias kd (upd st i []) r
  end.

Definition product_alias_model (rep : Z) (kd : ikinds) (st : istore) (ps : list nat) : trace (list Z) :=
  if (rep <? 0)%Z then ([], Some ValueError)
  else (collect_alias kd st ps ++ emit_sync (product_oracle (drain st ps) (zn rep)), None).

(* starmap whose argument iterables are aliased *)
Fixpoint starmap_alias_go (f : list Z -> Z) (ko : kind) (kd : ikinds) (st : istore) (ps : list nat) (yielded : bool)
  : list (event Z) :=
  match ps with
  | [] => pre ko ++ tail yielded
  | i :: r => pre ko ++ collect (kd i) (st i) ++ Yield (f (st i)) :: starmap_alias_go f ko kd (upd st i []) r true
  end.

Definition starmap_alias_model (f : list Z -> Z) (ko : kind) (kd : ikinds) (st : istore) (ps : list nat) : trace Z :=
  (starmap_alias_go f ko kd st ps false, None).

(* compress(it, it): data and selectors are the same iterator *)
Fixpoint compress_self_go (k : kind) (l : list Z) (y : bool) : list (event Z) :=
  match l with
  | [] => pre k ++ tail y
  | [_] => pre k ++ pre k ++ tail y
  | x :: b :: r => pre k ++ pre k ++ if truthy b then Yield x :: compress_self_go k r true
                                     else compress_self_go k r y
  end.

Definition compress_self_model (s : src) : trace Z := (compress_self_go (fst s) (snd s) false, None).

(* zip_longest over aliased iterables *)
Record zpos := mkP { p_idx : nat; p_active : bool }.

Fixpoint zla_round (fill : Z) (kd : ikinds) (st : istore) (ps : list zpos) (num_active : nat) (yielded : bool)
  : list (event (list Z)) * istore * option (list Z * list zpos * nat) :=
  match ps with
  | [] => ([], st, Some ([], [], num_active))
  | p :: rest =>
      if negb (p_active p) then
        let '(ev, st', r) := zla_round fill kd st rest num_active yielded in
        (ev, st', match r with
                  | Some (vs, ps', na) => Some (fill :: vs, p :: ps', na)
                  | None => None
                  end)
      else
        match st (p_idx p) with
        | x :: xs =>
            let '(ev, st', r) := zla_round fill kd (upd st (p_idx p) xs) rest num_active yielded in
            (pre (kd (p_idx p)) ++ ev, st',
             match r with
             | Some (vs, ps', na) => Some (x :: vs, p :: ps', na)
             | None => None
             end)
        | [] =>
            match pred num_active with
            | 0 => (pre (kd (p_idx p)) ++ tail yielded, st, None)
            | S _ as na1 =>
                let '(ev, st', r) := zla_round fill kd st rest na1 yielded in
                (pre (kd (p_idx p)) ++ ev, st',
                 match r with
                 | Some (vs, ps', na) => Some (fill :: vs, mkP (p_idx p) false :: ps', na)
                 | None => None
                 end)
            end
        end
  end.

Fixpoint zla_loop (fuel : nat) (fill : Z) (kd : ikinds) (st : istore) (ps : list zpos) (na : nat) (yielded : bool)
  : option (list (event (list Z))) :=
  match fuel with
  | 0 => None
  | S f => match zla_round fill kd st ps na yielded with
           | (ev, _, None) => Some ev
           | (ev, st', Some (vs, ps', na')) =>
               match zla_loop f fill kd st' ps' na' true with
               | Some t => Some (ev ++ Yield vs :: t)
               | None => None
               end
           end
  end.

Definition alias_measure (st : istore) (ps : list nat) : nat := fold_right (fun i a => length (st i) + a) 0 ps.

(* None = out of fuel (never: see zip_longest_alias_agrees) *)
Definition zip_longest_alias_run (fill : Z) (kd : ikinds) (st : istore) (ps : list nat)
  : option (list (event (list Z))) :=
  match ps with
  | [] => Some [Ck]
  | _ => zla_loop (S (alias_measure st ps)) fill kd st (map (fun i => mkP i true) ps) (length ps) false
  end.

Definition zip_longest_alias_model (fill : Z) (kd : ikinds) (st : istore) (ps : list nat) : trace (list Z) :=
  match zip_longest_alias_run fill kd st ps with Some t => (t, None) | None => ([], None) end.

(* chain(islice(it, *args), it): the slice and then the rest of the SAME iterator.  The rest is what the slice did
   not take: the number of its successful polls is min(polls, length). *)
Fixpoint drain_nx (k : kind) (l : list Z) : list (event Z) :=
  match l with
  | [] => poll k
  | x :: r => poll k ++ Yield x :: drain_nx k r
  end.

Definition islice_then_rest_model (ko : kind) (args : list (option Z)) (s : src) : trace Z :=
  let t := islice_model args s in
  match snd t with
  | Some e => (pre ko ++ fst t, Some e)
  | None =>
      let rest := skipn (Nat.min (count_next (fst t)) (length (snd s))) (snd s) in
      (pre ko ++ fst t ++ pre ko ++ drain_nx (fst s) rest ++ pre ko
         ++ tail (match yields (fst t) with [] => false | _ => true end || nonempty rest), None)
  end.

(* reduce(f, <not an iterable>): the cancellation check, then TypeError *)
Definition reduce_model_noniterable : trace Z := ([CkIf], Some TypeError).

(* ---- specs: the standard-library semantics when positions share underlying iterators ---- *)
Definition chain_alias_spec (st : istore) (ps : list nat) : list Z * option err := (concat (drain st ps), None).
Definition product_alias_spec (rep : Z) (st : istore) (ps : list nat) : list (list Z) * option err :=
  product_spec rep (drain st ps).
Definition starmap_alias_spec (f : list Z -> Z) (st : istore) (ps : list nat) : list Z * option err :=
  (map f (drain st ps), None).

Fixpoint pair_up (l : list Z) : list (Z * Z) :=
  match l with
  | x :: b :: r => (x, b) :: pair_up r
  | _ => []
  end.
Definition compress_self_spec (l : list Z) : list Z * option err :=
  (map fst (filter (fun p => truthy (snd p)) (pair_up l)), None).

(* zip_longest: in every round each position that is not exhausted takes the next element of its (possibly
   shared) iterator, in argument order; a position whose iterator has nothing left is exhausted from then on and
   contributes the fill value; the round in which the last position becomes exhausted produces nothing *)
Fixpoint zs_round (fill : Z) (st : istore) (ps : list zpos) : list Z * istore * list zpos :=
  match ps with
  | [] => ([], st, [])
  | p :: rest =>
      if p_active p then
        match st (p_idx p) with
        | x :: xs => let '(vs, st', ps') := zs_round fill (upd st (p_idx p) xs) rest in (x :: vs, st', p :: ps')
        | [] => let '(vs, st', ps') := zs_round fill st rest in (fill :: vs, st', mkP (p_idx p) false :: ps')
        end
      else let '(vs, st', ps') := zs_round fill st rest in (fill :: vs, st', p :: ps')
  end.

Fixpoint zs_rows (fuel : nat) (fill : Z) (st : istore) (ps : list zpos) : option (list (list Z)) :=
  match fuel with
  | 0 => None
  | S f => let '(vs, st', ps') := zs_round fill st ps in
           if existsb p_active ps' then
             match zs_rows f fill st' ps' with Some rows => Some (vs :: rows) | None => None end
           else Some []
  end.

(* None = out of fuel (never: see zip_longest_alias_agrees) *)
Definition zip_longest_alias_spec (fill : Z) (st : istore) (ps : list nat) : option (list (list Z)) :=
  zs_rows (S (alias_measure st ps)) fill st (map (fun i => mkP i true) ps).

(* ------------------------------------------------------------------------------------------------ *)
(* Closed callback families (the same functions exist in harness/c19.py) *)
Definition fn2 (c : Z) : Z -> Z -> Z :=
  match c with
  | 0 => Z.add | 1 => Z.mul | 2 => Z.max | 3 => fun a _ => a | 4 => fun _ b => b
  | 5 => fun a b => (2 * a + b)%Z | _ => fun a b => (a - b)%Z
  end%Z.

Definition predf (c : Z) : Z -> bool :=
  match c with
  | 0 => fun x => (x mod 2 =? 1)%Z | 1 => fun x => (x <? 1)%Z | 2 => fun x => (x <? 2)%Z
  | 3 => fun _ => true | 4 => fun _ => false | 6 => is_none | _ => fun x => (x =? 1)%Z
  end%Z.

(* the callbacks of accumulate / reduce as Python runs them: arithmetic on None raises TypeError; first, second and
   coalesce (`b if b is not None else a`) accept anything *)
Definition lift2 (g : Z -> Z -> Z) (a b : Z) : option Z := if is_none a || is_none b then None else Some (g a b).
Definition fn2p (c : Z) : Z -> Z -> option Z :=
  match c with
  | 0 => lift2 Z.add | 1 => lift2 Z.mul | 2 => lift2 Z.max | 3 => fun a _ => Some a | 4 => fun _ b => Some b
  | 5 => lift2 (fun a b => (2 * a + b)%Z) | 7 => fun a b => Some (if is_none b then a else b)
  | _ => lift2 (fun a b => (a - b)%Z)
  end%Z.

Definition keyf (c : Z) : Z -> Z :=
  match c with
  | 0 => fun x => x | 1 => fun x => (x mod 2)%Z | 2 => fun _ => 0%Z | 3 => fun x => (x / 2)%Z
  | _ => fun x => (if x =? 1 then 1 else 0)%Z
  end%Z.

(* objects: 100 * identity + value; value 99 is a NaN (x != x).  same_obj = identical object, or equal values that are
   not NaN - what `a is b or a == b` gives on ints and NaNs; eq_only = `==` alone (the test before the F35 fix) *)
Definition eq_only (a b : Z) : bool := ((a mod 100 =? b mod 100) && negb (a mod 100 =? 99))%Z.
Definition same_obj (a b : Z) : bool := (a =? b)%Z || eq_only a b.
Definition samef (c : Z) : Z -> Z -> bool := match c with 0%Z => Z.eqb | _ => same_obj end.
(* keys for the NaN family: 0 identity (key=None), 1 one NaN object for every element, 2 is-NaN indicator *)
Definition keyf2 (c : Z) : Z -> Z :=
  match c with
  | 0 => fun x => x | 1 => fun _ => 99%Z | _ => fun x => (if x mod 100 =? 99 then 1 else 0)%Z
  end%Z.

Definition fnN (c : Z) : list Z -> Z :=
  match c with
  | 0 => fun l => fold_left Z.add l 0%Z
  | 1 => fun l => fold_left Z.mul l 1%Z
  | 2 => fun l => Z.of_nat (length l)
  | 3 => fun l => hd (-1)%Z l
  | _ => fun l => fold_left (fun a x => (2 * a + x)%Z) l 0%Z
  end%Z.

(* ------------------------------------------------------------------------------------------------ *)
(* Codec.  Input: flat integers; sources are [kind; len; elements…], options [0] / [1; v].
   Output: events Yield v -> 0 :: len :: enc v, Ck -> 1, CkIf -> 2, Sh -> 3, Call -> 6, Nx -> 7; end marker 5 (ok), 4;1 (ValueError),
   4;2 (TypeError). *)
Definition rd_list (l : list Z) : list Z * list Z :=
  match l with
  | n :: r => (firstn (zn n) r, skipn (zn n) r)
  | [] => ([], [])
  end.

Definition rd_kind (z : Z) : kind := if (z =? 0)%Z then KSync else KAsync.

Definition rd_src (l : list Z) : src * list Z :=
  match l with
  | k :: r => let (xs, r') := rd_list r in ((rd_kind k, xs), r')
  | [] => ((KSync, []), [])
  end.

Definition rd_opt (l : list Z) : option Z * list Z :=
  match l with
  | 0%Z :: r => (None, r)
  | _ :: v :: r => (Some v, r)
  | _ => (None, [])
  end.

Fixpoint rd_srcs (n : nat) (l : list Z) : list src * list Z :=
  match n with
  | 0 => ([], l)
  | S n' => let (s, r) := rd_src l in let (ss, r') := rd_srcs n' r in (s :: ss, r')
  end.

Fixpoint rd_opts (n : nat) (l : list Z) : list (option Z) * list Z :=
  match n with
  | 0 => ([], l)
  | S n' => let (o, r) := rd_opt l in let (os, r') := rd_opts n' r in (o :: os, r')
  end.

(* store: [n; src_1 … src_n] -> kinds and remaining elements by index *)
Definition rd_store (l : list Z) : ikinds * istore * list Z :=
  match l with
  | n :: r => let (ss, r') := rd_srcs (zn n) r in
              (fun i => fst (nth i ss (KSync, [])), fun i => snd (nth i ss (KSync, [])), r')
  | [] => (fun _ => KSync, fun _ => [], [])
  end.

Definition rd_nats (l : list Z) : list nat * list Z := let (xs, r) := rd_list l in (map zn xs, r).

Definition enc_end (e : option err) : list Z :=
  match e with None => [5] | Some ValueError => [4; 1] | Some TypeError => [4; 2] | Some Cancelled => [4; 3] end%Z.

Definition enc_yield {A} (enc : A -> list Z) (v : A) : list Z :=
  0%Z :: nz (length (enc v)) :: enc v.

Definition enc_event {A} (enc : A -> list Z) (e : event A) : list Z :=
  match e with Yield v => enc_yield enc v | Ck => [1%Z] | CkIf => [2%Z] | Sh => [3%Z] | Call => [6%Z] | Nx => [7%Z] end.

Definition enc_trace {A} (enc : A -> list Z) (t : trace A) : list Z :=
  flat_map (enc_event enc) (fst t) ++ enc_end (snd t).

Definition enc_outcome {A} (enc : A -> list Z) (o : list A * option err) : list Z :=
  flat_map (enc_yield enc) (fst o) ++ enc_end (snd o).

Definition eZ (z : Z) : list Z := [z].
Definition eL (l : list Z) : list Z := l.
Definition eP (p : Z * Z) : list Z := [fst p; snd p].
Definition eG (p : Z * list Z) : list Z := fst p :: snd p.

(* fill value of zip_longest: None is transported as this sentinel on both sides *)

Definition run_model_case (c : list Z) : list Z :=
  match c with
  | 1 :: fc :: r => let (i, r1) := rd_opt r in let (s, _) := rd_src r1 in
                    enc_trace eZ (accumulate_model (fn2p fc) i s)
  | 2 :: n :: st :: r => let (s, _) := rd_src r in enc_trace eL (batched_model n (zb st) s)
  | 3 :: ko :: n :: r => let (ss, _) := rd_srcs (zn n) r in enc_trace eZ (chain_model (rd_kind ko) ss)
  | 4 :: rr :: r => let (s, _) := rd_src r in enc_trace eL (combinations_model rr s)
  | 5 :: rr :: r => let (s, _) := rd_src r in enc_trace eL (cwr_model rr s)
  | 6 :: r => let (d, r1) := rd_src r in let (s, _) := rd_src r1 in enc_trace eZ (compress_model d s)
  | 7 :: start :: step :: k :: _ => enc_trace eZ (count_model start step (zn k))
  | 8 :: k :: r => let (s, _) := rd_src r in enc_trace eZ (cycle_model s (zn k))
  | 9 :: pc :: r => let (s, _) := rd_src r in enc_trace eZ (dropwhile_model (predf pc) s)
  | 10 :: pc :: r => let (s, _) := rd_src r in enc_trace eZ (filterfalse_model (predf pc) s)
  | 11 :: kc :: r => let (s, _) := rd_src r in enc_trace eG (groupby_model Z.eqb (keyf kc) s)
  | 12 :: na :: r => let (args, r1) := rd_opts (zn na) r in let (s, _) := rd_src r1 in
                     enc_trace eZ (islice_model args s)
  | 13 :: r => let (s, _) := rd_src r in enc_trace eP (pairwise_model s)
  | 14 :: r => let (rr, r1) := rd_opt r in let (s, _) := rd_src r1 in enc_trace eL (permutations_model rr s)
  | 15 :: rep :: n :: r => let (ss, _) := rd_srcs (zn n) r in enc_trace eL (product_model rep ss)
  | 16 :: x :: k :: r => let (t, _) := rd_opt r in enc_trace eZ (repeat_model x t (zn k))
  | 17 :: fc :: ko :: n :: r => let (ss, _) := rd_srcs (zn n) r in
                                enc_trace eZ (starmap_model (fnN fc) (rd_kind ko) ss)
  | 18 :: pc :: r => let (s, _) := rd_src r in enc_trace eZ (takewhile_model (predf pc) s)
  | 19 :: n :: r => let (f, r1) := rd_opt r in let (ss, _) := rd_srcs (zn n) r1 in
                    enc_trace eL (zip_longest_model (dflt none_code f) ss)
  | 21 :: fc :: r => let (i, r1) := rd_opt r in let (s, _) := rd_src r1 in
                     enc_trace eZ (reduce_model (fn2p fc) i s false)
  | 28 :: fc :: r => let (i, r1) := rd_opt r in let (s, _) := rd_src r1 in
                     enc_trace eZ (reduce_model (fn2p fc) i s true)
  | 29 :: kc :: r => let (s, _) := rd_src r in enc_trace eG (groupby_model same_obj (keyf2 kc) s)
  | 30 :: ko :: na :: r => let (args, r1) := rd_opts (zn na) r in let (s, _) := rd_src r1 in
                           enc_trace eZ (islice_then_rest_model (rd_kind ko) args s)
  | 31 :: _ => enc_trace eZ reduce_model_noniterable
  | 22 :: n :: _ => match tee_count n with inr _ => [4; 1] | inl k => [5; nz k] end
  | 23 :: r => let (f, r1) := rd_opt r in let '(kd, st, r2) := rd_store r1 in let (ps, _) := rd_nats r2 in
               enc_trace eL (zip_longest_alias_model (dflt none_code f) kd st ps)
  | 24 :: ko :: r => let '(kd, st, r2) := rd_store r in let (ps, _) := rd_nats r2 in
                     enc_trace eZ (chain_alias_model (rd_kind ko) kd st ps)
  | 25 :: r => let (s, _) := rd_src r in enc_trace eZ (compress_self_model s)
  | 26 :: rep :: r => let '(kd, st, r2) := rd_store r in let (ps, _) := rd_nats r2 in
                      enc_trace eL (product_alias_model rep kd st ps)
  | 27 :: fc :: ko :: r => let '(kd, st, r2) := rd_store r in let (ps, _) := rd_nats r2 in
                           enc_trace eZ (starmap_alias_model (fnN fc) (rd_kind ko) kd st ps)
  | _ => [9]
  end%Z.

Definition run_spec_case (c : list Z) : list Z :=
  match c with
  | 1 :: fc :: r => let (i, r1) := rd_opt r in let (s, _) := rd_src r1 in
                    enc_outcome eZ (accumulate_spec (fn2p fc) i (snd s))
  | 2 :: n :: st :: r => let (s, _) := rd_src r in enc_outcome eL (batched_spec n (zb st) (snd s))
  | 3 :: ko :: n :: r => let (ss, _) := rd_srcs (zn n) r in enc_outcome eZ (chain_spec (map snd ss))
  | 4 :: rr :: r => let (s, _) := rd_src r in enc_outcome eL (combinations_spec rr (snd s))
  | 5 :: rr :: r => let (s, _) := rd_src r in enc_outcome eL (cwr_spec rr (snd s))
  | 6 :: r => let (d, r1) := rd_src r in let (s, _) := rd_src r1 in enc_outcome eZ (compress_spec (snd d) (snd s))
  | 7 :: start :: step :: k :: _ => enc_outcome eZ (count_spec start step (zn k))
  | 8 :: k :: r => let (s, _) := rd_src r in enc_outcome eZ (cycle_spec (snd s) (zn k))
  | 9 :: pc :: r => let (s, _) := rd_src r in enc_outcome eZ (dropwhile_spec (predf pc) (snd s))
  | 10 :: pc :: r => let (s, _) := rd_src r in enc_outcome eZ (filterfalse_spec (predf pc) (snd s))
  | 11 :: kc :: r => let (s, _) := rd_src r in enc_outcome eG (groupby_spec Z.eqb (keyf kc) (snd s))
  | 12 :: na :: r => let (args, r1) := rd_opts (zn na) r in let (s, _) := rd_src r1 in
                     enc_outcome eZ (islice_spec args (snd s))
  | 13 :: r => let (s, _) := rd_src r in enc_outcome eP (pairwise_spec (snd s))
  | 14 :: r => let (rr, r1) := rd_opt r in let (s, _) := rd_src r1 in enc_outcome eL (permutations_spec rr (snd s))
  | 15 :: rep :: n :: r => let (ss, _) := rd_srcs (zn n) r in enc_outcome eL (product_spec rep (map snd ss))
  | 16 :: x :: k :: r => let (t, _) := rd_opt r in enc_outcome eZ (repeat_spec x t (zn k))
  | 17 :: fc :: ko :: n :: r => let (ss, _) := rd_srcs (zn n) r in
                                enc_outcome eZ (starmap_spec (fnN fc) (map snd ss))
  | 18 :: pc :: r => let (s, _) := rd_src r in enc_outcome eZ (takewhile_spec (predf pc) (snd s))
  | 19 :: n :: r => let (f, r1) := rd_opt r in let (ss, _) := rd_srcs (zn n) r1 in
                    enc_outcome eL (zip_longest_spec (dflt none_code f) (map snd ss))
  | 21 :: fc :: r => let (i, r1) := rd_opt r in let (s, _) := rd_src r1 in
                     enc_outcome eZ (reduce_spec (fn2p fc) i (snd s))
  | 29 :: kc :: r => let (s, _) := rd_src r in enc_outcome eG (groupby_spec same_obj (keyf2 kc) (snd s))
  | 30 :: ko :: na :: r => let (args, r1) := rd_opts (zn na) r in let (s, _) := rd_src r1 in
                           enc_outcome eZ (islice_then_rest_spec args (snd s))
  | 31 :: _ => enc_outcome eZ ([], Some TypeError)
  | 23 :: r => let (f, r1) := rd_opt r in let '(kd, st, r2) := rd_store r1 in let (ps, _) := rd_nats r2 in
               match zip_longest_alias_spec (dflt none_code f) st ps with
               | Some rows => enc_outcome eL (rows, None)
               | None => [9]
               end
  | 24 :: ko :: r => let '(kd, st, r2) := rd_store r in let (ps, _) := rd_nats r2 in
                     enc_outcome eZ (chain_alias_spec st ps)
  | 25 :: r => let (s, _) := rd_src r in enc_outcome eZ (compress_self_spec (snd s))
  | 26 :: rep :: r => let '(kd, st, r2) := rd_store r in let (ps, _) := rd_nats r2 in
                      enc_outcome eL (product_alias_spec rep st ps)
  | 27 :: fc :: ko :: r => let '(kd, st, r2) := rd_store r in let (ps, _) := rd_nats r2 in
                           enc_outcome eZ (starmap_alias_spec (fnN fc) st ps)
  | _ => [9]
  end%Z.

(* tee case: mode :: n :: len :: elements… ++ ops (code, consumer)…; per step:
   [result code; value; owner+1 (0 = free); queued; source polls so far; #events; events…] *)
(* op codes: 0 next, 1 resume, 2 + j: tee(it_t, j + 1) i.e. a copy producing j + 1 new consumers *)
Definition dec_top (c t : Z) : top :=
  if (c =? 0)%Z then TNext (zn t) else if (c =? 1)%Z then TResume (zn t) else TCopy (zn t) (zn (c - 1)).

Fixpoint dec_tops (l : list Z) : list top :=
  match l with
  | c :: t :: r => dec_top c t :: dec_tops r
  | _ => []
  end.

Definition tres_code (r : tres) : list Z :=
  match r with TBlocked => [1; 0] | TRet v => [0; v] | TStop => [2; 0] | TRejected => [9; 0] | TCopied n => [3; nz n] end%Z.

Definition tobserve (s : tst) (r : tres) (ev : list (event Z)) : list Z :=
  tres_code r ++ [oz (towner s); nz (length (twait s)); nz (length (tpolled s)); nz (length ev)]
           ++ flat_map (enc_event eZ) ev.

Fixpoint trun_obs (s : tst) (ops : list top) : list Z :=
  match ops with
  | [] => []
  | o :: r => let '(s1, res, ev) := tstep s o in tobserve s1 res ev ++ trun_obs s1 r
  end.

Definition run_tee_case (c : list Z) : list Z :=
  match c with
  | mode :: n :: r => let (l, ops) := rd_list r in trun_obs (tinit (zn mode) l (zn n)) (dec_tops ops)
  | _ => [9%Z]
  end.

(* case = selector :: rest; selector 0 = model trace, 1 = spec outcome, 2 = tee LTS *)
Definition run_case (c : list Z) : list Z :=
  match c with
  | 0%Z :: r => run_model_case r
  | 1%Z :: r => run_spec_case r
  | 2%Z :: r => run_tee_case r
  | _ => [9%Z]
  end.
