(* tee: the invariant of the LTS of pure/Itertools.v over all interleavings of consumer segments. *)
From AV Require Import Base Itertools.
From Coq Require Import ZifyBool.

Lemma firstn_snoc {A} (l : list A) k v : nth_error l k = Some v -> firstn (S k) l = firstn k l ++ [v].
Proof.
  revert k. induction l as [|a l IH]; intros k H; [destruct k; discriminate|].
  destruct k as [|k]; cbn in *; [congruence|]. now rewrite (IH k H).
Qed.

Lemma nth_skipn {A} (l : list A) : forall n i, nth_error (skipn n l) i = nth_error l (n + i).
Proof.
  induction l as [|a l IH]; intros n i; [destruct n, i; reflexivity|]. destruct n; [reflexivity|]. cbn. apply IH.
Qed.

Lemma prefix_len {A} (l s : list A) : s = firstn (length s) l -> length s <= length l.
Proof. intros H. rewrite H, firstn_length. lia. Qed.

Lemma NoDup_app_snoc {A} (l : list A) a : NoDup l -> ~ In a l -> NoDup (l ++ [a]).
Proof.
  induction 1 as [|x l Hx Hl IH]; intros Ha; cbn; [constructor; [intros []|constructor]|].
  constructor.
  - intros I. apply in_app_or in I as [I|[<-|[]]]; [contradiction|]. apply Ha. now left.
  - apply IH. intros I. apply Ha. now right.
Qed.

Section Tee.
  Variable src0 : list Z.
  Definition full : list cell := map CVal src0 ++ [CEnd].

  Lemma full_len : length full = S (length src0).
  Proof. unfold full. rewrite app_length, map_length. cbn. lia. Qed.

  Lemma full_val i v : nth_error full i = Some (CVal v) -> nth_error src0 i = Some v.
  Proof.
    unfold full. intros H. destruct (Nat.lt_ge_cases i (length src0)) as [L|L].
    - rewrite nth_error_app1 in H by now rewrite map_length.
      rewrite nth_error_map in H. destruct (nth_error src0 i); cbn in H; congruence.
    - rewrite nth_error_app2 in H by now rewrite map_length.
      rewrite map_length in H. destruct (i - length src0) as [|[|k]]; cbn in H; discriminate.
  Qed.

  Lemma full_end i : nth_error full i = Some CEnd -> i = length src0.
  Proof.
    unfold full. intros H. destruct (Nat.lt_ge_cases i (length src0)) as [L|L].
    - rewrite nth_error_app1 in H by now rewrite map_length.
      rewrite nth_error_map in H. destruct (nth_error src0 i); cbn in H; congruence.
    - rewrite nth_error_app2 in H by now rewrite map_length.
      rewrite map_length in H. destruct (i - length src0) as [|[|k]] eqn:E; cbn in H; try discriminate. lia.
  Qed.

  Lemma next_cell_spec s p : tsrc s = skipn p src0 -> p <= length src0 ->
    nth_error full p = Some (next_cell s) /\ List.tl (tsrc s) = skipn (S p) src0.
  Proof.
    intros Hs Hp. unfold next_cell. rewrite Hs. clear Hs. unfold full.
    revert p Hp. induction src0 as [|a l IH]; intros p Hp.
    - cbn in Hp. assert (p = 0) by lia. subst. cbn. auto.
    - destruct p as [|p]; [cbn; auto|]. cbn in Hp. apply (IH p). lia.
  Qed.

  Definition pending (s : tst) : nat :=
    match towner s with
    | Some o => match tphase s o with TFilling _ => 1 | _ => 0 end
    | None => 0
    end.
  Definition retp (s : tst) (c : nat) : nat := match tphase s c with TRetSh _ => 1 | _ => 0 end.
  Definition is_lock_phase (p : tph) : bool :=
    match p with TLockYield | TLockWait | TFilling _ => true | _ => false end.

  Record Core (s : tst) : Prop := {
    c_polled : tpolled s = firstn (length (tpolled s)) full;
    c_src : tsrc s = skipn (length (tpolled s)) src0;
    c_cells : forall i x, tcells s i = Some x -> nth_error full i = Some x;
    c_none : forall i, tcells s i = None <-> length (tpolled s) <= i + pending s;
    c_link : forall c, tlink s c + pending s <= length (tpolled s);
    c_fill : forall c x, tphase s c = TFilling x ->
             towner s = Some c /\ S (tlink s c) = length (tpolled s) /\ nth_error full (tlink s c) = Some x;
    c_yield : forall c, tphase s c = TLockYield -> towner s = Some c;
    c_wait : forall w, In w (twait s) -> tphase s w = TLockWait;
    c_nodup : NoDup (twait s);
    c_owner : forall o, towner s = Some o -> ~ In o (twait s);
    c_seen : forall c, tseen s c = firstn (length (tseen s c)) (skipn (tstart s c) src0);
    c_seenlen : forall c, tstart s c + length (tseen s c) + retp s c = tlink s c;
    c_ret : forall c v, tphase s c = TRetSh v -> nth_error src0 (tstart s c + length (tseen s c)) = Some v;
    c_endck : forall c, tphase s c = TEndCk -> tcells s (tlink s c) = Some CEnd;
    c_stop : forall c, tstopped s c = true -> tseen s c = skipn (tstart s c) src0;
    c_startb : forall c, tstart s c <= length src0
  }.

  Definition Own (s : tst) : Prop := forall o, towner s = Some o -> is_lock_phase (tphase s o) = true.

  Lemma core_init mode n : Core (tinit mode src0 n).
  Proof.
    constructor; cbn; intros; try discriminate; try tauto; try reflexivity; try lia.
    - split; [lia|reflexivity].
    - constructor.
  Qed.

  Lemma link_bound s c : Core s -> tlink s c <= length src0.
  Proof.
    intros H. pose proof (c_seenlen s H c) as L. pose proof (prefix_len _ _ (c_seen s H c)) as P.
    pose proof (c_startb s H c) as B. rewrite skipn_length in P.
    unfold retp in L. destruct (tphase s c) as [| | | | |v] eqn:E; try lia.
    pose proof (c_ret s H c v E) as R.
    assert (tstart s c + length (tseen s c) < length src0) by (apply nth_error_Some; congruence). lia.
  Qed.

  Ltac upd_cases :=
    unfold upd in *;
    repeat match goal with
           | H : context [if Nat.eqb ?x ?k then _ else _] |- _ => destruct (Nat.eqb_spec x k); subst
           | |- context [if Nat.eqb ?x ?k then _ else _] => destruct (Nat.eqb_spec x k); subst
           end.

  Ltac core_fields H :=
    pose proof (c_polled _ H) as Hpolled; pose proof (c_src _ H) as Hsrc; pose proof (c_cells _ H) as Hcells;
    pose proof (c_none _ H) as Hnone; pose proof (c_link _ H) as Hlink; pose proof (c_fill _ H) as Hfill;
    pose proof (c_yield _ H) as Hyield; pose proof (c_wait _ H) as Hwait; pose proof (c_nodup _ H) as Hnodup;
    pose proof (c_owner _ H) as Howner; pose proof (c_seen _ H) as Hseen; pose proof (c_seenlen _ H) as Hseenlen;
    pose proof (c_ret _ H) as Hret; pose proof (c_endck _ H) as Hendck; pose proof (c_stop _ H) as Hstop;
    pose proof (c_startb _ H) as Hstartb.

  (* pending / retp under a phase change of consumer c *)
  Lemma pending_set s c P ow :
    (ow = Some c -> (match P with TFilling _ => 1 | _ => 0 end) = match tphase s c with TFilling _ => 1 | _ => 0 end) ->
    match ow with
    | Some o => match upd (tphase s) c P o with TFilling _ => 1 | _ => 0 end
    | None => 0
    end =
    match ow with
    | Some o => match tphase s o with TFilling _ => 1 | _ => 0 end
    | None => 0
    end.
  Proof.
    intros H. destruct ow as [o|]; [|reflexivity]. unfold upd. destruct (Nat.eqb_spec o c); [subst|reflexivity].
    now apply H.
  Qed.

  (* M1: an idle consumer takes the free lock *)
  Lemma take_core s c : Core s -> tphase s c = TIdle -> towner s = None -> twait s = [] -> Core (t_take s c).
  Proof.
    intros H Hc Ho Hw. core_fields H.
    assert (Hp : pending s = 0) by (unfold pending; now rewrite Ho).
    assert (Hp' : pending (t_take s c) = 0).
    { unfold pending, t_take. cbn. now rewrite upd_same. }
    constructor; cbn [t_take tpolled tsrc tcells towner twait tlink tphase tseen tstopped tyielded]; auto.
    - intros i. rewrite Hp'. rewrite Hnone, Hp. tauto.
    - intros c0. rewrite Hp'. specialize (Hlink c0). lia.
    - intros c0 x E. upd_cases; [discriminate|]. destruct (Hfill c0 x E) as (A & _). congruence.
    - intros c0 E. upd_cases; [reflexivity|]. specialize (Hyield c0 E). congruence.
    - intros w [].
    - constructor.
    - intros c0. specialize (Hseenlen c0). unfold retp in *. cbn. upd_cases; [rewrite Hc in Hseenlen|]; exact Hseenlen.
    - intros c0 v E. upd_cases; [discriminate|]. now apply Hret.
    - intros c0 E. upd_cases; [discriminate|]. now apply Hendck.
  Qed.

  (* M2: an idle consumer queues on the lock *)
  Lemma enqueue_core s c : Core s -> tphase s c = TIdle -> towner s <> Some c -> Core (t_enqueue s c).
  Proof.
    intros H Hc Ho. core_fields H.
    assert (Hp' : pending (t_enqueue s c) = pending s).
    { unfold pending, t_enqueue. cbn. apply pending_set. intros E. congruence. }
    assert (Hnw : ~ In c (twait s)) by (intros I; specialize (Hwait c I); congruence).
    constructor; cbn [t_enqueue tpolled tsrc tcells towner twait tlink tphase tseen tstopped tyielded]; auto.
    - intros i. rewrite Hp'. apply Hnone.
    - intros c0. rewrite Hp'. apply Hlink.
    - intros c0 x E. upd_cases; [discriminate|]. now apply Hfill.
    - intros c0 E. upd_cases; [discriminate|]. now apply Hyield.
    - intros w I. apply in_app_or in I as [I|[<-|[]]]; upd_cases; auto; try contradiction.
    - apply NoDup_app_snoc; auto.
    - intros o E I. apply in_app_or in I as [I|[<-|[]]]; [exact (Howner o E I)|congruence].
    - intros c0. specialize (Hseenlen c0). unfold retp in *. cbn. upd_cases; [rewrite Hc in Hseenlen|]; exact Hseenlen.
    - intros c0 v E. upd_cases; [discriminate|]. now apply Hret.
    - intros c0 E. upd_cases; [discriminate|]. now apply Hendck.
  Qed.

  (* M8: the lock owner resumes from TLockYield / TLockWait *)
  Lemma wake_core s c : Core s -> towner s = Some c ->
    (tphase s c = TLockYield \/ tphase s c = TLockWait) -> Core (t_wake s c).
  Proof.
    intros H Ho Hc. core_fields H.
    assert (Hp' : pending (t_wake s c) = pending s).
    { unfold pending, t_wake, set_phase. cbn. apply pending_set. intros _. destruct Hc as [-> | ->]; reflexivity. }
    assert (Hnw : ~ In c (twait s)) by now apply Howner.
    constructor; cbn [t_wake set_phase tpolled tsrc tcells towner twait tlink tphase tseen tstopped tyielded]; auto.
    - intros i. rewrite Hp'. apply Hnone.
    - intros c0. rewrite Hp'. apply Hlink.
    - intros c0 x E. upd_cases; [discriminate|]. now apply Hfill.
    - intros c0 E. upd_cases; [discriminate|]. now apply Hyield.
    - intros w I. upd_cases; [contradiction|]. now apply Hwait.
    - intros c0. specialize (Hseenlen c0). unfold retp in *. cbn. upd_cases; [|exact Hseenlen].
      destruct Hc as [E | E]; rewrite E in Hseenlen; exact Hseenlen.
    - intros c0 v E. upd_cases; [discriminate|]. now apply Hret.
    - intros c0 E. upd_cases; [discriminate|]. now apply Hendck.
  Qed.

  (* M4: the running owner releases the lock *)
  Lemma release_core s c : Core s -> towner s = Some c -> tphase s c = TIdle -> Core (t_release s).
  Proof.
    intros H Ho Hc. core_fields H.
    assert (Hp : pending s = 0) by (unfold pending; now rewrite Ho, Hc).
    assert (Hp' : pending (t_release s) = 0).
    { unfold pending, t_release. destruct (twait s) as [|w r] eqn:E; cbn; [reflexivity|].
      rewrite (Hwait w); [reflexivity|]. rewrite ?E. now left. }
    constructor; rewrite ?Hp'; rewrite ?Hp in *;
      unfold t_release; destruct (twait s) as [|w r] eqn:E;
      cbn [tpolled tsrc tcells towner twait tlink tphase tseen tstopped tyielded]; auto.
    - intros c0 x F. destruct (Hfill c0 x F) as (A & _). congruence.
    - intros c0 x F. destruct (Hfill c0 x F) as (A & _). congruence.
    - intros c0 F. specialize (Hyield c0 F). congruence.
    - intros c0 F. specialize (Hyield c0 F). congruence.
    - intros w0 I. apply Hwait. now right.
    - now inversion Hnodup.
    - intros o [= <-]. now inversion Hnodup.
  Qed.

  (* M6: the owner stores the polled cell *)
  Lemma store_core s c x : Core s -> tphase s c = TFilling x -> Core (t_store s c x).
  Proof.
    intros H Hc. core_fields H. destruct (Hfill c x Hc) as (Ho & Hl & Hx).
    assert (Hp : pending s = 1) by (unfold pending; now rewrite Ho, Hc).
    assert (Hp' : pending (t_store s c x) = 0).
    { unfold pending, t_store. cbn. rewrite Ho, upd_same. reflexivity. }
    assert (Hnw : ~ In c (twait s)) by now apply Howner.
    assert (Hcn : tcells s (tlink s c) = None) by (apply Hnone; lia).
    constructor; rewrite ?Hp'; rewrite ?Hp in *;
      cbn [t_store tpolled tsrc tcells towner twait tlink tphase tseen tstopped tyielded]; auto.
    - intros i y E. upd_cases; [congruence|]. now apply Hcells.
    - intros i. upd_cases.
      + split; [discriminate|lia].
      + rewrite Hnone. lia.
    - intros c0. specialize (Hlink c0). lia.
    - intros c0 y E. upd_cases; [discriminate|]. destruct (Hfill c0 y E) as (A & _). congruence.
    - intros c0 E. upd_cases; [discriminate|]. now apply Hyield.
    - intros w I. upd_cases; [contradiction|]. now apply Hwait.
    - intros c0. specialize (Hseenlen c0). unfold retp in *. cbn. upd_cases; [rewrite Hc in Hseenlen|]; exact Hseenlen.
    - intros c0 v E. upd_cases; [discriminate|]. now apply Hret.
    - intros c0 E. assert (c0 <> c) by (intros ->; rewrite upd_same in E; discriminate).
      rewrite upd_other in E by assumption. specialize (Hendck c0 E).
      unfold upd. destruct (Nat.eqb_spec (tlink s c0) (tlink s c)) as [El|]; [|exact Hendck].
      rewrite El in Hendck. congruence.
  Qed.

  (* M5: the running owner advances the source *)
  Lemma poll_core s c : Core s -> towner s = Some c -> tphase s c = TIdle -> tcells s (tlink s c) = None ->
    Core (t_poll s c).
  Proof.
    intros H Ho Hc Hn. core_fields H.
    assert (Hp : pending s = 0) by (unfold pending; now rewrite Ho, Hc).
    assert (Hp' : pending (t_poll s c) = 1).
    { unfold pending, t_poll. cbn. rewrite Ho, upd_same. reflexivity. }
    assert (Hnw : ~ In c (twait s)) by now apply Howner.
    assert (Hl : tlink s c = length (tpolled s)).
    { apply Hnone in Hn. specialize (Hlink c). lia. }
    pose proof (link_bound s c H) as Hb.
    destruct (next_cell_spec s (length (tpolled s)) Hsrc ltac:(lia)) as (Hx & Htl).
    constructor; rewrite ?Hp'; rewrite ?Hp in *;
      cbn [t_poll tpolled tsrc tcells towner twait tlink tphase tseen tstopped tyielded];
      rewrite ?app_length; cbn [length]; auto.
    - rewrite Nat.add_1_r, (firstn_snoc _ _ _ Hx), <- Hpolled. reflexivity.
    - rewrite Nat.add_1_r. exact Htl.
    - intros i. rewrite Hnone. lia.
    - intros c0. specialize (Hlink c0). lia.
    - intros c0 y E. upd_cases.
      + injection E as <-. rewrite Hl. split; [exact Ho|split; [lia|exact Hx]].
      + destruct (Hfill c0 y E) as (A & _). congruence.
    - intros c0 E. upd_cases; [discriminate|]. now apply Hyield.
    - intros w I. upd_cases; [contradiction|]. now apply Hwait.
    - intros c0. specialize (Hseenlen c0). unfold retp in *. cbn. upd_cases; [rewrite Hc in Hseenlen|]; exact Hseenlen.
    - intros c0 v E. upd_cases; [discriminate|]. now apply Hret.
    - intros c0 E. upd_cases; [discriminate|]. now apply Hendck.
  Qed.

  Ltac std_phase_goals Hc Hfill Hyield Hwait Hret Hendck Hseenlen :=
    idtac.

  (* M9a: StopAsyncIteration reaches the consumer (directly or after the checkpoint) *)
  Lemma stop_core s c : Core s -> (tphase s c = TIdle \/ tphase s c = TEndCk) ->
    tcells s (tlink s c) = Some CEnd -> Core (t_stop s c).
  Proof.
    intros H Hc Hcell. core_fields H.
    assert (Hp' : pending (t_stop s c) = pending s).
    { unfold pending, t_stop. cbn. apply pending_set. intros _. destruct Hc as [-> | ->]; reflexivity. }
    assert (Hnw : ~ In c (twait s)).
    { intros I. specialize (Hwait c I). destruct Hc; congruence. }
    assert (Hr : retp s c = 0) by (unfold retp; destruct Hc as [-> | ->]; reflexivity).
    constructor; rewrite ?Hp';
      cbn [t_stop tpolled tsrc tcells towner twait tlink tphase tseen tstopped tyielded]; auto.
    - intros c0 x E. upd_cases; [discriminate|]. now apply Hfill.
    - intros c0 E. upd_cases; [discriminate|]. now apply Hyield.
    - intros w I. upd_cases; [contradiction|]. now apply Hwait.
    - intros c0. specialize (Hseenlen c0). unfold retp in *. cbn. upd_cases; [|exact Hseenlen]. lia.
    - intros c0 v E. upd_cases; [discriminate|]. now apply Hret.
    - intros c0 E. upd_cases; [discriminate|]. now apply Hendck.
    - intros c0 E. upd_cases; [|now apply Hstop].
      apply Hcells, full_end in Hcell. specialize (Hseenlen c). rewrite Hr in Hseenlen.
      rewrite (Hseen c). pose proof (Hstartb c).
      replace (length (tseen s c)) with (length (skipn (tstart s c) src0)) by (rewrite skipn_length; lia).
      apply firstn_all.
  Qed.

  Lemma endck_core s c : Core s -> tphase s c = TIdle -> tcells s (tlink s c) = Some CEnd ->
    Core (set_phase s c TEndCk).
  Proof.
    intros H Hc Hcell. core_fields H.
    assert (Hp' : pending (set_phase s c TEndCk) = pending s).
    { unfold pending, set_phase. cbn. apply pending_set. intros _. now rewrite Hc. }
    assert (Hnw : ~ In c (twait s)) by (intros I; specialize (Hwait c I); congruence).
    constructor; rewrite ?Hp';
      cbn [set_phase tpolled tsrc tcells towner twait tlink tphase tseen tstopped tyielded]; auto.
    - intros c0 x E. upd_cases; [discriminate|]. now apply Hfill.
    - intros c0 E. upd_cases; [discriminate|]. now apply Hyield.
    - intros w I. upd_cases; [contradiction|]. now apply Hwait.
    - intros c0. specialize (Hseenlen c0). unfold retp in *. cbn. upd_cases; [rewrite Hc in Hseenlen|]; exact Hseenlen.
    - intros c0 v E. upd_cases; [discriminate|]. now apply Hret.
    - intros c0 E. upd_cases; [exact Hcell|]. now apply Hendck.
  Qed.

  (* the consumer takes value v from its link and moves to the next link *)
  Lemma advance_core s c v (direct : bool) : Core s -> tphase s c = TIdle -> tcells s (tlink s c) = Some (CVal v) ->
    Core (mkT (tmode s) (tsrc s) (tcells s) (towner s) (twait s) (upd (tlink s) c (S (tlink s c)))
              (upd (tyielded s) c true) (upd (tphase s) c (if direct then TIdle else TRetSh v)) (tn s)
              (if direct then upd (tseen s) c (tseen s c ++ [v]) else tseen s) (tstopped s) (tpolled s)
              (tstart s) (tcks s) (tlocks s) (tchk s) (tyld s)).
  Proof.
    intros H Hc Hcell. core_fields H.
    set (s' := mkT _ _ _ _ _ _ _ _ _ _ _ _ _ _ _ _ _).
    assert (Hp' : pending s' = pending s).
    { unfold pending, s'. cbn. apply pending_set. intros _. rewrite Hc. now destruct direct. }
    assert (Hnw : ~ In c (twait s)) by (intros I; specialize (Hwait c I); congruence).
    assert (Hr : retp s c = 0) by (unfold retp; now rewrite Hc).
    assert (Hv : nth_error src0 (tlink s c) = Some v) by now apply full_val, Hcells.
    assert (Hlt : tlink s c + pending s < length (tpolled s)).
    { destruct (Nat.lt_ge_cases (tlink s c + pending s) (length (tpolled s))) as [L|L]; [exact L|].
      apply Hnone in L. congruence. }
    assert (Hlen : tstart s c + length (tseen s c) = tlink s c) by (specialize (Hseenlen c); lia).
    assert (Hv' : nth_error (skipn (tstart s c) src0) (length (tseen s c)) = Some v).
    { rewrite nth_skipn, Hlen. exact Hv. }
    constructor; rewrite ?Hp'; unfold s';
      cbn [tpolled tsrc tcells towner twait tlink tphase tseen tstopped tyielded tstart]; auto.
    - intros c0. upd_cases; [lia|apply Hlink].
    - intros c0 x E. upd_cases; [destruct direct; discriminate|]. now apply Hfill.
    - intros c0 E. upd_cases; [destruct direct; discriminate|]. now apply Hyield.
    - intros w I. upd_cases; [contradiction|]. now apply Hwait.
    - intros c0. destruct direct; [|apply Hseen]. upd_cases; [|apply Hseen].
      rewrite app_length. cbn [length]. rewrite Nat.add_1_r, (firstn_snoc _ _ _ Hv').
      f_equal. apply Hseen.
    - intros c0. specialize (Hseenlen c0). unfold retp in *. cbn.
      destruct direct; upd_cases; try exact Hseenlen; rewrite ?app_length; cbn [length]; lia.
    - intros c0 v0 E. destruct direct; upd_cases; try discriminate; try (now apply Hret).
      injection E as <-. now rewrite Hlen.
    - intros c0 E. upd_cases; [destruct direct; discriminate|]. now apply Hendck.
    - intros c0 E. destruct direct; [|now apply Hstop]. upd_cases; [|now apply Hstop].
      exfalso. specialize (Hstop c E). rewrite Hstop in Hv'.
      assert (length (skipn (tstart s c) src0) < length (skipn (tstart s c) src0)) by (apply nth_error_Some; congruence).
      lia.
  Qed.

  (* M9b: the consumer resumes from the final shielded checkpoint and returns v *)
  Lemma return_core s c v : Core s -> tphase s c = TRetSh v -> Core (t_return s c v).
  Proof.
    intros H Hc. core_fields H.
    assert (Hp' : pending (t_return s c v) = pending s).
    { unfold pending, t_return. cbn. apply pending_set. intros _. now rewrite Hc. }
    assert (Hnw : ~ In c (twait s)) by (intros I; specialize (Hwait c I); congruence).
    assert (Hr : retp s c = 1) by (unfold retp; now rewrite Hc).
    pose proof (Hret c v Hc) as Hv.
    assert (Hv' : nth_error (skipn (tstart s c) src0) (length (tseen s c)) = Some v) by (rewrite nth_skipn; exact Hv).
    constructor; rewrite ?Hp';
      cbn [t_return tpolled tsrc tcells towner twait tlink tphase tseen tstopped tyielded tstart]; auto.
    - intros c0 x E. upd_cases; [discriminate|]. now apply Hfill.
    - intros c0 E. upd_cases; [discriminate|]. now apply Hyield.
    - intros w I. upd_cases; [contradiction|]. now apply Hwait.
    - intros c0. upd_cases; [|apply Hseen].
      rewrite app_length. cbn [length]. rewrite Nat.add_1_r, (firstn_snoc _ _ _ Hv'). f_equal. apply Hseen.
    - intros c0. specialize (Hseenlen c0). unfold retp in *. cbn.
      upd_cases; [|exact Hseenlen]. rewrite app_length. cbn [length]. rewrite Hc in Hseenlen. lia.
    - intros c0 v0 E. upd_cases; [discriminate|]. now apply Hret.
    - intros c0 E. upd_cases; [discriminate|]. now apply Hendck.
    - intros c0 E. upd_cases; [|now apply Hstop].
      exfalso. specialize (Hstop c E). rewrite Hstop in Hv'.
      assert (length (skipn (tstart s c) src0) < length (skipn (tstart s c) src0)) by (apply nth_error_Some; congruence).
      lia.
  Qed.

  (* M3: __anext__ after fill() *)
  Lemma finish_core s c had : Core s -> tphase s c = TIdle -> Core (fst (fst (t_finish s c had))).
  Proof.
    intros H Hc. unfold t_finish.
    destruct (tcells s (tlink s c)) as [[v|]|] eqn:Ecell.
    - destruct had; cbn [fst].
      + exact (advance_core s c v true H Hc Ecell).
      + exact (advance_core s c v false H Hc Ecell).
    - destruct (tyielded s c); cbn [fst].
      + apply (stop_core s c H); auto.
      + apply endck_core; auto.
    - exact H.
  Qed.

  Definition TInv (s : tst) : Prop := Core s /\ Own s.

  Lemma finish_frame s c had :
    let s' := fst (fst (t_finish s c had)) in
    towner s' = towner s /\ twait s' = twait s /\ forall o, o <> c -> tphase s' o = tphase s o.
  Proof.
    unfold t_finish. destruct (tcells s (tlink s c)) as [[v|]|]; [destruct had|destruct (tyielded s c)|];
      cbn; (split; [reflexivity|split; [reflexivity|]]); intros o Ho; rewrite ?upd_other by exact Ho; reflexivity.
  Qed.

  Lemma own_frame s s' c : Own s -> towner s' = towner s -> towner s <> Some c ->
    (forall o, o <> c -> tphase s' o = tphase s o) -> Own s'.
  Proof.
    intros HO Eo Hn Hf o E. rewrite Eo in E. rewrite Hf by congruence. now apply HO.
  Qed.

  Lemma not_owner s c : Own s -> is_lock_phase (tphase s c) = false -> towner s <> Some c.
  Proof. intros HO Hp E. specialize (HO c E). congruence. Qed.

  Lemma release_finish_inv s c : Core s -> towner s = Some c -> tphase s c = TIdle ->
    TInv (fst (fst (t_finish (t_release s) c true))).
  Proof.
    intros H Ho Hc.
    assert (Hph : tphase (t_release s) = tphase s) by (unfold t_release; destruct (twait s); reflexivity).
    pose proof (release_core s c H Ho Hc) as H1.
    split; [apply finish_core; [exact H1|now rewrite Hph]|].
    destruct (finish_frame (t_release s) c true) as (Eo & _ & Ef).
    intros o E. rewrite Eo in E.
    assert (In o (twait s)) as I.
    { unfold t_release in E. destruct (twait s); cbn in E; [discriminate|]. injection E as <-. now left. }
    pose proof (c_wait _ H o I) as Ew.
    rewrite Ef by (intros ->; congruence). rewrite Hph, Ew. reflexivity.
  Qed.

  Lemma fill_inv s c x : Core s -> tphase s c = TFilling x -> TInv (fst (fst (t_fill s c x))).
  Proof.
    intros H Hc. unfold t_fill. destruct (c_fill _ H c x Hc) as (Ho & _).
    apply release_finish_inv; [now apply store_core|exact Ho|].
    unfold t_store. cbn. apply upd_same.
  Qed.

  Lemma locked_inv s c : Core s -> towner s = Some c ->
    (tphase s c = TLockYield \/ tphase s c = TLockWait) -> TInv (fst (fst (t_locked s c))).
  Proof.
    intros H Ho Hc. unfold t_locked.
    pose proof (wake_core s c H Ho Hc) as H0.
    assert (Ho0 : towner (t_wake s c) = Some c) by exact Ho.
    assert (Hc0 : tphase (t_wake s c) c = TIdle) by (unfold t_wake, set_phase; cbn; apply upd_same).
    destruct (tcells (t_wake s c) (tlink (t_wake s c) c)) eqn:Ecell.
    - now apply release_finish_inv.
    - pose proof (poll_core _ c H0 Ho0 Hc0 Ecell) as H1.
      assert (Hf : tphase (t_poll (t_wake s c) c) c = TFilling (next_cell (t_wake s c))).
      { unfold t_poll. cbn. apply upd_same. }
      assert (HO : Own (t_poll (t_wake s c) c)).
      { intros o E. cbn in E. assert (o = c) by congruence. subst. now rewrite Hf. }
      destruct (tmode s) as [|[|m]]; cbn [fst]; [split; assumption| |split; assumption].
      now apply fill_inv.
  Qed.

  Definition Fresh (s : tst) : Prop := forall c, tphase s c <> TIdle -> c < tn s.

  Lemma on_new_old {A} s k (f : nat -> A) v j : j < tn s -> on_new s k f v j = f j.
  Proof. intros H. unfold on_new. destruct (Nat.leb_spec (tn s) j); [lia|reflexivity]. Qed.

  Lemma fresh_idle s j : Fresh s -> tn s <= j -> tphase s j = TIdle.
  Proof.
    intros HF Hj. destruct (tphase s j) eqn:E; try reflexivity;
      (assert (j < tn s) by (apply HF; rewrite E; discriminate); lia).
  Qed.

  (* tee(it_c, k): k new consumers at it_c's link *)
  Lemma copy_core s c k : Core s -> Fresh s -> Core (t_copy s c k).
  Proof.
    intros H HF. core_fields H.
    assert (Hp' : pending (t_copy s c k) = pending s) by reflexivity.
    assert (Hold : forall j, tphase s j <> TIdle -> j < tn s) by exact HF.
    pose proof (link_bound s c H) as Hb.
    constructor; rewrite ?Hp';
      cbn [t_copy tpolled tsrc tcells towner twait tlink tphase tseen tstopped tyielded tstart]; auto.
    - intros j. unfold on_new. destruct (_ && _); [apply Hlink|apply Hlink].
    - intros j x E. rewrite on_new_old by (apply Hold; rewrite E; discriminate). now apply Hfill.
    - intros j. unfold on_new. destruct (_ && _); [reflexivity|apply Hseen].
    - intros j. unfold on_new. destruct (Nat.leb_spec (tn s) j) as [L|L]; cbn [andb].
      + destruct (j <? tn s + k); [|apply Hseenlen]. unfold retp. cbn [t_copy tphase]. rewrite (fresh_idle s j HF L). cbn. lia.
      + apply Hseenlen.
    - intros j v E. rewrite !on_new_old by (apply Hold; rewrite E; discriminate). now apply Hret.
    - intros j E. rewrite on_new_old by (apply Hold; rewrite E; discriminate). now apply Hendck.
    - intros j. unfold on_new. destruct (_ && _); [discriminate|apply Hstop].
    - intros j. unfold on_new. destruct (_ && _); [exact Hb|apply Hstartb].
  Qed.

  Lemma bump_core s c n : Core s -> Core (t_bump s c n).
  Proof. intros H. destruct H. constructor; assumption. Qed.

  Lemma bump2_core s c n m : Core s -> Core (t_bump2 s c n m).
  Proof. intros H. destruct H. constructor; assumption. Qed.

  Lemma step0_inv s o : TInv s -> Fresh s -> TInv (fst (fst (tstep0 s o))).
  Proof.
    intros [H HO] HF.
    destruct o as [c|c|c k]; unfold tstep0; [| |destruct (c <? tn s); cbn [fst]; [|split; assumption];
                                                split; [now apply copy_core|exact HO]].
    - destruct (negb (c <? tn s) || negb (is_tidle (tphase s c))) eqn:G; [split; assumption|].
      assert (Hc : tphase s c = TIdle).
      { apply orb_false_elim in G as [_ G]. destruct (tphase s c); cbn in G; try discriminate. reflexivity. }
      assert (Hno : towner s <> Some c) by (apply not_owner; [exact HO|now rewrite Hc]).
      destruct (tcells s (tlink s c)) eqn:Ecell.
      + split; [now apply finish_core|].
        destruct (finish_frame s c false) as (Eo & _ & Ef).
        eapply own_frame; eauto.
      + destruct (towner s) as [ow|] eqn:Eow.
        * cbn [fst]. split; [apply enqueue_core; congruence|].
          apply (own_frame s _ c HO); [cbn; now rewrite Eow|congruence|].
          intros o Hoc. cbn. now rewrite upd_other.
        * destruct (twait s) eqn:Ew; cbn [fst].
          -- split; [now apply take_core|]. intros o Eo. cbn in *. injection Eo as <-. now rewrite upd_same.
          -- split; [apply enqueue_core; congruence|].
             intros o Eo. cbn in Eo. congruence.
    - destruct (negb (c <? tn s)); [split; assumption|].
      destruct (tphase s c) eqn:Hc.
      + split; assumption.
      + apply locked_inv; auto. now apply (c_yield _ H).
      + destruct (owner_is (towner s) c) eqn:Eo; [|split; assumption].
        apply locked_inv; auto. unfold owner_is in Eo. destruct (towner s); [|discriminate].
        apply Nat.eqb_eq in Eo. now subst.
      + now apply fill_inv.
      + cbn [fst]. split.
        * apply stop_core; auto. now apply (c_endck _ H).
        * assert (Hno : towner s <> Some c) by (apply not_owner; [exact HO|now rewrite Hc]).
          apply (own_frame s _ c HO); [reflexivity|exact Hno|].
          intros o Hoc. cbn. now rewrite upd_other.
      + cbn [fst]. split.
        * now apply return_core.
        * assert (Hno : towner s <> Some c) by (apply not_owner; [exact HO|now rewrite Hc]).
          apply (own_frame s _ c HO); [reflexivity|exact Hno|].
          intros o Hoc. cbn. now rewrite upd_other.
  Qed.

  (* phases: a step changes the phase of its own consumer only, never lowers tn, and does nothing for a consumer
     that does not exist *)
  Lemma release_phase0 s : tphase (t_release s) = tphase s /\ tn (t_release s) = tn s.
  Proof. unfold t_release. destruct (twait s); auto. Qed.

  Lemma finish_tn s c had : tn (fst (fst (t_finish s c had))) = tn s.
  Proof.
    unfold t_finish. destruct (tcells s (tlink s c)) as [[v|]|]; [destruct had|destruct (tyielded s c)|]; reflexivity.
  Qed.

  Lemma fresh_step0 s o : Fresh s -> Fresh (fst (fst (tstep0 s o))).
  Proof.
    intros HF j. destruct o as [c|c|c k]; unfold tstep0.
    - destruct (negb (c <? tn s) || negb (is_tidle (tphase s c))) eqn:G; [apply HF|].
      apply orb_false_elim in G as [G _]. apply negb_false_iff, Nat.ltb_lt in G.
      destruct (tcells s (tlink s c)).
      + destruct (finish_frame s c false) as (_ & _ & Ef). rewrite finish_tn.
        destruct (Nat.eq_dec j c); [subst; intros _; exact G|]. rewrite Ef by assumption. apply HF.
      + destruct (towner s); [|destruct (twait s)]; cbn; unfold upd;
          (destruct (Nat.eqb_spec j c); [subst; intros _; exact G|apply HF]).
    - destruct (negb (c <? tn s)) eqn:G; [apply HF|]. apply negb_false_iff, Nat.ltb_lt in G.
      assert (Hl : forall j, tphase (fst (fst (t_locked s c))) j <> TIdle -> j < tn (fst (fst (t_locked s c)))).
      { clear j. intros j. unfold t_locked, t_fill.
        destruct (tcells (t_wake s c) (tlink (t_wake s c) c)).
        - destruct (finish_frame (t_release (t_wake s c)) c true) as (_ & _ & Ef). rewrite finish_tn.
          destruct (release_phase0 (t_wake s c)) as [Ep En]. rewrite En.
          destruct (Nat.eq_dec j c); [subst; intros _; exact G|]. rewrite Ef, Ep by assumption.
          cbn. rewrite upd_other by assumption. apply HF.
        - destruct (tmode s) as [|[|m]]; cbn [fst].
          + cbn. unfold upd. destruct (Nat.eqb_spec j c); [subst; intros _; exact G|].
            destruct (Nat.eqb_spec j c); [contradiction|apply HF].
          + destruct (finish_frame (t_release (t_store (t_poll (t_wake s c) c) c (next_cell (t_wake s c)))) c true)
              as (_ & _ & Ef). rewrite finish_tn.
            destruct (release_phase0 (t_store (t_poll (t_wake s c) c) c (next_cell (t_wake s c)))) as [Ep En].
            rewrite En. destruct (Nat.eq_dec j c); [subst; intros _; exact G|]. rewrite Ef, Ep by assumption.
            cbn. rewrite !upd_other by assumption. apply HF.
          + cbn. unfold upd. destruct (Nat.eqb_spec j c); [subst; intros _; exact G|].
            destruct (Nat.eqb_spec j c); [contradiction|apply HF]. }
      destruct (tphase s c) eqn:Hc; try apply HF; try apply Hl.
      + destruct (owner_is (towner s) c); [apply Hl|apply HF].
      + unfold t_fill.
        destruct (finish_frame (t_release (t_store s c x)) c true) as (_ & _ & Ef). rewrite finish_tn.
        destruct (release_phase0 (t_store s c x)) as [Ep En]. rewrite En.
        destruct (Nat.eq_dec j c); [subst; intros _; exact G|]. rewrite Ef, Ep by assumption.
        cbn. rewrite upd_other by assumption. apply HF.
      + cbn. unfold upd. destruct (Nat.eqb_spec j c); [subst; intros _; exact G|apply HF].
      + cbn. unfold upd. destruct (Nat.eqb_spec j c); [subst; intros _; exact G|apply HF].
    - destruct (c <? tn s); [|apply HF]. cbn. intros E. specialize (HF j E). lia.
  Qed.

  Definition TInv2 (s : tst) : Prop := TInv s /\ Fresh s.

  Lemma step_inv s o : TInv2 s -> TInv2 (fst (tstep1 s o)).
  Proof.
    intros [HI HF]. unfold tstep1, tstep.
    pose proof (step0_inv s o HI HF) as [HC HO]. pose proof (fresh_step0 s o HF) as HF'.
    destruct (tstep0 s o) as [[s1 r] ev]. cbn [fst] in *.
    split; [split; [now apply bump2_core, bump_core|exact HO]|exact HF'].
  Qed.

  Lemma run_inv2 mode n ops : TInv2 (trun mode src0 n ops).
  Proof.
    unfold trun. apply (final_inv tstep1 TInv2).
    - intros s o. apply step_inv.
    - split; [split; [apply core_init|intros o E; discriminate]|]. intros c E. cbn in E. congruence.
  Qed.

  Lemma run_inv mode n ops : TInv (trun mode src0 n ops).
  Proof. apply run_inv2. Qed.
End Tee.

(* frame facts of one step *)
Lemma release_ghost s : tstart (t_release s) = tstart s /\ tcks (t_release s) = tcks s /\ tn (t_release s) = tn s.
Proof. unfold t_release. destruct (twait s); auto. Qed.

Lemma finish_ghost s c had :
  let s' := fst (fst (t_finish s c had)) in tstart s' = tstart s /\ tcks s' = tcks s /\ tn s' = tn s.
Proof.
  unfold t_finish. destruct (tcells s (tlink s c)) as [[v|]|]; [destruct had|destruct (tyielded s c)|]; cbn; auto.
Qed.

Lemma step0_ghost s o :
  tn s <= tn (fst (fst (tstep0 s o))) /\
  (forall j, j < tn s -> tstart (fst (fst (tstep0 s o))) j = tstart s j) /\
  match o with TCopy _ _ => True | _ => tcks (fst (fst (tstep0 s o))) = tcks s end.
Proof.
  destruct o as [c|c|c k]; unfold tstep0, t_locked, t_fill.
  - destruct (_ || _); [auto|]. destruct (tcells s (tlink s c)).
    + destruct (finish_ghost s c false) as (A & B & C). rewrite A, B, C. auto.
    + destruct (towner s); [|destruct (twait s)]; cbn; auto.
  - destruct (negb _); [auto|].
    assert (L : forall s0, tn s0 = tn s -> tstart s0 = tstart s -> tcks s0 = tcks s ->
                let s' := fst (fst (t_finish (t_release s0) c true)) in
                tn s <= tn s' /\ (forall j, j < tn s -> tstart s' j = tstart s j) /\ tcks s' = tcks s).
    { intros s0 E1 E2 E3. destruct (finish_ghost (t_release s0) c true) as (A & B & C).
      destruct (release_ghost s0) as (A' & B' & C'). cbn zeta. rewrite A, B, C, A', B', C', E1, E2, E3. auto. }
    destruct (tphase s c); auto.
    + destruct (tcells (t_wake s c) (tlink (t_wake s c) c)); [apply L; reflexivity|].
      destruct (tmode s) as [|[|m]]; cbn [fst]; [cbn; auto|apply L; reflexivity|cbn; auto].
    + destruct (owner_is (towner s) c); [|auto].
      destruct (tcells (t_wake s c) (tlink (t_wake s c) c)); [apply L; reflexivity|].
      destruct (tmode s) as [|[|m]]; cbn [fst]; [cbn; auto|apply L; reflexivity|cbn; auto].
  - destruct (c <? tn s); [|auto]. cbn. split; [lia|]. split; [|exact I].
    intros j Hj. unfold on_new. destruct (Nat.leb_spec (tn s) j); [lia|reflexivity].
Qed.

Lemma step0_tn s o : tn s <= tn (fst (fst (tstep0 s o))).
Proof. apply step0_ghost. Qed.
Lemma step0_start_old s o j : j < tn s -> tstart (fst (fst (tstep0 s o))) j = tstart s j.
Proof. intros H. now apply step0_ghost. Qed.
Lemma step0_cks s o : match o with TCopy _ _ => True | _ => tcks (fst (fst (tstep0 s o))) = tcks s end.
Proof. apply step0_ghost. Qed.

(* every consumer observes a prefix of the source, in order, and the whole of it once it has seen
   StopAsyncIteration - for every interleaving of consumer segments and any number of consumers *)
Lemma bump_fields s c n :
  tseen (t_bump s c n) = tseen s /\ tstopped (t_bump s c n) = tstopped s /\ tphase (t_bump s c n) = tphase s /\
  tstart (t_bump s c n) = tstart s /\ tn (t_bump s c n) = tn s /\ tlink (t_bump s c n) = tlink s /\
  tyielded (t_bump s c n) = tyielded s.
Proof. repeat split. Qed.

(* with copies: consumer c started at link tstart s c (0 for the consumers created by the first tee() call, the
   original's link for a copy) and observes the suffix of the source from there *)
Theorem tee_consumers_see_all : forall mode src n ops c,
  let s := trun mode src n ops in
  tseen s c = firstn (length (tseen s c)) (skipn (tstart s c) src) /\
  (tstopped s c = true -> tseen s c = skipn (tstart s c) src).
Proof.
  intros mode src n ops c s. destruct (run_inv src mode n ops) as [H _].
  split; [apply (c_seen _ _ H)|apply (c_stop _ _ H)].
Qed.

(* the results of all __anext__ calls on the source form a prefix of  element_1 … element_k, end : every
   element is requested exactly once, the end at most once; and the source's remaining content is what has
   not been requested *)
Theorem tee_source_once : forall mode src n ops,
  let s := trun mode src n ops in
  tpolled s = firstn (length (tpolled s)) (map CVal src ++ [CEnd]) /\ tsrc s = skipn (length (tpolled s)) src.
Proof.
  intros mode src n ops s. destruct (run_inv src mode n ops) as [H _].
  split; [apply (c_polled _ _ H)|apply (c_src _ _ H)].
Qed.

(* the consumers created by the first tee() call start at the beginning of the source *)
Theorem tee_originals_start : forall mode src n ops c, c < n -> tstart (trun mode src n ops) c = 0.
Proof.
  intros mode src n ops c Hc. unfold trun.
  assert (G : forall ops s, n <= tn s -> tstart s c = 0 ->
              n <= tn (final tstep1 s ops) /\ tstart (final tstep1 s ops) c = 0).
  { clear ops. induction ops as [|o r IH]; intros s Hn Hs; [auto|]. cbn. apply IH.
    - unfold tstep1, tstep. pose proof (step0_tn s o). destruct (tstep0 s o) as [[s1 rr] ev]. cbn in *. lia.
    - unfold tstep1, tstep. pose proof (step0_start_old s o c ltac:(lia)) as E.
      destruct (tstep0 s o) as [[s1 rr] ev]. cbn in *. congruence. }
  apply (G ops (tinit mode src n)); cbn; auto.
Qed.

(* tee(it_c, k) on an existing tee iterator: k new consumers numbered tn s … tn s + k - 1, each at it_c's current
   link, with nothing seen, not stopped, and its own element_yielded = false; every existing consumer - it_c
   included - is left exactly as it was *)
Theorem tee_copy_spec : forall s c k s' r ev, tstep s (TCopy c k) = (s', r, ev) -> c < tn s ->
  r = TCopied (tn s) /\ ev = [] /\ tn s' = tn s + k /\
  (forall j, tn s <= j < tn s + k ->
     tstart s' j = tlink s c /\ tlink s' j = tlink s c /\ tseen s' j = [] /\ tstopped s' j = false /\
     tyielded s' j = false /\ tcks s' j = 0 /\ tlocks s' j = 0) /\
  (forall j, j < tn s ->
     tstart s' j = tstart s j /\ tlink s' j = tlink s j /\ tseen s' j = tseen s j /\ tstopped s' j = tstopped s j /\
     tyielded s' j = tyielded s j /\ tphase s' j = tphase s j).
Proof.
  intros s c k s' r ev H Hc. unfold tstep, tstep0 in H. apply Nat.ltb_lt in Hc as Hb. rewrite Hb in H.
  inversion H; subst; clear H. cbn. repeat split; try lia;
    try (unfold on_new; destruct (Nat.leb_spec (tn s) j); destruct (Nat.ltb_spec j (tn s + k)); cbn; try lia; reflexivity).
  unfold upd, on_new. destruct (Nat.eqb_spec j c); [lia|].
  destruct (Nat.leb_spec (tn s) j); destruct (Nat.ltb_spec j (tn s + k)); cbn; try lia; reflexivity.
Qed.

(* the ghost fields record exactly what the consumers are given: a step that returns v to consumer c appends
   v to tseen c, a step that raises StopAsyncIteration in c sets tstopped c *)
Lemma release_seen s : tseen (t_release s) = tseen s.
Proof. unfold t_release. destruct (twait s); reflexivity. Qed.
Lemma release_stopped s : tstopped (t_release s) = tstopped s.
Proof. unfold t_release. destruct (twait s); reflexivity. Qed.

Lemma outputs_logged0 : forall s o s' r ev, tstep0 s o = (s', r, ev) ->
  match r with
  | TRet v => exists c, (o = TNext c \/ o = TResume c) /\ tseen s' c = tseen s c ++ [v]
  | TStop => exists c, (o = TNext c \/ o = TResume c) /\ tstopped s' c = true
  | _ => True
  end.
Proof.
  intros s o s' r ev H. destruct o as [c|c|c k]; unfold tstep0, t_locked, t_fill, t_finish in H;
    repeat match type of H with
           | context [match ?x with _ => _ end] => destruct x eqn:?
           end; inversion H; subst; clear H; cbn; auto;
    exists c; (split; [auto|]); rewrite ?upd_same, ?release_seen, ?release_stopped; reflexivity.
Qed.

Theorem tee_outputs_logged : forall s o s' r ev, tstep s o = (s', r, ev) ->
  match r with
  | TRet v => exists c, (o = TNext c \/ o = TResume c) /\ tseen s' c = tseen s c ++ [v]
  | TStop => exists c, (o = TNext c \/ o = TResume c) /\ tstopped s' c = true
  | _ => True
  end.
Proof.
  intros s o s' r ev H. unfold tstep in H. destruct (tstep0 s o) as [[s1 r1] ev1] eqn:E.
  inversion H; subst; clear H. exact (outputs_logged0 s o s1 r ev E).
Qed.

(* and the checkpoint events of a segment are attributed to the consumer that ran it *)
Theorem tee_cks_logged : forall s o s' r ev, tstep s o = (s', r, ev) ->
  (forall j, j <> op_consumer o -> match o with TCopy _ _ => True | _ => tcks s' j = tcks s j end) /\
  match o with
  | TCopy _ _ => True
  | _ => tcks s' (op_consumer o) = tcks s (op_consumer o) + count_ck ev
  end.
Proof.
  intros s o s' r ev H. unfold tstep in H. destruct (tstep0 s o) as [[s1 r1] ev1] eqn:E.
  inversion H; subst; clear H. pose proof (step0_cks s o) as K. rewrite E in K. cbn [fst] in K.
  destruct o as [c|c|c k]; cbn [op_consumer]; (split; [|try exact I]).
  - intros j Hj. cbn. rewrite upd_other by exact Hj. now rewrite K.
  - cbn. rewrite upd_same. now rewrite K.
  - intros j Hj. cbn. rewrite upd_other by exact Hj. now rewrite K.
  - cbn. rewrite upd_same. now rewrite K.
  - intros; exact I.
Qed.

(* non-vacuity: three consumers of a synchronous two-element source, interleaved so that the lock is contended
   and handed over; all of them end up having seen the whole source and StopAsyncIteration *)
Example tee_example :
  let ops := [TNext 0; TNext 1; TNext 2; TResume 0; TResume 0; TResume 1; TResume 2;
              TNext 1; TNext 0; TResume 1; TResume 1; TResume 0; TNext 2; TResume 2;
              TNext 2; TNext 1; TNext 0; TResume 2; TResume 2; TResume 1; TResume 0;
              TResume 2; TResume 1; TResume 0] in
  let s := trun 0 [7; 8]%Z 3 ops in
  (tseen s 0, tseen s 1, tseen s 2) = ([7; 8], [7; 8], [7; 8])%Z /\
  (tstopped s 0, tstopped s 1, tstopped s 2) = (true, true, true) /\
  tpolled s = [CVal 7; CVal 8; CEnd]%Z.
Proof. vm_compute. auto. Qed.

(* C08 for tee: every __anext__ call on a tee iterator suspends at least once - in one of the logged checkpoint
   functions or inside Lock.acquire - except a StopAsyncIteration delivered to a consumer that was already given
   an element (whose earlier calls did). *)
Lemma next_checkpoints0 : forall s c s' r ev, tstep0 s (TNext c) = (s', r, ev) -> r <> TRejected ->
  (r = TBlocked /\ (passes_ck ev = true \/ tphase s' c = TLockYield \/ tphase s' c = TLockWait)) \/
  (r = TStop /\ tyielded s c = true).
Proof.
  intros s c s' r ev H Hr. unfold tstep0, t_finish in H.
  repeat match type of H with
         | context [match ?x with _ => _ end] => destruct x eqn:?
         end; inversion H; subst; clear H; try congruence; cbn; rewrite ?upd_same; auto.
Qed.

Theorem tee_next_checkpoints : forall s c s' r ev, tstep s (TNext c) = (s', r, ev) -> r <> TRejected ->
  (r = TBlocked /\ (passes_ck ev = true \/ tphase s' c = TLockYield \/ tphase s' c = TLockWait)) \/
  (r = TStop /\ tyielded s c = true).
Proof.
  intros s c s' r ev H Hr. unfold tstep in H. destruct (tstep0 s (TNext c)) as [[s1 r1] ev1] eqn:E.
  inversion H; subst; clear H. exact (next_checkpoints0 s c s1 r ev E Hr).
Qed.

(* ------------------------------------------------------------------------------------------------ *)
(* Progress: in every reachable state in which some consumer is inside an __anext__ call, some consumer can be
   resumed (no interleaving deadlocks the consumers on the lock). *)
Record Live (s : tst) : Prop := {
  l_n : forall c, tphase s c <> TIdle -> c < tn s;
  l_lockw : twait s <> [] -> towner s <> None;
  l_wait : forall c, tphase s c = TLockWait -> In c (twait s) \/ towner s = Some c
}.

Lemma live_frame s s' c P : c < tn s -> P <> TLockWait ->
  tn s' = tn s -> towner s' = towner s -> twait s' = twait s -> tphase s' = upd (tphase s) c P ->
  Live s -> Live s'.
Proof.
  intros Hc HP En Eo Ew Ep [Hn Hl Hwt]. constructor; rewrite ?En, ?Eo, ?Ew, ?Ep; auto.
  - intros c0 E. unfold upd in E. destruct (Nat.eqb_spec c0 c); [subst; exact Hc|now apply Hn].
  - intros c0 E. unfold upd in E. destruct (Nat.eqb_spec c0 c); [congruence|now apply Hwt].
Qed.

Lemma finish_live s c had : c < tn s -> tphase s c <> TLockWait -> Live s -> Live (fst (fst (t_finish s c had))).
Proof.
  intros Hc Hw HL. unfold t_finish.
  destruct (tcells s (tlink s c)) as [[v|]|]; [destruct had|destruct (tyielded s c)|]; cbn [fst]; try exact HL.
  - apply (live_frame s _ c TIdle); auto; discriminate.
  - apply (live_frame s _ c (TRetSh v)); auto; discriminate.
  - apply (live_frame s _ c TIdle); auto; discriminate.
  - apply (live_frame s _ c TEndCk); auto; discriminate.
Qed.

Lemma release_live s c : towner s = Some c -> tphase s c <> TLockWait -> Live s -> Live (t_release s).
Proof.
  intros Ho Hc [Hn Hl Hwt]. unfold t_release. destruct (twait s) as [|w r] eqn:E; constructor; cbn.
  - exact Hn.
  - intros H. exfalso. now apply H.
  - intros c0 E0. destruct (Hwt c0 E0) as [[]|E1]. exfalso. rewrite Ho in E1. injection E1 as <-. contradiction.
  - exact Hn.
  - discriminate.
  - intros c0 E0. destruct (Hwt c0 E0) as [[<-|I]|E1]; auto.
    exfalso. rewrite Ho in E1. injection E1 as <-. contradiction.
Qed.

Lemma set_phase_live s c P : c < tn s -> P <> TLockWait -> Live s -> Live (set_phase s c P).
Proof. intros Hc HP HL. apply (live_frame s _ c P); auto. Qed.

Lemma store_live s c x : c < tn s -> Live s -> Live (t_store s c x).
Proof. intros Hc HL. apply (live_frame s _ c TIdle); auto; discriminate. Qed.

Lemma poll_live s c : c < tn s -> Live s -> Live (t_poll s c).
Proof. intros Hc HL. apply (live_frame s _ c (TFilling (next_cell s))); auto; discriminate. Qed.

Lemma release_phase s : tphase (t_release s) = tphase s.
Proof. unfold t_release. destruct (twait s); reflexivity. Qed.
Lemma release_tn s : tn (t_release s) = tn s.
Proof. unfold t_release. destruct (twait s); reflexivity. Qed.

Lemma fill_live s c x : c < tn s -> towner s = Some c -> Live s -> Live (fst (fst (t_fill s c x))).
Proof.
  intros Hc Ho HL. unfold t_fill.
  assert (Hp : tphase (t_store s c x) c = TIdle) by (cbn; apply upd_same).
  apply finish_live.
  - now rewrite release_tn.
  - rewrite release_phase, Hp. discriminate.
  - apply (release_live _ c); [exact Ho|rewrite Hp; discriminate|now apply store_live].
Qed.

Lemma locked_live s c : c < tn s -> towner s = Some c -> Live s -> Live (fst (fst (t_locked s c))).
Proof.
  intros Hc Ho HL. unfold t_locked.
  assert (H0 : Live (t_wake s c)) by (apply set_phase_live; [exact Hc|discriminate|exact HL]).
  assert (Hp : tphase (t_wake s c) c = TIdle) by (cbn; apply upd_same).
  destruct (tcells (t_wake s c) (tlink (t_wake s c) c)).
  - apply finish_live.
    + now rewrite release_tn.
    + rewrite release_phase, Hp. discriminate.
    + apply (release_live _ c); [exact Ho|rewrite Hp; discriminate|exact H0].
  - assert (H1 : Live (t_poll (t_wake s c) c)) by now apply poll_live.
    destruct (tmode s) as [|[|m]]; cbn [fst]; try exact H1.
    apply fill_live; [exact Hc|exact Ho|exact H1].
Qed.

Lemma live_step s o : Live s -> (forall c, tphase s c = TLockYield -> towner s = Some c) ->
  (forall c x, tphase s c = TFilling x -> towner s = Some c) -> Live (fst (fst (tstep0 s o))).
Proof.
  intros HL Hy Hf. destruct o as [c|c|c k]; unfold tstep0;
    [| |destruct (c <? tn s); [|exact HL]; cbn [fst]; destruct HL as [Hn Hl Hwt]; constructor; cbn; auto;
        intros c0 E; specialize (Hn c0 E); lia].
  - destruct (negb (c <? tn s) || negb (is_tidle (tphase s c))) eqn:G; [exact HL|].
    apply orb_false_elim in G as [G1 G2].
    assert (Hc : c < tn s) by (apply negb_false_iff, Nat.ltb_lt in G1; exact G1).
    assert (Hi : tphase s c = TIdle) by (destruct (tphase s c); cbn in G2; try discriminate; reflexivity).
    destruct (tcells s (tlink s c)).
    + apply finish_live; [exact Hc|rewrite Hi; discriminate|exact HL].
    + destruct HL as [Hn Hl Hwt].
      assert (Hnn : forall c0, upd (tphase s) c TLockYield c0 <> TIdle -> c0 < tn s).
      { intros c0 E. unfold upd in E. destruct (Nat.eqb_spec c0 c); [subst; exact Hc|now apply Hn]. }
      assert (Hnw : forall c0, upd (tphase s) c TLockWait c0 <> TIdle -> c0 < tn s).
      { intros c0 E. unfold upd in E. destruct (Nat.eqb_spec c0 c); [subst; exact Hc|now apply Hn]. }
      assert (Hen : Live (t_enqueue s c) \/ towner s = None).
      { destruct (towner s) as [ow|] eqn:Eo; [left|now right].
        constructor; cbn [t_enqueue tphase twait towner tn].
        - exact Hnw.
        - rewrite Eo. discriminate.
        - intros c0 E. unfold upd in E. destruct (Nat.eqb_spec c0 c); [subst; left; apply in_or_app; right; now left|].
          destruct (Hwt c0 E) as [I|I]; [left; apply in_or_app; now left|right; rewrite ?Eo in *; exact I]. }
      destruct (towner s) as [ow|] eqn:Eo.
      * cbn [fst]. destruct Hen as [L|L]; [exact L|discriminate].
      * destruct (twait s) as [|w r] eqn:Ew; cbn [fst].
        -- constructor; cbn [t_take tphase twait towner tn].
           ++ exact Hnn.
           ++ discriminate.
           ++ intros c0 E. unfold upd in E. destruct (Nat.eqb_spec c0 c); [discriminate|].
              destruct (Hwt c0 E) as [I|I]; [rewrite ?Ew in I; destruct I|rewrite ?Eo in I; discriminate].
        -- exfalso. apply Hl; [rewrite ?Ew; discriminate|now rewrite ?Eo].
  - destruct (negb (c <? tn s)) eqn:G; [exact HL|].
    assert (Hc : c < tn s) by (apply negb_false_iff, Nat.ltb_lt in G; exact G).
    destruct (tphase s c) eqn:Ep; try exact HL.
    + apply locked_live; auto.
    + destruct (owner_is (towner s) c) eqn:Eo; [|exact HL].
      apply locked_live; auto. unfold owner_is in Eo. destruct (towner s); [|discriminate].
      apply Nat.eqb_eq in Eo. now subst.
    + apply fill_live; eauto.
    + cbn [fst]. apply (live_frame s _ c TIdle); auto; discriminate.
    + cbn [fst]. apply (live_frame s _ c TIdle); auto; discriminate.
Qed.

Lemma bump_live s c n : Live s -> Live (t_bump s c n).
Proof. intros [A B C]. constructor; assumption. Qed.
Lemma bump2_live s c n m : Live s -> Live (t_bump2 s c n m).
Proof. intros [A B C]. constructor; assumption. Qed.

Lemma run_live src mode n ops : Live (trun mode src n ops).
Proof.
  unfold trun.
  assert (G : forall ops s, TInv2 src s /\ Live s -> TInv2 src (final tstep1 s ops) /\ Live (final tstep1 s ops)).
  { clear. induction ops as [|o r IH]; intros s H; [exact H|]. cbn. apply IH. destruct H as [HI HL]. split.
    - now apply step_inv.
    - unfold tstep1, tstep. destruct (tstep0 s o) as [[s1 rr] ev] eqn:E. cbn [fst]. apply bump2_live, bump_live.
      replace s1 with (fst (fst (tstep0 s o))) by now rewrite E.
      destruct HI as [[HC _] _]. apply live_step; [exact HL|apply (c_yield _ _ HC)|].
      intros c x Ex. now destruct (c_fill _ _ HC c x Ex). }
  apply G. split; [apply (run_inv2 src mode n [])|].
  constructor; cbn; intros; congruence.
Qed.

Lemma finish_not_rejected s c had : tcells s (tlink s c) <> None -> snd (fst (t_finish s c had)) <> TRejected.
Proof.
  intros H. unfold t_finish. destruct (tcells s (tlink s c)) as [[v|]|]; [destruct had|destruct (tyielded s c)|];
    cbn; congruence.
Qed.

Lemma release_cells s : tcells (t_release s) = tcells s /\ tlink (t_release s) = tlink s.
Proof. unfold t_release. destruct (twait s); auto. Qed.

Lemma fill_not_rejected s c x : snd (fst (t_fill s c x)) <> TRejected.
Proof.
  unfold t_fill. apply finish_not_rejected. destruct (release_cells (t_store s c x)) as [-> ->].
  cbn. rewrite upd_same. discriminate.
Qed.

Lemma locked_not_rejected s c : snd (fst (t_locked s c)) <> TRejected.
Proof.
  unfold t_locked. destruct (tcells (t_wake s c) (tlink (t_wake s c) c)) eqn:E.
  - apply finish_not_rejected. destruct (release_cells (t_wake s c)) as [-> ->]. congruence.
  - destruct (tmode s) as [|[|m]]; cbn [fst snd]; try discriminate. apply fill_not_rejected.
Qed.

Theorem tee_no_deadlock : forall mode src n ops c,
  let s := trun mode src n ops in
  tphase s c <> TIdle -> exists c', snd (fst (tstep s (TResume c'))) <> TRejected.
Proof.
  intros mode src n ops c s Hc.
  assert (EQ : forall c', snd (fst (tstep s (TResume c'))) = snd (fst (tstep0 s (TResume c')))).
  { intros c'. unfold tstep. destruct (tstep0 s (TResume c')) as [[s1 r1] ev1]. reflexivity. }
  cut (exists c', snd (fst (tstep0 s (TResume c'))) <> TRejected).
  { intros (c' & Hc'). exists c'. now rewrite EQ. }
  destruct (run_inv src mode n ops) as [HC HO]. pose proof (run_live src mode n ops) as [Hn Hl Hwt].
  fold s in HC, HO, Hn, Hl, Hwt.
  assert (R : forall o, o < tn s -> (tphase s o = TLockYield \/ (exists x, tphase s o = TFilling x) \/
                tphase s o = TEndCk \/ (exists v, tphase s o = TRetSh v) \/
                (tphase s o = TLockWait /\ towner s = Some o)) ->
              snd (fst (tstep0 s (TResume o))) <> TRejected).
  { intros o Ho Hp. unfold tstep0. apply Nat.ltb_lt in Ho. rewrite Ho. cbn [negb].
    destruct Hp as [E|[[x E]|[E|[[v E]|[E Eo]]]]]; rewrite E.
    - apply locked_not_rejected.
    - apply fill_not_rejected.
    - cbn. discriminate.
    - cbn. discriminate.
    - rewrite Eo. cbn. rewrite Nat.eqb_refl. apply locked_not_rejected. }
  assert (RO : forall o, towner s = Some o -> snd (fst (tstep0 s (TResume o))) <> TRejected).
  { intros o Eo. pose proof (HO o Eo) as Hlp.
    assert (Hne : tphase s o <> TIdle) by (intros E; rewrite E in Hlp; discriminate).
    apply R; [now apply Hn|].
    destruct (tphase s o) eqn:E; cbn in Hlp; try discriminate; eauto 6. }
  destruct (tphase s c) eqn:E; try congruence.
  - exists c. apply R; [apply Hn; congruence|auto].
  - destruct (Hwt c E) as [I|Eo]; [|exists c; now apply RO].
    destruct (towner s) as [o|] eqn:Eo; [exists o; now apply RO|].
    exfalso. apply Hl; [intros Z; rewrite Z in I; destruct I|reflexivity].
  - exists c. apply R; [apply Hn; congruence|eauto].
  - exists c. apply R; [apply Hn; congruence|auto].
  - exists c. apply R; [apply Hn; congruence|eauto 6].
Qed.

(* ------------------------------------------------------------------------------------------------ *)
(* C08 per consumer, copies included: a consumer that has been told StopAsyncIteration has passed a checkpoint -
   a logged checkpoint event of its own if its traversal yielded nothing, a logged event or a Lock.acquire()
   otherwise.  The facts are local to each consumer. *)
Definition ck_ok (s : tst) (c : nat) : Prop :=
  (tyielded s c = true -> tseen s c <> [] \/ exists v, tphase s c = TRetSh v) /\
  (tyielded s c = true -> 1 <= tcks s c + tlocks s c) /\
  (is_lock_phase (tphase s c) = true -> 1 <= tlocks s c) /\
  (tphase s c = TEndCk -> 1 <= tcks s c) /\
  (tstopped s c = true -> tseen s c = [] -> 1 <= tcks s c) /\
  (tstopped s c = true -> 1 <= tcks s c + tlocks s c).

Definition same_at (s s' : tst) (j : nat) : Prop :=
  tyielded s' j = tyielded s j /\ tseen s' j = tseen s j /\ tphase s' j = tphase s j /\
  tstopped s' j = tstopped s j /\ tcks s' j = tcks s j /\ tlocks s' j = tlocks s j.

Lemma ck_ok_same s s' j : same_at s s' j -> ck_ok s j -> ck_ok s' j.
Proof. intros (A & B & C & D & E & F). unfold ck_ok. now rewrite A, B, C, D, E, F. Qed.

Lemma release_all s :
  tyielded (t_release s) = tyielded s /\ tseen (t_release s) = tseen s /\ tphase (t_release s) = tphase s /\
  tstopped (t_release s) = tstopped s /\ tcks (t_release s) = tcks s /\ tlocks (t_release s) = tlocks s /\
  tcells (t_release s) = tcells s /\ tlink (t_release s) = tlink s /\ tmode (t_release s) = tmode s.
Proof. unfold t_release. destruct (twait s); repeat split. Qed.

Ltac rel_rw :=
  repeat match goal with
         | |- context [t_release ?x] =>
             let H := fresh in
             pose proof (release_all x) as H;
             destruct H as (?E1 & ?E2 & ?E3 & ?E4 & ?E5 & ?E6 & ?E7 & ?E8 & ?E9);
             rewrite ?E1, ?E2, ?E3, ?E4, ?E5, ?E6, ?E7, ?E8, ?E9;
             clear E1 E2 E3 E4 E5 E6 E7 E8 E9
         end.

(* the segments of one consumer do not touch the local facts of any other existing consumer *)
Lemma step_same s o j : j <> op_consumer o -> (match o with TCopy _ _ => j < tn s | _ => True end) ->
  same_at s (fst (fst (tstep s o))) j.
Proof.
  intros Hj Hn. unfold tstep. destruct (tstep0 s o) as [[s1 r] ev] eqn:E. cbn [fst].
  destruct o as [c|c|c k]; cbn [op_consumer] in Hj;
    unfold tstep0, t_locked, t_fill, t_finish in E;
    repeat match type of E with
           | context [match ?x with _ => _ end] => destruct x eqn:?
           end; inversion E; subst; clear E; unfold same_at;
    cbn -[t_release]; rel_rw; cbn -[t_release]; rewrite ?upd_other by exact Hj; rewrite ?on_new_old by exact Hn;
    repeat split; reflexivity.
Qed.

Lemma release_yielded s : tyielded (t_release s) = tyielded s.
Proof. unfold t_release. destruct (twait s); reflexivity. Qed.

Lemma snoc_not_nil (l : list Z) v : l ++ [v] <> [].
Proof. destruct l; discriminate. Qed.

(* the consumer that runs the segment *)
Lemma step_ck_self s o : ck_ok s (op_consumer o) -> ck_ok (fst (fst (tstep s o))) (op_consumer o).
Proof.
  intros K. unfold tstep. destruct (tstep0 s o) as [[s1 r] ev] eqn:E. cbn [fst].
  destruct K as (K1 & K2 & K3 & K4 & K5 & K6).
  destruct o as [c|c|c k]; cbn [op_consumer] in *;
    unfold tstep0, t_locked, t_fill, t_finish in E;
    repeat match type of E with
           | context [match ?x with _ => _ end] => destruct x eqn:?
           end; inversion E; subst; clear E; unfold ck_ok;
    cbn -[t_release]; rel_rw; cbn -[t_release]; rewrite ?upd_same;
    repeat (rewrite on_new_old by (apply Nat.ltb_lt; assumption));
    try match goal with
        | H : negb (_ <? _) || negb (is_tidle (tphase _ c)) = false |- _ =>
            apply orb_false_elim in H as [_ H]; apply negb_false_iff in H;
            destruct (tphase _ c) eqn:?; try discriminate H
        end;
    repeat match goal with
           | H : tphase _ c = _ |- _ => rewrite H in *
           end;
    cbn [is_lock_phase] in *; rewrite ?Nat.add_0_r;
    repeat match goal with
           | H : tyielded (t_release ?x) _ = _ |- _ => rewrite (release_yielded x) in H; cbn in H
           end;
    (refine (conj _ (conj _ (conj _ (conj _ (conj _ _))))));
    try assumption;
    try solve [intros; first [discriminate | lia | (left; apply snoc_not_nil) | (right; eexists; reflexivity)
                              | (specialize (K3 eq_refl); lia) | (specialize (K4 eq_refl); lia)]];
    try solve [intros Hy; destruct (K1 Hy) as [A|[v0 A]]; [left; exact A|discriminate A]];
    try solve [intros _ Hs; destruct (K1 ltac:(assumption)) as [A|[v0 A]]; [contradiction|discriminate A]];
    try solve [intros _; destruct (K1 eq_refl) as [A|[v0 A]]; [left; exact A|discriminate A]];
    try solve [intros _ Hs; destruct (K1 eq_refl) as [A|[v0 A]]; [contradiction|discriminate A]];
    try solve [intros; exfalso; eapply snoc_not_nil; eassumption];
    try solve [intros; pose proof (K2 ltac:(assumption)); lia];
    try solve [intros Hs; pose proof (K6 Hs); lia];
    try solve [intros Hs Hn; pose proof (K5 Hs Hn); lia];
    try solve [intros Hy; pose proof (K2 Hy); lia].
Qed.

Definition CkInv (s : tst) : Prop := forall c, ck_ok s c.

Lemma ck_step s o : CkInv s -> (forall c, tphase s c <> TIdle -> c < tn s) -> CkInv (fst (fst (tstep s o))).
Proof.
  intros K HF j. destruct (Nat.eq_dec j (op_consumer o)) as [->|Hj]; [apply step_ck_self, K|].
  destruct o as [c|c|c k].
  - apply (ck_ok_same s); [now apply step_same|apply K].
  - apply (ck_ok_same s); [now apply step_same|apply K].
  - destruct (Nat.lt_ge_cases j (tn s)) as [L|L]; [apply (ck_ok_same s); [now apply step_same|apply K]|].
    assert (Hi : tphase s j = TIdle).
    { destruct (tphase s j) eqn:E; try reflexivity; (assert (j < tn s) by (apply HF; rewrite E; discriminate); lia). }
    cbn [op_consumer] in Hj. specialize (K j). unfold ck_ok in *. unfold tstep, tstep0.
    destruct (c <? tn s); cbn; rewrite ?upd_other by exact Hj; [|rewrite ?Nat.add_0_r; exact K].
    unfold on_new. destruct (_ && _); [|exact K]. rewrite Hi. cbn.
    repeat split; intros; try discriminate; lia.
Qed.

Lemma run_ck src mode n ops : CkInv (trun mode src n ops).
Proof.
  unfold trun.
  assert (G : forall ops s, TInv2 src s /\ CkInv s -> TInv2 src (final tstep1 s ops) /\ CkInv (final tstep1 s ops)).
  { clear. induction ops as [|o r IH]; intros s H; [exact H|]. cbn. apply IH. destruct H as [HI HK]. split.
    - now apply step_inv.
    - unfold tstep1. pose proof (ck_step s o HK (proj2 HI)) as Hs. destruct (tstep s o) as [[s1 rr] ev]. exact Hs. }
  apply G. split; [apply (run_inv2 src mode n [])|].
  intros c. unfold ck_ok. cbn. repeat split; intros; discriminate.
Qed.

(* for every interleaving, every number of consumers and every copy made at any point (also of an exhausted
   iterator, also copies of copies): a consumer whose traversal is complete has logged a checkpoint event of its
   own if the traversal yielded nothing, and in any case a checkpoint event or a Lock.acquire() *)
Theorem tee_consumer_checkpoints : forall mode src n ops c,
  let s := trun mode src n ops in
  tstopped s c = true ->
  (tseen s c = [] -> 1 <= tcks s c) /\ 1 <= tcks s c + tlocks s c.
Proof.
  intros mode src n ops c s Hs. destruct (run_ck src mode n ops c) as (_ & _ & _ & _ & K5 & K6).
  split; [now apply K5|now apply K6].
Qed.

(* non-vacuity: the only consumer of a synchronous source [7] is run to the end; then tee(it_0, 1) is called on
   the exhausted iterator.  The copy starts at link 1, yields nothing, passes its own checkpoint() (one event)
   and the source is not asked again. *)
Example tee_copy_after_exhaustion :
  let ops := [TNext 0; TResume 0; TResume 0; TNext 0; TResume 0; TResume 0;
              TCopy 0 1; TNext 1; TResume 1] in
  let s := trun 0 [7]%Z 1 ops in
  (tseen s 0, tstopped s 0) = ([7]%Z, true) /\
  tn s = 2 /\ tstart s 1 = 1 /\ (tseen s 1, tstopped s 1) = ([], true) /\ tcks s 1 = 1 /\ tlocks s 1 = 0 /\
  tpolled s = [CVal 7; CEnd]%Z /\
  snd (tstep (trun 0 [7]%Z 1 (firstn 7 ops)) (TNext 1)) = [Ck].
Proof. vm_compute. repeat split. Qed.

(* a copy of an advanced consumer sees the rest *)
Example tee_copy_of_advanced :
  let ops := [TNext 0; TResume 0; TResume 0; TCopy 0 2; TNext 1; TResume 1; TNext 2; TResume 1; TResume 2;
              TNext 1; TResume 1; TResume 1; TNext 2] in
  let s := trun 0 [7; 8]%Z 1 ops in
  (tstart s 1, tstart s 2) = (1, 1) /\ (tseen s 0, tseen s 1, tseen s 2) = ([7], [8], [8])%Z /\
  (tstopped s 1, tstopped s 2) = (true, true).
Proof. vm_compute. repeat split. Qed.

(* ------------------------------------------------------------------------------------------------ *)
(* checks and yields counted separately: every logged checkpoint event of a tee consumer comes with both a
   cancellation check and a real yield (the segments log [], [Ck] or [CkIf; Sh]) *)
Lemma release_counts s :
  tcks (t_release s) = tcks s /\ tchk (t_release s) = tchk s /\ tyld (t_release s) = tyld s.
Proof. unfold t_release. destruct (twait s); auto. Qed.

Definition Pair (s : tst) : Prop := forall c, 1 <= tcks s c -> 1 <= tchk s c /\ 1 <= tyld s c.

Lemma pair_step s o : Pair s -> Pair (fst (fst (tstep s o))).
Proof.
  intros P j. specialize (P j). unfold tstep. destruct (tstep0 s o) as [[s1 r] ev] eqn:E. cbn [fst].
  destruct o as [c|c|c k];
    unfold tstep0, t_locked, t_fill, t_finish in E;
    repeat match type of E with
           | context [match ?x with _ => _ end] => destruct x eqn:?
           end; inversion E; subst; clear E;
    cbn -[t_release];
    repeat match goal with
           | |- context [t_release ?x] =>
               let H := fresh in
               pose proof (release_counts x) as H; destruct H as (?E1 & ?E2 & ?E3); rewrite ?E1, ?E2, ?E3; clear E1 E2 E3
           end;
    cbn -[t_release]; unfold upd, on_new;
    repeat match goal with
           | |- context [if Nat.eqb ?x ?y then _ else _] => destruct (Nat.eqb_spec x y); subst
           end;
    repeat match goal with
           | |- context [if ?b then _ else _] => destruct b
           end; cbn; lia.
Qed.

Lemma run_pair src mode n ops : Pair (trun mode src n ops).
Proof.
  unfold trun.
  assert (G : forall ops s, Pair s -> Pair (final tstep1 s ops)).
  { clear. induction ops as [|o r IH]; intros s H; [exact H|]. cbn. apply IH.
    unfold tstep1. pose proof (pair_step s o H) as Hs. destruct (tstep s o) as [[s1 rr] ev]. exact Hs. }
  apply G. intros c H. cbn in H. lia.
Qed.

(* the per-consumer clause with "passes a checkpoint" = a cancellation check AND a yield: a stopped consumer whose
   traversal yielded nothing logged both; any stopped consumer logged both or went through Lock.acquire() *)
Theorem tee_consumer_passes_checkpoint : forall mode src n ops c,
  let s := trun mode src n ops in
  tstopped s c = true ->
  (tseen s c = [] -> 1 <= tchk s c /\ 1 <= tyld s c) /\
  ((1 <= tchk s c /\ 1 <= tyld s c) \/ 1 <= tlocks s c).
Proof.
  intros mode src n ops c s Hs.
  destruct (tee_consumer_checkpoints mode src n ops c Hs) as [A B]. fold s in A, B.
  pose proof (run_pair src mode n ops c) as P. fold s in P.
  split; [intros E; apply P, A, E|].
  destruct (Nat.eq_dec (tcks s c) 0) as [Z|Z]; [right; lia|left; apply P; lia].
Qed.

(* the counters are what the segments logged *)
Theorem tee_checks_yields_logged : forall s o s' r ev, tstep s o = (s', r, ev) ->
  match o with
  | TCopy _ _ => True
  | _ => tchk s' (op_consumer o) = tchk s (op_consumer o) + count_check ev /\
         tyld s' (op_consumer o) = tyld s (op_consumer o) + count_yield ev
  end.
Proof.
  intros s o s' r ev H. unfold tstep in H. destruct (tstep0 s o) as [[s1 r1] ev1] eqn:E.
  inversion H; subst; clear H.
  destruct o as [c|c|c k]; [| |exact I]; cbn [op_consumer];
    unfold tstep0, t_locked, t_fill, t_finish in E;
    repeat match type of E with
           | context [match ?x with _ => _ end] => destruct x eqn:?
           end; inversion E; subst; clear E;
    cbn -[t_release];
    repeat match goal with
           | |- context [t_release ?x] =>
               let H := fresh in
               pose proof (release_counts x) as H; destruct H as (?E1 & ?E2 & ?E3); rewrite ?E1, ?E2, ?E3; clear E1 E2 E3
           end;
    cbn -[t_release]; rewrite ?upd_same; split; reflexivity.
Qed.

Example tee_copy_after_exhaustion_checks :
  let ops := [TNext 0; TResume 0; TResume 0; TNext 0; TResume 0; TResume 0; TCopy 0 1; TNext 1; TResume 1] in
  let s := trun 0 [7]%Z 1 ops in
  (tseen s 1, tstopped s 1) = ([], true) /\ (tchk s 1, tyld s 1) = (1, 1).
Proof. vm_compute. auto. Qed.
