(* Tie T for C16: the programs that tools/translate_buffered.py regenerates from src/anyio/streams/buffered.py
   (pure/BufGen.v), interpreted by BufImp.exec, ARE the model (Buffered.step): same state, same result, for every state,
   argument, cancellation point and feed list. *)
From AV Require Import Base Buffered BufImp BufGen.
From Coq Require Import Lia ZArith.

Definition proj (x : st * res * list Z) : option (st * res) := Some (fst x).

(* ---------- small facts ---------- *)
Lemma cut_nonneg n l : (0 <= n)%Z -> cut n l = Z.to_nat n.
Proof. intros H. unfold cut. destruct (0 <=? n)%Z eqn:E; [reflexivity|lia]. Qed.

(* ---------- receive_exactly ---------- *)
Definition exactly_body : block :=
  match gen_exactly with SSeq _ (SWhileTrue b) => b | _ => BSkip end.

Lemma exactly_loop_eq fuel : forall e s,
  result (loop fuel exactly_body e s) = proj (exactly_loop fuel (cn e) s (par e) (fs e)).
Proof.
  induction fuel as [|f IH]; intros e s; [reflexivity|].
  cbn [loop exactly_loop]. unfold exactly_body; cbn [gen_exactly].
  cbn -[loop exactly_loop pull Z.sub Z.leb Z.of_nat Z.to_nat hit default_max]. unfold blen, fetch.
  destruct (par e - Z.of_nat (length (buf s)) <=? 0)%Z eqn:E.
  - reflexivity.
  - destruct (knd s) eqn:K; cbn -[loop exactly_loop pull Z.sub Z.leb Z.of_nat Z.to_nat hit default_max];
      (destruct (hit (cn e)) eqn:H; [reflexivity|]).
    + destruct (pull KByte (Z.to_nat (par e - Z.of_nat (length (buf s)))) (src s)) as [[c r]|] eqn:P.
      * cbn -[loop exactly_loop pull Z.sub Z.leb Z.of_nat Z.to_nat hit default_max].
        rewrite (IH _ _). cbn -[loop exactly_loop pull Z.sub Z.leb Z.of_nat Z.to_nat hit default_max].
        rewrite ?K. destruct (exactly_loop f (pred (cn e)) _ (par e) (tl (fs e))) as [[s' r'] lg]. reflexivity.
      * unfold set_buf, proj; cbn; rewrite ?K; reflexivity.
    + destruct (pull KObject default_max (src s)) as [[c r]|] eqn:P.
      * cbn -[loop exactly_loop pull Z.sub Z.leb Z.of_nat Z.to_nat hit default_max].
        rewrite (IH _ _). cbn -[loop exactly_loop pull Z.sub Z.leb Z.of_nat Z.to_nat hit default_max].
        rewrite ?K. destruct (exactly_loop f (pred (cn e)) _ (par e) (tl (fs e))) as [[s' r'] lg]. reflexivity.
      * unfold set_buf, proj; cbn; rewrite ?K; reflexivity.
Qed.

Theorem tie_exactly s n c f :
  result (exec (fuel_of s) gen_exactly (env0 n [] c f) s) = proj (do_exactly false c s n f).
Proof.
  unfold do_exactly. cbn [negb andb]. cbn [gen_exactly exec run_block evalc par env0].
  destruct (n <? 0)%Z eqn:E; [reflexivity|].
  cbn [run_block]. change (BSeq (BAtom ASetRemaining) _) with exactly_body. apply exactly_loop_eq.
Qed.

(* ---------- receive_until ---------- *)
Definition until_body : block :=
  match gen_until with SSeq _ (SSeq _ (SWhileTrue b)) => b | _ => BSkip end.

Ltac hold := cbn -[loop until_loop pull Z.sub Z.add Z.leb Z.max Z.of_nat Z.to_nat hit default_max find_from cut].

Lemma until_loop_eq fuel : forall e s off,
  offset e = Z.of_nat off -> dsize e = Z.of_nat (length (delim e)) ->
  result (loop fuel until_body e s) = proj (until_loop false fuel (cn e) s (delim e) (par e) off (fs e)).
Proof.
  induction fuel as [|f IH]; intros e s off Ho Hd; [reflexivity|].
  cbn [loop until_loop]. unfold until_body; cbn [gen_until]. hold. rewrite Ho, Nat2Z.id.
  destruct (find_from (delim e) off (buf s)) as [i|] eqn:F; hold.
  - assert (H0 : (0 <=? Z.of_nat i)%Z = true) by (apply Z.leb_le; lia). rewrite H0. hold.
    rewrite !cut_nonneg by lia. rewrite Nat2Z.id.
    replace (Z.to_nat (Z.of_nat i + Z.of_nat (length (delim e)))) with (i + length (delim e)) by lia.
    reflexivity.
  - change (0 <=? -1)%Z with false. hold. unfold blen. destruct (par e <=? Z.of_nat (length (buf s)))%Z eqn:Em; hold; [reflexivity|].
    unfold fetch. hold. destruct (hit (cn e)) eqn:H; [reflexivity|].
    destruct (pull (knd s) default_max (src s)) as [[c r]|] eqn:P; hold.
    + unfold blen. hold.
      assert (Hge : (Z.of_nat (length (buf s)) <=? Z.of_nat (length (buf s ++ hd [] (fs e))))%Z = true).
      { apply Z.leb_le. rewrite app_length. lia. }
      rewrite Hge. hold.
      rewrite (IH _ _ (length (buf s) + 1 - length (delim e))); hold.
      * destruct (until_loop false f (pred (cn e)) _ (delim e) (par e) _ (tl (fs e))) as [[s' r'] lg]. reflexivity.
      * rewrite Hd. lia.
      * exact Hd.
    + reflexivity.
Qed.

Theorem tie_until s d m c f :
  result (exec (fuel_of s) gen_until (env0 m d c f) s) = proj (until_loop false (fuel_of s) c s d m 0 f).
Proof.
  cbn [gen_until exec run_block run_atom]. cbn [with_dsize with_offset].
  change (BSeq (BAtom ASetIndexFind) _) with until_body.
  exact (until_loop_eq (fuel_of s) (with_offset (with_dsize (env0 m d c f) (Z.of_nat (length d))) 0) s 0 eq_refl eq_refl).
Qed.

(* ---------- receive ---------- *)
Definition nc_body : block := BFetch FNone EPropagate.

Lemma loop_nc_eq : forall l fuel e s acc b0,
  chunk e = [] -> src s = l -> knd s = KObject -> buf s = b0 ++ acc -> length l < fuel ->
  match skip_empty (cn e) l (fs e) acc with
  | FGot c r fed => exists e', loop_nc fuel nc_body e s = OFall e' (mk KObject (b0 ++ fed) r) /\ chunk e' = c /\ par e' = par e
  | FEnd fed => loop_nc fuel nc_body e s = ODone (mk KObject (b0 ++ fed) []) REnd
  | FCancel r fed => loop_nc fuel nc_body e s = ODone (mk KObject (b0 ++ fed) r) RCancelled
  end.
Proof.
  induction l as [|c r IH]; intros fuel e s acc b0 Hc Hs Hk Hb Hf;
    (destruct fuel as [|f]; [cbn in Hf; lia|]); destruct s as [k b sr]; cbn [src knd buf] in Hs, Hk, Hb; subst k b sr;
    cbn [skip_empty loop_nc]; rewrite Hc; unfold nc_body; cbn [run_block]; unfold fetch; cbn [knd buf src set_buf];
    (destruct (hit (cn e)) eqn:H; [reflexivity|]); cbn [pull].
  - rewrite <- app_assoc. reflexivity.
  - cbn [buf]. destruct c as [|x c'].
    + specialize (IH f (fetched e []) (mk KObject ((b0 ++ acc) ++ hd [] (fs e)) r) (acc ++ hd [] (fs e)) b0
                     eq_refl eq_refl eq_refl (eq_sym (app_assoc _ _ _))).
      cbn [cn fs fetched] in IH. cbn in Hf. specialize (IH ltac:(lia)).
      destruct (skip_empty (pred (cn e)) r (tl (fs e)) (acc ++ hd [] (fs e))) as [c2 r2 fed|fed|r2 fed].
      * destruct IH as (e' & A & B & C). exists e'. cbn [par fetched] in C. auto.
      * exact IH.
      * exact IH.
    + destruct f as [|f']; [cbn in Hf; lia|]. cbn [loop_nc chunk fetched].
      exists (fetched e (x :: c')). rewrite <- app_assoc. auto.
Qed.

Theorem tie_receive s n c f :
  result (exec (fuel_of s) gen_receive (env0 n [] c f) s) = proj (do_receive false c s n f).
Proof.
  unfold do_receive. cbn [gen_receive exec run_block evalc par env0].
  destruct (n <? 1)%Z eqn:E; [reflexivity|]. cbn [run_block exec evalc].
  destruct (buf s) as [|x b] eqn:B.
  - destruct (knd s) eqn:K; cbn [exec run_block].
    + unfold fetch. cbn [cn fs ask par env0]. destruct (hit c); [reflexivity|]. rewrite K, B.
      destruct (pull KByte (Z.to_nat n) (src s)) as [[ch r]|]; unfold set_buf, proj; cbn; rewrite ?K, ?B; reflexivity.
    + cbn [run_atom with_chunk].
      pose proof (loop_nc_eq (src s) (fuel_of s) (with_chunk (env0 n [] c f) []) s [] [] eq_refl eq_refl K
                             (eq_trans B eq_refl)) as L.
      cbn [cn fs with_chunk env0] in L. specialize (L ltac:(unfold fuel_of, measure; lia)).
      change (BFetch FNone EPropagate) with nc_body.
      destruct (skip_empty c (src s) f []) as [c2 r2 fed|fed|r2 fed].
      * destruct L as (e' & -> & Hch & Hp). cbn [par with_chunk env0] in Hp.
        cbn [exec run_block evalc]. rewrite Hch, Hp. cbn [app].
        destruct (n <? Z.of_nat (length c2))%Z eqn:En; cbn [run_block run_atom].
        -- rewrite !cut_nonneg by lia. unfold set_buf, proj; cbn. reflexivity.
        -- unfold proj; cbn. reflexivity.
      * rewrite L. reflexivity.
      * rewrite L. reflexivity.
  - cbn [exec run_block run_atom evali par env0 with_val val]. rewrite ?B. rewrite !cut_nonneg by lia.
    unfold set_buf, proj; cbn. rewrite ?B. reflexivity.
Qed.

(* ---------- the machine that runs the regenerated programs is the model ---------- *)
Theorem gstep_eq_step s o : gstep gen_progs s o = step s o.
Proof.
  unfold step, step_log, gstep, gcall, fuel_for. destruct o as [n f|n f|d m f|d|k n f|k n f|k d m f]; cbn [step_gen gen_progs p_receive p_exactly p_until].
  - rewrite tie_receive. reflexivity.
  - rewrite tie_exactly. reflexivity.
  - rewrite tie_until. reflexivity.
  - reflexivity.
  - destruct k; [reflexivity|]. rewrite tie_receive. reflexivity.
  - destruct k; [reflexivity|]. rewrite tie_exactly. reflexivity.
  - destruct k; [reflexivity|]. rewrite tie_until. reflexivity.
Qed.

Corollary grun_eq_run : forall ops s, final (gstep gen_progs) s ops = final step s ops.
Proof.
  induction ops as [|o r IH]; intros s; [reflexivity|]. unfold final in *. cbn [fold_left]. rewrite gstep_eq_step. apply IH.
Qed.
