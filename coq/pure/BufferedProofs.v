(* Proofs about pure/Buffered.v: for ALL byte lists, ALL chunkings, ALL op sequences. *)
From AV Require Import Base Buffered.
From Coq Require Import ZifyBool.

(* ------------------------------------------------------------------------------------------------ *)
(* the wrapped stream                                                                               *)
(* ------------------------------------------------------------------------------------------------ *)

Lemma default_max_pos : 1 <= default_max.
Proof. unfold default_max. lia. Qed.
Global Opaque default_max.

Lemma pull_none k n s : pull k n s = None -> s = [].
Proof. destruct s; [reflexivity|]. destruct k; discriminate. Qed.

Lemma pull_spec k n s p r : pull k n s = Some (p, r) -> concat s = p ++ concat r.
Proof.
  destruct s as [|c t]; [discriminate|]. destruct k; cbn [pull]; intros H.
  - injection H as <- <-. cbn [concat]. destruct (skipn n c) as [|q0 q] eqn:E.
    + transitivity ((firstn n c ++ skipn n c) ++ concat t); [now rewrite firstn_skipn|].
      rewrite E, app_nil_r. reflexivity.
    + cbn [concat]. rewrite <- E, app_assoc, firstn_skipn. reflexivity.
  - injection H as <- <-. reflexivity.
Qed.

Lemma pull_measure k n s p r : pull k n s = Some (p, r) -> 1 <= n -> measure r < measure s.
Proof.
  destruct s as [|c t]; [discriminate|]. unfold measure. destruct k; cbn [pull]; intros H Hn; injection H as _ <-.
  - destruct (skipn n c) as [|q0 q] eqn:E; cbn [length concat]; rewrite ?app_length.
    + lia.
    + assert (L : length (q0 :: q) = length c - n) by (rewrite <- E; apply skipn_length).
      cbn [length] in L |- *. lia.
  - cbn [length concat]. rewrite app_length. lia.
Qed.

(* a byte stream whose next piece fits the request hands it out whole: every behaviour of a contract-honouring byte
   stream is therefore a chunk list *)
Lemma pull_byte_fits n c r : length c <= n -> pull KByte n (c :: r) = Some (c, r).
Proof.
  intros H. cbn [pull]. rewrite firstn_all2 by exact H. rewrite skipn_all2 by exact H. reflexivity.
Qed.

Lemma pull_byte_bound n s p r : pull KByte n s = Some (p, r) -> length p <= n.
Proof.
  destruct s as [|c t]; [discriminate|]. cbn [pull]. intros H. injection H as <- _. apply firstn_le_length.
Qed.

Lemma pull_nonempty k n s p r : chunks_nonempty s -> 1 <= n -> pull k n s = Some (p, r) ->
  p <> [] /\ chunks_nonempty r.
Proof.
  destruct s as [|c t]; [discriminate|]. intros Hs Hn. assert (Hc : c <> []) by (apply Hs; now left).
  assert (Ht : chunks_nonempty t) by (intros x Hx; apply Hs; now right).
  destruct k; cbn [pull]; intros H; injection H as <- <-.
  - split.
    + destruct c as [|x c]; [congruence|]. destruct n; [lia|]. discriminate.
    + destruct (skipn n c) as [|q0 q] eqn:E; [exact Ht|].
      intros x [<-|Hx]; [discriminate|now apply Ht].
  - split; assumption.
Qed.

(* ------------------------------------------------------------------------------------------------ *)
(* bytearray.find                                                                                   *)
(* ------------------------------------------------------------------------------------------------ *)

Lemma prefixb_spec d : forall l, prefixb d l = true <-> exists post, l = d ++ post.
Proof.
  induction d as [|x d IH]; intros l; cbn [prefixb].
  - split; [intros _; exists l; reflexivity | reflexivity].
  - destruct l as [|y l].
    + split; [discriminate | intros [post H]; discriminate].
    + rewrite andb_true_iff, Z.eqb_eq, IH. split.
      * intros [-> [post ->]]. exists post. reflexivity.
      * intros [post H]. cbn [app] in H. injection H as -> ->. split; [reflexivity | exists post; reflexivity].
Qed.

Lemma occurs_at_len d l k : occurs_at d l k -> k + length d <= length l.
Proof. intros (pre & post & -> & <-). rewrite !app_length. lia. Qed.

Lemma occurs_at_0 d l : occurs_at d l 0 <-> prefixb d l = true.
Proof.
  rewrite prefixb_spec. split.
  - intros (pre & post & E & L). destruct pre; [|discriminate]. exists post. exact E.
  - intros (post & E). exists [], post. split; [exact E|reflexivity].
Qed.

Lemma occurs_at_S d x l k : occurs_at d (x :: l) (S k) <-> occurs_at d l k.
Proof.
  split.
  - intros (pre & post & E & L). destruct pre as [|y pre]; [discriminate|]. cbn [app] in E.
    injection E as _ E. exists pre, post. split; [exact E| cbn in L; lia].
  - intros (pre & post & E & L). exists (x :: pre), post. split; [cbn; now rewrite E | cbn; lia].
Qed.

Lemma find_at_spec d : forall l i,
  match find_at d l i with
  | Some j => exists k, j = i + k /\ occurs_at d l k /\ forall k', k' < k -> ~ occurs_at d l k'
  | None => forall k, ~ occurs_at d l k
  end.
Proof.
  induction l as [|x l IH]; intros i; cbn [find_at].
  - destruct (prefixb d []) eqn:P.
    + exists 0. split; [lia|]. split; [now apply occurs_at_0|]. intros k' Hk; lia.
    + intros k Hk. pose proof (occurs_at_len _ _ _ Hk) as Hl. cbn in Hl.
      assert (k = 0) by lia. subst k. apply occurs_at_0 in Hk. congruence.
  - destruct (prefixb d (x :: l)) eqn:P.
    + exists 0. split; [lia|]. split; [now apply occurs_at_0|]. intros k' Hk; lia.
    + specialize (IH (S i)). destruct (find_at d l (S i)) as [j|].
      * destruct IH as (k & -> & Ho & Hf). exists (S k). split; [lia|]. split; [now apply occurs_at_S|].
        intros k' Hk. destruct k' as [|k'].
        -- rewrite occurs_at_0. congruence.
        -- rewrite occurs_at_S. apply Hf. lia.
      * intros k. destruct k as [|k].
        -- rewrite occurs_at_0. congruence.
        -- rewrite occurs_at_S. apply IH.
Qed.

Lemma occurs_at_skipn d l off k : off <= length l -> occurs_at d (skipn off l) k -> occurs_at d l (off + k).
Proof.
  intros Hl (pre & post & E & L). exists (firstn off l ++ pre), post. split.
  - rewrite <- app_assoc, <- E. symmetry. apply firstn_skipn.
  - rewrite app_length, firstn_length. lia.
Qed.

Lemma occurs_at_skipn_inv d l off k : occurs_at d l (off + k) -> occurs_at d (skipn off l) k.
Proof.
  intros (pre & post & E & L). exists (skipn off pre), post. split.
  - rewrite E. rewrite skipn_app. replace (off - length pre) with 0 by lia. reflexivity.
  - rewrite skipn_length. lia.
Qed.

Lemma find_from_some d off l j : find_from d off l = Some j ->
  off <= j /\ occurs_at d l j /\ forall k, off <= k < j -> ~ occurs_at d l k.
Proof.
  unfold find_from. destruct (length l <? off) eqn:E; [discriminate|]. apply Nat.ltb_ge in E.
  intros H. pose proof (find_at_spec d (skipn off l) off) as S. rewrite H in S.
  destruct S as (k & -> & Ho & Hf). split; [lia|]. split.
  - now apply occurs_at_skipn.
  - intros k' Hk Hocc. apply (Hf (k' - off)); [lia|]. apply occurs_at_skipn_inv.
    replace (off + (k' - off)) with k' by lia. exact Hocc.
Qed.

Lemma find_from_none d off l : find_from d off l = None -> forall k, off <= k -> ~ occurs_at d l k.
Proof.
  unfold find_from. destruct (length l <? off) eqn:E.
  - apply Nat.ltb_lt in E. intros _ k Hk Hocc. apply occurs_at_len in Hocc. lia.
  - intros H k Hk Hocc. pose proof (find_at_spec d (skipn off l) off) as S. rewrite H in S.
    apply (S (k - off)). apply occurs_at_skipn_inv. replace (off + (k - off)) with k by lia. exact Hocc.
Qed.

Lemma app_eq_prefix {A} (c : list A) : forall a b e, a ++ b = c ++ e -> length c <= length a -> exists t, a = c ++ t.
Proof.
  induction c as [|x c IH]; intros a b e H L.
  - exists a. reflexivity.
  - destruct a as [|y a]; [cbn in L; lia|]. cbn [app] in H. injection H as -> H. cbn in L.
    destruct (IH a b e H ltac:(lia)) as [t ->]. exists t. reflexivity.
Qed.

(* an occurrence that ends inside the old part is an occurrence in the old part *)
Lemma occurs_at_app_l d old data k : occurs_at d (old ++ data) k -> k + length d <= length old -> occurs_at d old k.
Proof.
  intros (pre & post & E & L) H.
  assert (E' : old ++ data = (pre ++ d) ++ post) by (rewrite <- app_assoc; exact E).
  destruct (app_eq_prefix (pre ++ d) old data post E') as [t Ht]. { rewrite app_length. lia. }
  exists pre, t. split; [rewrite Ht, <- app_assoc; reflexivity | exact L].
Qed.

Lemma occurs_at_app_r d l ext k : occurs_at d l k -> occurs_at d (l ++ ext) k.
Proof.
  intros (pre & post & -> & L). exists pre, (post ++ ext). split; [now rewrite <- !app_assoc | exact L].
Qed.

(* THE SEARCH-OFFSET LEMMA: after appending new data to a buffer that does not contain the delimiter, every
   occurrence starts at or after max(|old| - |d| + 1, 0); restarting the search there misses nothing *)
Theorem search_offset_complete d old data k :
  (forall j, ~ occurs_at d old j) -> k < length old + 1 - length d -> ~ occurs_at d (old ++ data) k.
Proof.
  intros Hno Hk Hocc. apply (Hno k). apply (occurs_at_app_l d old data k Hocc). lia.
Qed.

Lemma find_from_offset d off l :
  (forall j, j < off -> ~ occurs_at d l j) -> find_from d off l = find_from d 0 l.
Proof.
  intros Hinv.
  destruct (find_from d off l) as [i|] eqn:F; destruct (find_from d 0 l) as [i'|] eqn:F0.
  - destruct (find_from_some _ _ _ _ F) as (H1 & H2 & H3).
    destruct (find_from_some _ _ _ _ F0) as (H1' & H2' & H3').
    f_equal. destruct (Nat.lt_trichotomy i i') as [Hlt|[->|Hgt]]; [|reflexivity|].
    + exfalso. apply (H3' i); [lia|exact H2].
    + exfalso. destruct (Nat.lt_ge_cases i' off) as [Ho|Ho].
      * apply (Hinv i' Ho H2').
      * apply (H3 i'); [lia|exact H2'].
  - exfalso. destruct (find_from_some _ _ _ _ F) as (H1 & H2 & H3).
    apply (find_from_none _ _ _ F0 i); [lia|exact H2].
  - exfalso. destruct (find_from_some _ _ _ _ F0) as (H1' & H2' & H3').
    destruct (Nat.lt_ge_cases i' off) as [Ho|Ho].
    + apply (Hinv i' Ho H2').
    + apply (find_from_none _ _ _ F i' Ho H2').
  - reflexivity.
Qed.

(* ------------------------------------------------------------------------------------------------ *)
(* receive_until                                                                                    *)
(* ------------------------------------------------------------------------------------------------ *)

(* `pieces` = what the call read from the wrapped stream, one entry per read.  Reads happen only while the buffer
   holds fewer than m bytes and no delimiter (second clause: the exact boundary condition). *)
Definition until_post (b : list Z) (sr : list (list Z)) (d : list Z) (m : Z) (s' : st) (r : res)
                      (pieces : list (list Z)) : Prop :=
  concat sr = concat pieces ++ concat (src s') /\
  (forall k, k < length pieces ->
     ~ occurs d (b ++ concat (firstn k pieces)) /\
     (Z.of_nat (length (b ++ concat (firstn k pieces))) < m)%Z) /\
  (chunks_nonempty sr -> chunks_nonempty (src s')) /\
  match r with
  | RBytes x => b ++ concat pieces = x ++ d ++ buf s' /\
                (forall j, j < length x -> ~ occurs_at d (b ++ concat pieces) j)
  | RNotFound => buf s' = b ++ concat pieces /\ ~ occurs d (buf s') /\ (m <= Z.of_nat (length (buf s')))%Z
  | RIncomplete => buf s' = b ++ concat pieces /\ src s' = [] /\ ~ occurs d (buf s') /\
                   (Z.of_nat (length (buf s')) < m)%Z
  | _ => False
  end.

Lemma until_post_cons b c sr r0 d m s' r pieces :
  until_post (b ++ c) r0 d m s' r pieces ->
  concat sr = c ++ concat r0 -> ~ occurs d b -> (Z.of_nat (length b) < m)%Z ->
  (chunks_nonempty sr -> chunks_nonempty r0) ->
  until_post b sr d m s' r (c :: pieces).
Proof.
  intros (H1 & H2 & H3 & H4) Hsr Hno Hlen Hne.
  assert (EQ : b ++ concat (c :: pieces) = (b ++ c) ++ concat pieces) by (cbn [concat]; apply app_assoc).
  unfold until_post. refine (conj _ (conj _ (conj _ _))).
  - cbn [concat]. rewrite Hsr, H1, app_assoc. reflexivity.
  - intros k Hk. destruct k as [|k].
    + cbn [firstn concat]. rewrite app_nil_r. split; assumption.
    + cbn [firstn concat]. rewrite app_assoc. apply H2. cbn in Hk. lia.
  - intros Hs. apply H3, Hne, Hs.
  - destruct r; try exact H4; rewrite EQ; exact H4.
Qed.

Lemma until_loop_spec fuel : forall s d m off s' r,
  (forall j, j < off -> ~ occurs_at d (buf s) j) ->
  measure (src s) < fuel ->
  until_loop fuel s d m off = (s', r) ->
  knd s' = knd s /\ exists pieces, until_post (buf s) (src s) d m s' r pieces.
Proof.
  induction fuel as [|f IH]; intros s d m off s' r Hinv Hm H; [lia|].
  cbn [until_loop] in H.
  destruct (find_from d off (buf s)) as [i|] eqn:F.
  - injection H as <- <-. split; [reflexivity|]. exists [].
    destruct (find_from_some _ _ _ _ F) as (Hoi & Hocc & Hfirst).
    pose proof Hocc as (pre & post & E & L).
    assert (F1 : firstn i (buf s) = pre).
    { rewrite E, <- L. rewrite firstn_app, Nat.sub_diag, firstn_all. cbn. now rewrite app_nil_r. }
    assert (F2 : skipn (i + length d) (buf s) = post).
    { rewrite E, app_assoc. rewrite skipn_app. rewrite skipn_all2 by (rewrite app_length; lia).
      rewrite app_length. replace (i + length d - (length pre + length d)) with 0 by lia. reflexivity. }
    unfold until_post. cbn [src buf concat length]. rewrite !app_nil_r.
    refine (conj eq_refl (conj _ (conj (fun h => h) (conj _ _)))).
    + intros k Hk; lia.
    + rewrite F1, F2. exact E.
    + rewrite F1, L. intros j Hj. destruct (Nat.lt_ge_cases j off) as [Ho|Ho].
      * apply Hinv, Ho.
      * apply Hfirst. lia.
  - assert (Hno : ~ occurs d (buf s)).
    { intros [k Hk]. destruct (Nat.lt_ge_cases k off) as [Ho|Ho].
      - apply (Hinv k Ho Hk).
      - apply (find_from_none _ _ _ F k Ho Hk). }
    destruct (m <=? Z.of_nat (length (buf s)))%Z eqn:Em.
    + injection H as <- <-. split; [reflexivity|]. exists [].
      unfold until_post. cbn [concat length]. rewrite !app_nil_r.
      refine (conj eq_refl (conj _ (conj (fun h => h) (conj eq_refl (conj Hno _))))).
      * intros k Hk; lia.
      * lia.
    + destruct (pull (knd s) default_max (src s)) as [[c r0]|] eqn:P.
      * pose proof (pull_spec _ _ _ _ _ P) as Hc.
        pose proof (pull_measure _ _ _ _ _ P default_max_pos) as Hms.
        specialize (IH (mk (knd s) (buf s ++ c) r0) d m (length (buf s) + 1 - length d) s' r).
        cbn [buf src knd] in IH.
        destruct IH as (Hk & pieces & Hp); [| lia | exact H |].
        { intros j Hj. apply search_offset_complete; [|exact Hj].
          intros j' Hj'. apply Hno. exists j'. exact Hj'. }
        split; [exact Hk|]. exists (c :: pieces).
        apply (until_post_cons _ _ _ r0); [exact Hp | exact Hc | exact Hno | lia |].
        intros Hs. apply (pull_nonempty _ _ _ _ _ Hs default_max_pos P).
      * injection H as <- <-. split; [reflexivity|]. exists [].
        apply pull_none in P.
        unfold until_post. cbn [concat length]. rewrite !app_nil_r.
        refine (conj eq_refl (conj _ (conj (fun h => h) (conj eq_refl (conj P (conj Hno _)))))).
        -- intros k Hk; lia.
        -- lia.
Qed.

(* the offset is an optimisation only: receive_until behaves exactly as if it searched the whole buffer each time *)
Lemma until_loop_naive fuel : forall s d m off,
  (forall j, j < off -> ~ occurs_at d (buf s) j) ->
  until_loop fuel s d m off = until_naive fuel s d m.
Proof.
  induction fuel as [|f IH]; intros s d m off Hinv; [reflexivity|].
  cbn [until_loop until_naive]. rewrite (find_from_offset d off (buf s) Hinv).
  destruct (find_from d 0 (buf s)) as [i|] eqn:F; [reflexivity|].
  destruct (m <=? Z.of_nat (length (buf s)))%Z; [reflexivity|].
  destruct (pull (knd s) default_max (src s)) as [[c r0]|]; [|reflexivity].
  apply IH. cbn [buf]. intros j Hj. apply search_offset_complete; [|exact Hj].
  intros j' Hj'. apply (find_from_none _ _ _ F j'); [lia|exact Hj'].
Qed.

Theorem until_offset_sound s d m : step s (Until d m) = until_naive (fuel_of s) s d m.
Proof. cbn [step]. apply until_loop_naive. intros j Hj; lia. Qed.

(* ------------------------------------------------------------------------------------------------ *)
(* receive_exactly                                                                                  *)
(* ------------------------------------------------------------------------------------------------ *)

Definition exactly_post (b : list Z) (sr : list (list Z)) (n : Z) (s' : st) (r : res) (pulled : list Z) : Prop :=
  concat sr = pulled ++ concat (src s') /\
  (chunks_nonempty sr -> chunks_nonempty (src s')) /\
  (pulled = [] \/ (Z.of_nat (length b) < n)%Z) /\
  match r with
  | RBytes x => x = firstn (cut n (b ++ pulled)) (b ++ pulled) /\
                buf s' = skipn (cut n (b ++ pulled)) (b ++ pulled) /\
                (n <= Z.of_nat (length (b ++ pulled)))%Z
  | RIncomplete => buf s' = b ++ pulled /\ src s' = [] /\ (Z.of_nat (length (buf s')) < n)%Z
  | _ => False
  end.

Lemma exactly_loop_spec fuel : forall s n s' r,
  measure (src s) < fuel ->
  exactly_loop fuel s n = (s', r) ->
  knd s' = knd s /\ exists pulled, exactly_post (buf s) (src s) n s' r pulled.
Proof.
  induction fuel as [|f IH]; intros s n s' r Hm H; [lia|].
  cbn [exactly_loop] in H.
  destruct (n - Z.of_nat (length (buf s)) <=? 0)%Z eqn:E.
  - injection H as <- <-. split; [reflexivity|]. exists [].
    unfold exactly_post. cbn [src buf]. rewrite !app_nil_r.
    refine (conj eq_refl (conj (fun h => h) (conj (or_introl eq_refl) (conj eq_refl (conj eq_refl _))))). lia.
  - set (ask := match knd s with KByte => Z.to_nat (n - Z.of_nat (length (buf s))) | KObject => default_max end) in H.
    assert (Hask : 1 <= ask).
    { unfold ask. destruct (knd s); [lia|apply default_max_pos]. }
    destruct (pull (knd s) ask (src s)) as [[c r0]|] eqn:P.
    + pose proof (pull_spec _ _ _ _ _ P) as Hc.
      pose proof (pull_measure _ _ _ _ _ P Hask) as Hms.
      specialize (IH (mk (knd s) (buf s ++ c) r0) n s' r). cbn [buf src knd] in IH.
      destruct IH as (Hk & pulled & H1 & H2 & H3 & H4); [lia | exact H |].
      split; [exact Hk|]. exists (c ++ pulled). unfold exactly_post.
      refine (conj _ (conj _ (conj _ _))).
      * rewrite Hc, H1, app_assoc. reflexivity.
      * intros Hs. apply H2. apply (pull_nonempty _ _ _ _ _ Hs Hask P).
      * right. lia.
      * rewrite app_assoc. exact H4.
    + injection H as <- <-. split; [reflexivity|]. exists []. apply pull_none in P.
      unfold exactly_post. rewrite !app_nil_r.
      refine (conj eq_refl (conj (fun h => h) (conj (or_introl eq_refl) (conj eq_refl (conj P _))))). lia.
Qed.

(* ------------------------------------------------------------------------------------------------ *)
(* one step: conservation                                                                           *)
(* ------------------------------------------------------------------------------------------------ *)

Definition fed_of (o : op) : list Z := match o with Feed d => d | _ => [] end.

Lemma firstn_cut_split (l : list Z) k : l = firstn k l ++ skipn k l.
Proof. symmetry. apply firstn_skipn. Qed.

Theorem step_conservation s o s' r : step s o = (s', r) ->
  knd s' = knd s /\ r <> RFuel /\
  (chunks_nonempty (src s) -> chunks_nonempty (src s')) /\
  exists pulled,
    concat (src s) = pulled ++ concat (src s') /\
    buf s ++ fed_of o ++ pulled = consumed_of o r ++ buf s'.
Proof.
  destruct o as [n|n|d m|d]; cbn [step fed_of]; intros H.
  - (* receive *)
    unfold do_receive in H. destruct (n <? 1)%Z eqn:En1.
    { injection H as <- <-. refine (conj eq_refl (conj _ (conj (fun h => h) _))); [discriminate|].
      exists []. cbn. now rewrite app_nil_r. }
    destruct (buf s) as [|b0 b] eqn:Eb.
    + destruct (knd s) eqn:Ek.
      * destruct (pull KByte (Z.to_nat n) (src s)) as [[c r0]|] eqn:P.
        -- injection H as <- <-. cbn [knd src buf consumed_of].
           refine (conj eq_refl (conj _ (conj _ _))); [discriminate| |].
           ++ intros Hs. assert (Hn1 : 1 <= Z.to_nat n) by lia. apply (pull_nonempty _ _ _ _ _ Hs Hn1 P).
           ++ exists c. split; [apply (pull_spec _ _ _ _ _ P)|]. cbn. now rewrite !app_nil_r.
        -- injection H as <- <-. refine (conj Ek (conj _ (conj (fun h => h) _))); [discriminate|].
           exists []. split; [reflexivity|]. cbn. rewrite ?Eb. reflexivity.
      * destruct (pull KObject default_max (src s)) as [[c r0]|] eqn:P.
        -- pose proof (pull_spec _ _ _ _ _ P) as Hc.
           assert (Hne : chunks_nonempty (src s) -> chunks_nonempty r0)
             by (intros Hs; apply (pull_nonempty _ _ _ _ _ Hs default_max_pos P)).
           destruct (n <? Z.of_nat (length c))%Z; injection H as <- <-; cbn [knd src buf consumed_of].
           ++ refine (conj eq_refl (conj _ (conj Hne _))); [discriminate|].
              exists c. split; [exact Hc|]. cbn [app]. rewrite app_nil_r. apply firstn_cut_split.
           ++ refine (conj eq_refl (conj _ (conj Hne _))); [discriminate|].
              exists c. split; [exact Hc|]. cbn. now rewrite !app_nil_r.
        -- injection H as <- <-. refine (conj Ek (conj _ (conj (fun h => h) _))); [discriminate|].
           exists []. split; [reflexivity|]. cbn. rewrite ?Eb. reflexivity.
    + injection H as <- <-. cbn [knd src buf consumed_of].
      refine (conj eq_refl (conj _ (conj (fun h => h) _))); [discriminate|].
      exists []. split; [reflexivity|]. rewrite !app_nil_r. apply firstn_cut_split.
  - (* receive_exactly *)
    destruct (exactly_loop_spec (fuel_of s) s n s' r) as (Hk & pulled & H1 & H2 & H3 & H4);
      [unfold fuel_of; lia | exact H |].
    refine (conj Hk (conj _ (conj H2 _))).
    + intros ->. exact H4.
    + exists pulled. split; [exact H1|]. cbn [app].
      destruct r; try contradiction; cbn [consumed_of].
      * destruct H4 as (-> & -> & _). rewrite app_nil_r. apply firstn_cut_split.
      * destruct H4 as (-> & _). reflexivity.
  - (* receive_until *)
    destruct (until_loop_spec (fuel_of s) s d m 0 s' r) as (Hk & pieces & H1 & H2 & H3 & H4);
      [intros j Hj; lia | unfold fuel_of; lia | exact H |].
    refine (conj Hk (conj _ (conj H3 _))).
    + intros ->. exact H4.
    + exists (concat pieces). split; [exact H1|]. cbn [app].
      destruct r; try contradiction; cbn [consumed_of].
      * destruct H4 as (-> & _). now rewrite <- app_assoc.
      * destruct H4 as (-> & _). reflexivity.
      * destruct H4 as (-> & _). reflexivity.
  - (* feed_data *)
    injection H as <- <-. refine (conj eq_refl (conj _ (conj (fun h => h) _))); [discriminate|].
    exists []. cbn. now rewrite app_nil_r.
Qed.

Theorem step_never_out_of_fuel s o : snd (step s o) <> RFuel.
Proof.
  destruct (step s o) as [s' r] eqn:E. apply (step_conservation _ _ _ _ E).
Qed.

(* ------------------------------------------------------------------------------------------------ *)
(* op sequences                                                                                     *)
(* ------------------------------------------------------------------------------------------------ *)

Lemma pulled_of_eq s s' pulled : concat (src s) = pulled ++ concat (src s') -> pulled_of s s' = pulled.
Proof.
  intros H. unfold pulled_of. rewrite H, app_length.
  replace (length pulled + length (concat (src s')) - length (concat (src s'))) with (length pulled) by lia.
  rewrite firstn_app, Nat.sub_diag, firstn_all. cbn. apply app_nil_r.
Qed.

Lemma final_cons s o r : final step s (o :: r) = final step (fst (step s o)) r.
Proof. reflexivity. Qed.

(* C16 clause 1: bytes handed out (plus delimiters consumed), followed by the buffer, are exactly the fed and received
   bytes in arrival order: nothing dropped, duplicated or reordered *)
Theorem buf_conservation : forall ops s,
  buf s ++ arrived_run s ops = consumed_run s ops ++ buf (final step s ops).
Proof.
  induction ops as [|o r IH]; intros s.
  - cbn. now rewrite app_nil_r.
  - rewrite final_cons. cbn [arrived_run consumed_run]. destruct (step s o) as [s1 out] eqn:E. cbn [fst].
    destruct (step_conservation _ _ _ _ E) as (_ & _ & _ & pulled & Hc & Hb).
    assert (Ha : arrived_of s o s1 = fed_of o ++ pulled).
    { destruct o; cbn [arrived_of fed_of app]; try (apply pulled_of_eq; exact Hc).
      (* feed: nothing is read from the wrapped stream *)
      cbn [step] in E. injection E as <- _. cbn [src] in Hc.
      assert (length (concat (src s)) = length (pulled ++ concat (src s))) by (now rewrite <- Hc).
      rewrite app_length in H. destruct pulled; [now rewrite app_nil_r|cbn in H; lia]. }
    rewrite Ha, app_assoc. rewrite (app_assoc (buf s)). rewrite <- (app_assoc (buf s)) .
    rewrite Hb, <- !app_assoc. f_equal. apply IH.
Qed.

(* ... and the received bytes are, in order, exactly what left the wrapped stream *)
Theorem buf_source_order : forall ops s,
  received_run s ops ++ concat (src (final step s ops)) = concat (src s).
Proof.
  induction ops as [|o r IH]; intros s.
  - reflexivity.
  - rewrite final_cons. cbn [received_run]. destruct (step s o) as [s1 out] eqn:E. cbn [fst].
    destruct (step_conservation _ _ _ _ E) as (_ & _ & _ & pulled & Hc & Hb).
    assert (Ha : received_of s o s1 = pulled).
    { destruct o; cbn [received_of]; try (apply pulled_of_eq; exact Hc).
      cbn [step] in E. injection E as <- _. cbn [src] in Hc.
      assert (length (concat (src s)) = length (pulled ++ concat (src s))) by (now rewrite <- Hc).
      rewrite app_length in H. destruct pulled; [reflexivity|cbn in H; lia]. }
    rewrite Ha, <- app_assoc, IH. symmetry. exact Hc.
Qed.

Lemma arrived_received_no_feed : forall ops s,
  forallb (fun o => negb (is_feed o)) ops = true -> arrived_run s ops = received_run s ops.
Proof.
  induction ops as [|o r IH]; intros s H; [reflexivity|].
  cbn [forallb] in H. apply andb_true_iff in H as [Ho Hr].
  cbn [arrived_run received_run]. destruct (step s o) as [s1 out]. rewrite (IH s1 Hr).
  destruct o; try reflexivity. discriminate.
Qed.

(* without feed_data the whole stream is constant: handed out ++ buffer ++ still in the wrapped stream *)
Theorem buf_conservation_total ops s :
  forallb (fun o => negb (is_feed o)) ops = true ->
  consumed_run s ops ++ buf (final step s ops) ++ concat (src (final step s ops)) = buf s ++ concat (src s).
Proof.
  intros H. rewrite app_assoc, <- buf_conservation, (arrived_received_no_feed _ _ H).
  rewrite <- app_assoc, buf_source_order. reflexivity.
Qed.

Theorem kind_constant ops : forall s, knd (final step s ops) = knd s.
Proof.
  induction ops as [|o r IH]; intros s; [reflexivity|].
  rewrite final_cons, IH. destruct (step s o) as [s1 out] eqn:E. apply (step_conservation _ _ _ _ E).
Qed.

Theorem chunks_nonempty_invariant ops : forall s,
  chunks_nonempty (src s) -> chunks_nonempty (src (final step s ops)).
Proof.
  induction ops as [|o r IH]; intros s H; [exact H|].
  rewrite final_cons. apply IH. destruct (step s o) as [s1 out] eqn:E.
  apply (step_conservation _ _ _ _ E), H.
Qed.

(* ------------------------------------------------------------------------------------------------ *)
(* the per-call clauses                                                                             *)
(* ------------------------------------------------------------------------------------------------ *)

(* a call that fails hands out nothing and leaves the logical stream (buffer ++ wrapped stream) unchanged; what it
   had already read stays in the buffer *)
Theorem buf_fail_consumes_nothing s o s' r : step s o = (s', r) -> failed r ->
  consumed_of o r = [] /\
  buf s' ++ concat (src s') = buf s ++ concat (src s) /\
  (exists extra, buf s' = buf s ++ extra /\ concat (src s) = extra ++ concat (src s')).
Proof.
  intros H F. destruct (step_conservation _ _ _ _ H) as (_ & _ & _ & pulled & Hc & Hb).
  assert (Hfed : fed_of o = []).
  { destruct o; try reflexivity. cbn [step] in H. injection H as _ <-.
    destruct F as [F|[F|[F|F]]]; discriminate. }
  assert (Hcons : consumed_of o r = []).
  { destruct F as [ -> | [ -> | [ -> | -> ] ] ]; reflexivity. }
  rewrite Hfed, Hcons in Hb. cbn [app] in Hb.
  refine (conj Hcons (conj _ _)).
  - rewrite <- Hb, Hc, app_assoc. reflexivity.
  - exists pulled. split; [now symmetry|exact Hc].
Qed.

Theorem buf_receive_spec s n s' r : step s (Receive n) = (s', r) ->
  ((n < 1)%Z -> r = RValueError /\ s' = s) /\
  ((1 <= n)%Z -> chunks_nonempty (src s) ->
     (exists x, r = RBytes x /\ 1 <= length x <= Z.to_nat n /\
                (buf s <> [] -> x = firstn (Z.to_nat n) (buf s) /\ src s' = src s)) \/
     (r = REnd /\ buf s = [] /\ src s = [] /\ s' = s)).
Proof.
  cbn [step]. unfold do_receive. intros H. split.
  - intros Hn. destruct (n <? 1)%Z eqn:E; [|lia]. injection H as <- <-. auto.
  - intros Hn Hs. destruct (n <? 1)%Z eqn:E; [lia|].
    destruct (buf s) as [|b0 b] eqn:Eb.
    + destruct (knd s) eqn:Ek.
      * destruct (pull KByte (Z.to_nat n) (src s)) as [[c r0]|] eqn:P.
        -- injection H as <- <-. left. exists c.
           assert (Hn1 : 1 <= Z.to_nat n) by lia.
           destruct (pull_nonempty _ _ _ _ _ Hs Hn1 P) as [Hc _].
           pose proof (pull_byte_bound _ _ _ _ P) as Hb.
           refine (conj eq_refl (conj _ _)); [|congruence].
           destruct c; [congruence|cbn [length] in *; lia].
        -- injection H as <- <-. right. apply pull_none in P. auto.
      * destruct (pull KObject default_max (src s)) as [[c r0]|] eqn:P.
        -- destruct (pull_nonempty _ _ _ _ _ Hs default_max_pos P) as [Hc _].
           destruct (n <? Z.of_nat (length c))%Z eqn:En; injection H as <- <-; left.
           ++ exists (firstn (Z.to_nat n) c). refine (conj eq_refl (conj _ _)); [|congruence].
              rewrite firstn_length. lia.
           ++ exists c. refine (conj eq_refl (conj _ _)); [|congruence].
              destruct c; [congruence|cbn [length] in *; lia].
        -- injection H as <- <-. right. apply pull_none in P. auto.
    + injection H as <- <-. left. exists (firstn (Z.to_nat n) (b0 :: b)).
      refine (conj eq_refl (conj _ _)).
      * rewrite firstn_length. cbn [length]. lia.
      * intros _. split; reflexivity.
Qed.

Theorem buf_exactly_spec s n s' r : (0 <= n)%Z -> step s (Exactly n) = (s', r) ->
  ((exists x, r = RBytes x /\ length x = Z.to_nat n /\
              x ++ buf s' ++ concat (src s') = buf s ++ concat (src s)) \/
   (r = RIncomplete /\ src s' = [] /\ buf s' = buf s ++ concat (src s))) /\
  (r = RIncomplete <-> (Z.of_nat (length (buf s ++ concat (src s))) < n)%Z).
Proof.
  intros Hn H. cbn [step] in H.
  destruct (exactly_loop_spec (fuel_of s) s n s' r) as (Hk & pulled & H1 & H2 & H3 & H4);
    [unfold fuel_of; lia | exact H |].
  destruct r; try contradiction.
  - destruct H4 as (Hx & Hb & Hlen).
    assert (Hcut : cut n (buf s ++ pulled) = Z.to_nat n).
    { unfold cut. destruct (0 <=? n)%Z eqn:E; [reflexivity|lia]. }
    rewrite Hcut in Hx, Hb.
    split.
    + left. exists b. refine (conj eq_refl (conj _ _)).
      * rewrite Hx, firstn_length. lia.
      * rewrite app_assoc, Hx, Hb, firstn_skipn, H1, app_assoc. reflexivity.
    + split; [discriminate|]. intros Hlt. exfalso.
      rewrite H1, app_assoc, app_length in Hlt. lia.
  - destruct H4 as (Hb & Hsrc & Hlen).
    assert (Hp : pulled = concat (src s)) by (rewrite H1, Hsrc; cbn; now rewrite app_nil_r).
    split.
    + right. rewrite <- Hp. auto.
    + split; [intros _|reflexivity]. rewrite <- Hp, <- Hb. exact Hlen.
Qed.

(* receive_until: the exact characterisation (pieces = the reads made by the call) *)
Theorem buf_until_spec s d m s' r : step s (Until d m) = (s', r) ->
  exists pieces,
    concat (src s) = concat pieces ++ concat (src s') /\
    (forall k, k < length pieces ->
       ~ occurs d (buf s ++ concat (firstn k pieces)) /\
       (Z.of_nat (length (buf s ++ concat (firstn k pieces))) < m)%Z) /\
    match r with
    | RBytes x => buf s ++ concat pieces = x ++ d ++ buf s' /\
                  (forall j, j < length x -> ~ occurs_at d (buf s ++ concat pieces) j)
    | RNotFound => buf s' = buf s ++ concat pieces /\ ~ occurs d (buf s') /\ (m <= Z.of_nat (length (buf s')))%Z
    | RIncomplete => buf s' = buf s ++ concat pieces /\ src s' = [] /\ ~ occurs d (buf s') /\
                     (Z.of_nat (length (buf s')) < m)%Z
    | _ => False
    end.
Proof.
  intros H. cbn [step] in H.
  destruct (until_loop_spec (fuel_of s) s d m 0 s' r) as (Hk & pieces & H1 & H2 & H3 & H4);
    [intros j Hj; lia | unfold fuel_of; lia | exact H |].
  exists pieces. auto.
Qed.

(* ... and its consequences in terms of the whole stream *)
Theorem buf_until_result s d m s' x : step s (Until d m) = (s', RBytes x) ->
  buf s ++ concat (src s) = x ++ d ++ buf s' ++ concat (src s') /\
  (forall j, j < length x -> ~ occurs_at d (buf s ++ concat (src s)) j) /\
  (d <> [] -> ~ occurs d x).
Proof.
  intros H. destruct (buf_until_spec _ _ _ _ _ H) as (pieces & H1 & _ & H3 & H4).
  assert (Hfirst : forall j, j < length x -> ~ occurs_at d (buf s ++ concat (src s)) j).
  { intros j Hj Hocc. apply (H4 j Hj). rewrite H1, app_assoc in Hocc.
    apply (occurs_at_app_l _ _ _ _ Hocc). rewrite H3, !app_length. lia. }
  refine (conj _ (conj Hfirst _)).
  - rewrite H1, app_assoc, H3, <- !app_assoc. reflexivity.
  - intros Hd [j Hj]. pose proof (occurs_at_len _ _ _ Hj) as Hl.
    assert (0 < length d) by (destruct d; [congruence|cbn; lia]).
    apply (H4 j); [lia|]. rewrite H3. apply occurs_at_app_r. exact Hj.
Qed.

(* DelimiterNotFound only if the delimiter does not occur within the first max_bytes bytes *)
Theorem buf_until_notfound s d m s' : step s (Until d m) = (s', RNotFound) ->
  forall i, occurs_at d (buf s ++ concat (src s)) i -> (m < Z.of_nat (i + length d))%Z.
Proof.
  intros H i Hocc. destruct (buf_until_spec _ _ _ _ _ H) as (pieces & H1 & _ & Hb & Hno & Hlen).
  destruct (Z.ltb_spec m (Z.of_nat (i + length d))) as [|Hge]; [assumption|]. exfalso.
  apply Hno. exists i. rewrite Hb. rewrite H1, app_assoc in Hocc.
  apply (occurs_at_app_l _ _ _ _ Hocc). rewrite <- Hb. lia.
Qed.

(* IncompleteRead only if the delimiter occurs nowhere in the rest of the stream *)
Theorem buf_until_incomplete s d m s' : step s (Until d m) = (s', RIncomplete) ->
  ~ occurs d (buf s ++ concat (src s)) /\ (Z.of_nat (length (buf s ++ concat (src s))) < m)%Z.
Proof.
  intros H. destruct (buf_until_spec _ _ _ _ _ H) as (pieces & H1 & _ & Hb & Hsrc & Hno & Hlen).
  rewrite Hsrc in H1. cbn in H1. rewrite app_nil_r in H1. rewrite H1, <- Hb. auto.
Qed.

(* ------------------------------------------------------------------------------------------------ *)
(* non-vacuity and boundary witnesses (a=97 b=98 ;=59 \n=10)                                        *)
(* ------------------------------------------------------------------------------------------------ *)

Local Open Scope Z_scope.

(* the delimiter ";\n" straddles two chunks: found thanks to offset = |buf| - |d| + 1 *)
Example ex_until_straddle :
  step (init KObject [[97; 59]; [10; 98]]) (Until [59; 10] 10%Z)
  = (mk KObject [98] [], RBytes [97]).
Proof. vm_compute. reflexivity. Qed.

(* boundary: 3 bytes buffered, max_bytes = 3, no delimiter -> DelimiterNotFound without a further read;
   the same bytes in one chunk with the delimiter -> found although beyond max_bytes *)
Example ex_until_boundary :
  snd (step (init KObject [[97; 98; 97]; [59]]) (Until [59] 3%Z)) = RNotFound /\
  snd (step (init KObject [[97; 98]; [97]; [59]]) (Until [59] 3%Z)) = RNotFound /\
  snd (step (init KObject [[97; 98]; [59]]) (Until [59] 3%Z)) = RBytes [97; 98] /\
  snd (step (init KObject [[97; 98; 97; 59]]) (Until [59] 3%Z)) = RBytes [97; 98; 97].
Proof. vm_compute. auto. Qed.

(* a failing call keeps what it read in the buffer; the next call gets it *)
Example ex_fail_keeps_bytes :
  let s1 := fst (step (init KByte [[97]; [98]]) (Exactly 5%Z)) in
  snd (step (init KByte [[97]; [98]]) (Exactly 5%Z)) = RIncomplete /\ buf s1 = [97; 98] /\ src s1 = [] /\
  snd (step s1 (Receive 1%Z)) = RBytes [97].
Proof. vm_compute. auto. Qed.

Example ex_receive_cases :
  snd (step (init KObject [[97; 98; 59]]) (Receive 2%Z)) = RBytes [97; 98] /\
  buf (fst (step (init KObject [[97; 98; 59]]) (Receive 2%Z))) = [59] /\
  snd (step (init KByte [[97; 98; 59]]) (Receive 2%Z)) = RBytes [97; 98] /\
  src (fst (step (init KByte [[97; 98; 59]]) (Receive 2%Z))) = [[59]] /\
  snd (step (init KByte []) (Receive 2%Z)) = REnd /\
  snd (step (init KByte [[97]]) (Receive 0%Z)) = RValueError.
Proof. vm_compute. auto 10. Qed.

(* receive_exactly does not validate its argument: a negative count slices like Python does *)
Example ex_exactly_negative :
  step (mk KByte [97; 98; 59] []) (Exactly (-1)%Z) = (mk KByte [59] [], RBytes [97; 98]).
Proof. vm_compute. reflexivity. Qed.

Example ex_conservation_run :
  let s := init KByte [[97; 59]; [10; 98; 98]; [59]] in
  let ops := [Until [59; 10] 8%Z; Feed [97]; Receive 2%Z; Exactly 3%Z; Until [59] 2%Z] in
  consumed_run s ops = [97; 59; 10; 98; 98; 97; 59] /\ arrived_run s ops = [97; 59; 10; 98; 98; 97; 59] /\
  received_run s ops = [97; 59; 10; 98; 98; 59] /\
  buf (final step s ops) = [] /\ src (final step s ops) = [].
Proof. vm_compute. auto. Qed.
