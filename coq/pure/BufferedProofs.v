(* Proofs about pure/Buffered.v: for ALL byte lists, ALL chunkings, ALL op sequences. *)
From AV Require Import Base Buffered.
From Coq Require Import ZifyBool.

(* ------------------------------------------------------------------------------------------------ *)
(* the wrapped stream                                                                               *)
(* ------------------------------------------------------------------------------------------------ *)

Lemma default_max_pos : 1 <= default_max.
Proof. unfold default_max. lia. Qed.
Global Opaque default_max.

Lemma pull_none k n s : pull k n s = None -> s = [].
Proof. destruct s; [reflexivity|]. destruct k; discriminate. Qed.

Lemma pull_spec k n s p r : pull k n s = Some (p, r) -> concat s = p ++ concat r.
Proof.
  destruct s as [|c t]; [discriminate|]. destruct k; cbn [pull]; intros H.
  - injection H as <- <-. cbn [concat]. destruct (skipn n c) as [|q0 q] eqn:E.
    + transitivity ((firstn n c ++ skipn n c) ++ concat t); [now rewrite firstn_skipn|].
      rewrite E, app_nil_r. reflexivity.
    + cbn [concat]. rewrite <- E, app_assoc, firstn_skipn. reflexivity.
  - injection H as <- <-. reflexivity.
Qed.

Lemma pull_measure k n s p r : pull k n s = Some (p, r) -> 1 <= n -> measure r < measure s.
Proof.
  destruct s as [|c t]; [discriminate|]. unfold measure. destruct k; cbn [pull]; intros H Hn; injection H as _ <-.
  - destruct (skipn n c) as [|q0 q] eqn:E; cbn [length concat]; rewrite ?app_length.
    + lia.
    + assert (L : length (q0 :: q) = length c - n) by (rewrite <- E; apply skipn_length).
      cbn [length] in L |- *. lia.
  - cbn [length concat]. rewrite app_length. lia.
Qed.

(* a byte stream whose next piece fits the request hands it out whole: every behaviour of a contract-honouring byte
   stream is therefore a chunk list *)
Lemma pull_byte_fits n c r : length c <= n -> pull KByte n (c :: r) = Some (c, r).
Proof.
  intros H. cbn [pull]. rewrite firstn_all2 by exact H. rewrite skipn_all2 by exact H. reflexivity.
Qed.

Lemma pull_byte_bound n s p r : pull KByte n s = Some (p, r) -> length p <= n.
Proof.
  destruct s as [|c t]; [discriminate|]. cbn [pull]. intros H. injection H as <- _. apply firstn_le_length.
Qed.

Lemma pull_nonempty k n s p r : chunks_nonempty s -> 1 <= n -> pull k n s = Some (p, r) ->
  p <> [] /\ chunks_nonempty r.
Proof.
  destruct s as [|c t]; [discriminate|]. intros Hs Hn. assert (Hc : c <> []) by (apply Hs; now left).
  assert (Ht : chunks_nonempty t) by (intros x Hx; apply Hs; now right).
  destruct k; cbn [pull]; intros H; injection H as <- <-.
  - split.
    + destruct c as [|x c]; [congruence|]. destruct n; [lia|]. discriminate.
    + destruct (skipn n c) as [|q0 q] eqn:E; [exact Ht|].
      intros x [<-|Hx]; [discriminate|now apply Ht].
  - split; assumption.
Qed.

(* ------------------------------------------------------------------------------------------------ *)
(* bytearray.find                                                                                   *)
(* ------------------------------------------------------------------------------------------------ *)

Lemma prefixb_spec d : forall l, prefixb d l = true <-> exists post, l = d ++ post.
Proof.
  induction d as [|x d IH]; intros l; cbn [prefixb].
  - split; [intros _; exists l; reflexivity | reflexivity].
  - destruct l as [|y l].
    + split; [discriminate | intros [post H]; discriminate].
    + rewrite andb_true_iff, Z.eqb_eq, IH. split.
      * intros [-> [post ->]]. exists post. reflexivity.
      * intros [post H]. cbn [app] in H. injection H as -> ->. split; [reflexivity | exists post; reflexivity].
Qed.

Lemma occurs_at_len d l k : occurs_at d l k -> k + length d <= length l.
Proof. intros (pre & post & -> & <-). rewrite !app_length. lia. Qed.

Lemma occurs_at_0 d l : occurs_at d l 0 <-> prefixb d l = true.
Proof.
  rewrite prefixb_spec. split.
  - intros (pre & post & E & L). destruct pre; [|discriminate]. exists post. exact E.
  - intros (post & E). exists [], post. split; [exact E|reflexivity].
Qed.

Lemma occurs_at_S d x l k : occurs_at d (x :: l) (S k) <-> occurs_at d l k.
Proof.
  split.
  - intros (pre & post & E & L). destruct pre as [|y pre]; [discriminate|]. cbn [app] in E.
    injection E as _ E. exists pre, post. split; [exact E| cbn in L; lia].
  - intros (pre & post & E & L). exists (x :: pre), post. split; [cbn; now rewrite E | cbn; lia].
Qed.

Lemma find_at_spec d : forall l i,
  match find_at d l i with
  | Some j => exists k, j = i + k /\ occurs_at d l k /\ forall k', k' < k -> ~ occurs_at d l k'
  | None => forall k, ~ occurs_at d l k
  end.
Proof.
  induction l as [|x l IH]; intros i; cbn [find_at].
  - destruct (prefixb d []) eqn:P.
    + exists 0. split; [lia|]. split; [now apply occurs_at_0|]. intros k' Hk; lia.
    + intros k Hk. pose proof (occurs_at_len _ _ _ Hk) as Hl. cbn in Hl.
      assert (k = 0) by lia. subst k. apply occurs_at_0 in Hk. congruence.
  - destruct (prefixb d (x :: l)) eqn:P.
    + exists 0. split; [lia|]. split; [now apply occurs_at_0|]. intros k' Hk; lia.
    + specialize (IH (S i)). destruct (find_at d l (S i)) as [j|].
      * destruct IH as (k & -> & Ho & Hf). exists (S k). split; [lia|]. split; [now apply occurs_at_S|].
        intros k' Hk. destruct k' as [|k'].
        -- rewrite occurs_at_0. congruence.
        -- rewrite occurs_at_S. apply Hf. lia.
      * intros k. destruct k as [|k].
        -- rewrite occurs_at_0. congruence.
        -- rewrite occurs_at_S. apply IH.
Qed.

Lemma occurs_at_skipn d l off k : off <= length l -> occurs_at d (skipn off l) k -> occurs_at d l (off + k).
Proof.
  intros Hl (pre & post & E & L). exists (firstn off l ++ pre), post. split.
  - rewrite <- app_assoc, <- E. symmetry. apply firstn_skipn.
  - rewrite app_length, firstn_length. lia.
Qed.

Lemma occurs_at_skipn_inv d l off k : occurs_at d l (off + k) -> occurs_at d (skipn off l) k.
Proof.
  intros (pre & post & E & L). exists (skipn off pre), post. split.
  - rewrite E. rewrite skipn_app. replace (off - length pre) with 0 by lia. reflexivity.
  - rewrite skipn_length. lia.
Qed.

Lemma find_from_some d off l j : find_from d off l = Some j ->
  off <= j /\ occurs_at d l j /\ forall k, off <= k < j -> ~ occurs_at d l k.
Proof.
  unfold find_from. destruct (length l <? off) eqn:E; [discriminate|]. apply Nat.ltb_ge in E.
  intros H. pose proof (find_at_spec d (skipn off l) off) as S. rewrite H in S.
  destruct S as (k & -> & Ho & Hf). split; [lia|]. split.
  - now apply occurs_at_skipn.
  - intros k' Hk Hocc. apply (Hf (k' - off)); [lia|]. apply occurs_at_skipn_inv.
    replace (off + (k' - off)) with k' by lia. exact Hocc.
Qed.

Lemma find_from_none d off l : find_from d off l = None -> forall k, off <= k -> ~ occurs_at d l k.
Proof.
  unfold find_from. destruct (length l <? off) eqn:E.
  - apply Nat.ltb_lt in E. intros _ k Hk Hocc. apply occurs_at_len in Hocc. lia.
  - intros H k Hk Hocc. pose proof (find_at_spec d (skipn off l) off) as S. rewrite H in S.
    apply (S (k - off)). apply occurs_at_skipn_inv. replace (off + (k - off)) with k by lia. exact Hocc.
Qed.

Lemma app_eq_prefix {A} (c : list A) : forall a b e, a ++ b = c ++ e -> length c <= length a -> exists t, a = c ++ t.
Proof.
  induction c as [|x c IH]; intros a b e H L.
  - exists a. reflexivity.
  - destruct a as [|y a]; [cbn in L; lia|]. cbn [app] in H. injection H as -> H. cbn in L.
    destruct (IH a b e H ltac:(lia)) as [t ->]. exists t. reflexivity.
Qed.

(* an occurrence that ends inside the old part is an occurrence in the old part *)
Lemma occurs_at_app_l d old data k : occurs_at d (old ++ data) k -> k + length d <= length old -> occurs_at d old k.
Proof.
  intros (pre & post & E & L) H.
  assert (E' : old ++ data = (pre ++ d) ++ post) by (rewrite <- app_assoc; exact E).
  destruct (app_eq_prefix (pre ++ d) old data post E') as [t Ht]. { rewrite app_length. lia. }
  exists pre, t. split; [rewrite Ht, <- app_assoc; reflexivity | exact L].
Qed.

Lemma occurs_at_app_r d l ext k : occurs_at d l k -> occurs_at d (l ++ ext) k.
Proof.
  intros (pre & post & -> & L). exists pre, (post ++ ext). split; [now rewrite <- !app_assoc | exact L].
Qed.

(* THE SEARCH-OFFSET LEMMA: after appending new data to a buffer that does not contain the delimiter, every
   occurrence starts at or after max(|old| - |d| + 1, 0); restarting the search there misses nothing *)
Theorem search_offset_complete d old data k :
  (forall j, ~ occurs_at d old j) -> k < length old + 1 - length d -> ~ occurs_at d (old ++ data) k.
Proof.
  intros Hno Hk Hocc. apply (Hno k). apply (occurs_at_app_l d old data k Hocc). lia.
Qed.

Lemma find_from_offset d off l :
  (forall j, j < off -> ~ occurs_at d l j) -> find_from d off l = find_from d 0 l.
Proof.
  intros Hinv.
  destruct (find_from d off l) as [i|] eqn:F; destruct (find_from d 0 l) as [i'|] eqn:F0.
  - destruct (find_from_some _ _ _ _ F) as (H1 & H2 & H3).
    destruct (find_from_some _ _ _ _ F0) as (H1' & H2' & H3').
    f_equal. destruct (Nat.lt_trichotomy i i') as [Hlt|[->|Hgt]]; [|reflexivity|].
    + exfalso. apply (H3' i); [lia|exact H2].
    + exfalso. destruct (Nat.lt_ge_cases i' off) as [Ho|Ho].
      * apply (Hinv i' Ho H2').
      * apply (H3 i'); [lia|exact H2'].
  - exfalso. destruct (find_from_some _ _ _ _ F) as (H1 & H2 & H3).
    apply (find_from_none _ _ _ F0 i); [lia|exact H2].
  - exfalso. destruct (find_from_some _ _ _ _ F0) as (H1' & H2' & H3').
    destruct (Nat.lt_ge_cases i' off) as [Ho|Ho].
    + apply (Hinv i' Ho H2').
    + apply (find_from_none _ _ _ F i' Ho H2').
  - reflexivity.
Qed.

(* ------------------------------------------------------------------------------------------------ *)
(* empty items of an object stream, the environment's view of the fetches                           *)
(* ------------------------------------------------------------------------------------------------ *)

Lemma hit_pred_0 : hit 0 = false /\ pred 0 = 0.
Proof. split; reflexivity. Qed.

Lemma feeds_step (acc : list Z) fs j :
  (acc ++ hd [] fs) ++ concat (firstn j (tl fs)) = acc ++ concat (firstn (S j) fs).
Proof.
  destruct fs as [|f r]; cbn [hd tl firstn concat].
  - rewrite firstn_nil. cbn. now rewrite !app_nil_r.
  - now rewrite <- app_assoc.
Qed.

Lemma feeds_one (acc : list Z) fs : acc ++ hd [] fs = acc ++ concat (firstn 1 fs).
Proof. destruct fs as [|f r]; cbn; [reflexivity|now rewrite app_nil_r]. Qed.

Lemma skip_empty_spec l : forall cn fs acc,
  match skip_empty cn l fs acc with
  | FGot c r fed => c <> [] /\ concat l = c ++ concat r /\ (forall x, In x r -> In x l) /\
                    exists j, fed = acc ++ concat (firstn j fs)
  | FEnd fed => concat l = [] /\ exists j, fed = acc ++ concat (firstn j fs)
  | FCancel r fed => concat l = concat r /\ (forall x, In x r -> In x l) /\
                     exists j, fed = acc ++ concat (firstn j fs)
  end.
Proof.
  induction l as [|c0 r0 IH]; intros cn fs acc; cbn [skip_empty]; destruct (hit cn).
  - refine (conj eq_refl (conj (fun x h => h) _)). exists 0. cbn. now rewrite app_nil_r.
  - split; [reflexivity|]. exists 1. apply feeds_one.
  - refine (conj eq_refl (conj (fun x h => h) _)). exists 0. cbn. now rewrite app_nil_r.
  - destruct c0 as [|x c0].
    + specialize (IH (pred cn) (tl fs) (acc ++ hd [] fs)).
      destruct (skip_empty (pred cn) r0 (tl fs) (acc ++ hd [] fs)) as [c r fed|fed|r fed].
      * destruct IH as (H1 & H2 & H3 & j & H4). refine (conj H1 (conj H2 (conj _ _))).
        -- intros y Hy. right. apply H3, Hy.
        -- exists (S j). rewrite H4. apply feeds_step.
      * destruct IH as (H2 & j & H4). refine (conj H2 _). exists (S j). rewrite H4. apply feeds_step.
      * destruct IH as (H2 & H3 & j & H4). refine (conj H2 (conj _ _)).
        -- intros y Hy. right. apply H3, Hy.
        -- exists (S j). rewrite H4. apply feeds_step.
    + refine (conj _ (conj eq_refl (conj _ _))); [discriminate| |].
      * intros y Hy. now right.
      * exists 1. apply feeds_one.
Qed.

Lemma skip_empty_0_not_cancelled l : forall fs acc r fed, skip_empty 0 l fs acc <> FCancel r fed.
Proof.
  induction l as [|c0 r0 IH]; intros fs acc r fed; cbn [skip_empty hit Nat.eqb]; [discriminate|].
  destruct c0; [apply IH|discriminate].
Qed.

Lemma fetch_arrivals_nofeed k : forall kd sr,
  fetch_arrivals k kd sr [] ++ concat (fetch_rest k kd sr) = concat sr.
Proof.
  induction k as [|k IH]; intros kd sr; cbn [fetch_arrivals fetch_rest hd tl app]; [reflexivity|].
  destruct (pull kd default_max sr) as [[c r]|] eqn:P.
  - rewrite <- app_assoc, IH. symmetry. apply (pull_spec _ _ _ _ _ P).
  - reflexivity.
Qed.

Lemma fetch_rest_suffix k : forall kd sr, exists pulled, concat sr = pulled ++ concat (fetch_rest k kd sr).
Proof.
  induction k as [|k IH]; intros kd sr; cbn [fetch_rest]; [exists []; reflexivity|].
  destruct (pull kd default_max sr) as [[c r]|] eqn:P; [|exists []; reflexivity].
  destruct (IH kd r) as [q Hq]. exists (c ++ q). rewrite (pull_spec _ _ _ _ _ P), Hq, app_assoc. reflexivity.
Qed.

(* ------------------------------------------------------------------------------------------------ *)
(* receive_until                                                                                    *)
(* ------------------------------------------------------------------------------------------------ *)

(* The call made k fetches; lg = everything that arrived meanwhile (feeds and chunks, in order).  A fetch happens only
   while the buffer holds no delimiter and fewer than m bytes (third clause: the exact boundary condition). *)
Definition until_post (kd : kind) (b : list Z) (sr : list (list Z)) (d : list Z) (m : Z) (fs : list (list Z))
                      (s' : st) (r : res) (lg : list Z) : Prop :=
  exists k,
    src s' = fetch_rest k kd sr /\ lg = fetch_arrivals k kd sr fs /\
    (forall j, j < k ->
       ~ occurs d (b ++ fetch_arrivals j kd sr fs) /\
       (Z.of_nat (length (b ++ fetch_arrivals j kd sr fs)) < m)%Z) /\
    (chunks_nonempty sr -> chunks_nonempty (src s')) /\
    match r with
    | RBytes x => b ++ lg = x ++ d ++ buf s' /\ (forall j, j < length x -> ~ occurs_at d (b ++ lg) j)
    | RNotFound => buf s' = b ++ lg /\ ~ occurs d (buf s') /\ (m <= Z.of_nat (length (buf s')))%Z
    | RIncomplete => buf s' = b ++ lg /\ src s' = [] /\
                     exists k0, k = S k0 /\ lg = fetch_arrivals k0 kd sr fs ++ hd [] (skipn k0 fs)
    | RCancelled => buf s' = b ++ lg
    | _ => False
    end.

Lemma until_post_cons kd b c sr r0 d m fs s' r lg :
  until_post kd ((b ++ hd [] fs) ++ c) r0 d m (tl fs) s' r lg ->
  pull kd default_max sr = Some (c, r0) -> ~ occurs d b -> (Z.of_nat (length b) < m)%Z ->
  until_post kd b sr d m fs s' r (hd [] fs ++ c ++ lg).
Proof.
  intros (k & H1 & H2 & H3 & H4 & H5) P Hno Hlen.
  assert (EQ : forall X, b ++ hd [] fs ++ c ++ X = ((b ++ hd [] fs) ++ c) ++ X)
    by (intros X; now rewrite <- !app_assoc).
  exists (S k). cbn [fetch_rest fetch_arrivals]. rewrite P.
  refine (conj H1 (conj _ (conj _ (conj _ _)))).
  - rewrite H2. reflexivity.
  - intros j Hj. destruct j as [|j].
    + cbn [fetch_arrivals]. rewrite app_nil_r. split; assumption.
    + cbn [fetch_arrivals]. rewrite P, EQ. apply H3. lia.
  - intros Hs. apply H4. apply (pull_nonempty _ _ _ _ _ Hs default_max_pos P).
  - destruct r; try exact H5; rewrite ?EQ.
    + exact H5.
    + destruct H5 as (A & B & k0 & -> & C). refine (conj A (conj B _)). exists (S k0). split; [reflexivity|].
      cbn [fetch_arrivals]. rewrite P, C, <- !app_assoc.
      replace (skipn (S k0) fs) with (skipn k0 (tl fs)) by (destruct fs; [now rewrite skipn_nil|reflexivity]).
      reflexivity.
    + exact H5.
    + exact H5.
Qed.

Lemma until_loop_spec fuel : forall cn s d m off fs s' r lg,
  (forall j, j < off -> ~ occurs_at d (buf s) j) ->
  measure (src s) < fuel ->
  until_loop false fuel cn s d m off fs = (s', r, lg) ->
  knd s' = knd s /\ until_post (knd s) (buf s) (src s) d m fs s' r lg.
Proof.
  induction fuel as [|f IH]; intros cn s d m off fs s' r lg Hinv Hm H; [lia|].
  cbn [until_loop] in H.
  destruct (find_from d off (buf s)) as [i|] eqn:F.
  - injection H as <- <- <-. split; [reflexivity|]. exists 0.
    destruct (find_from_some _ _ _ _ F) as (Hoi & Hocc & Hfirst).
    pose proof Hocc as (pre & post & E & L).
    assert (F1 : firstn i (buf s) = pre).
    { rewrite E, <- L. rewrite firstn_app, Nat.sub_diag, firstn_all. cbn. now rewrite app_nil_r. }
    assert (F2 : skipn (i + length d) (buf s) = post).
    { rewrite E, app_assoc. rewrite skipn_app. rewrite skipn_all2 by (rewrite app_length; lia).
      rewrite app_length. replace (i + length d - (length pre + length d)) with 0 by lia. reflexivity. }
    cbn [src buf fetch_rest fetch_arrivals]. rewrite !app_nil_r.
    refine (conj eq_refl (conj eq_refl (conj _ (conj (fun h => h) (conj _ _))))).
    + intros k Hk; lia.
    + rewrite F1, F2. exact E.
    + rewrite F1, L. intros j Hj. destruct (Nat.lt_ge_cases j off) as [Ho|Ho].
      * apply Hinv, Ho.
      * apply Hfirst. lia.
  - assert (Hno : ~ occurs d (buf s)).
    { intros [k Hk]. destruct (Nat.lt_ge_cases k off) as [Ho|Ho].
      - apply (Hinv k Ho Hk).
      - apply (find_from_none _ _ _ F k Ho Hk). }
    destruct (m <=? Z.of_nat (length (buf s)))%Z eqn:Em.
    + injection H as <- <- <-. split; [reflexivity|]. exists 0.
      cbn [fetch_rest fetch_arrivals]. rewrite !app_nil_r.
      refine (conj eq_refl (conj eq_refl (conj _ (conj (fun h => h) (conj eq_refl (conj Hno _)))))).
      * intros k Hk; lia.
      * lia.
    + destruct (hit cn) eqn:Hcn.
      { injection H as <- <- <-. split; [reflexivity|]. exists 0.
        cbn [fetch_rest fetch_arrivals]. rewrite !app_nil_r.
        refine (conj eq_refl (conj eq_refl (conj _ (conj (fun h => h) eq_refl)))).
        intros k Hk; lia. }
      destruct (pull (knd s) default_max (src s)) as [[c r0]|] eqn:P.
      * destruct (until_loop false f (pred cn) (mk (knd s) ((buf s ++ hd [] fs) ++ c) r0) d m
                             (length (buf s) + 1 - length d) (tl fs)) as [[s1 r1] lg1] eqn:R.
        injection H as <- <- <-.
        pose proof (pull_measure _ _ _ _ _ P default_max_pos) as Hms.
        assert (Hinv' : forall j, j < length (buf s) + 1 - length d ->
                          ~ occurs_at d (buf (mk (knd s) ((buf s ++ hd [] fs) ++ c) r0)) j).
        { cbn [buf]. intros j Hj. rewrite <- app_assoc. apply search_offset_complete; [|exact Hj].
          intros j' Hj'. apply Hno. exists j'. exact Hj'. }
        assert (Hm' : measure (src (mk (knd s) ((buf s ++ hd [] fs) ++ c) r0)) < f) by (cbn [src]; lia).
        destruct (IH _ _ d m _ (tl fs) s1 r1 lg1 Hinv' Hm' R) as (Hk & Hp).
        cbn [knd buf src] in Hk, Hp. split; [exact Hk|].
        apply (until_post_cons _ _ _ _ r0); [exact Hp | exact P | exact Hno | lia].
      * injection H as <- <- <-. split; [reflexivity|]. exists 1.
        pose proof (pull_none _ _ _ P) as Hnil.
        cbn [fetch_rest fetch_arrivals src buf]. rewrite P, !app_nil_r.
        refine (conj eq_refl (conj eq_refl (conj _ (conj (fun h => h) (conj eq_refl (conj Hnil _)))))).
        -- intros k Hk. assert (k = 0) by lia. subst k. cbn [fetch_arrivals]. rewrite app_nil_r. split; [exact Hno|lia].
        -- exists 0. split; reflexivity.
Qed.

(* the offset is an optimisation only: receive_until behaves exactly as if it searched the whole buffer each time,
   whatever is fed while it waits *)
Lemma until_loop_naive fuel : forall cn s d m off fs,
  (forall j, j < off -> ~ occurs_at d (buf s) j) ->
  until_loop false fuel cn s d m off fs = until_naive fuel cn s d m fs.
Proof.
  induction fuel as [|f IH]; intros cn s d m off fs Hinv; [reflexivity|].
  cbn [until_loop until_naive]. rewrite (find_from_offset d off (buf s) Hinv).
  destruct (find_from d 0 (buf s)) as [i|] eqn:F; [reflexivity|].
  destruct (m <=? Z.of_nat (length (buf s)))%Z; [reflexivity|].
  destruct (hit cn); [reflexivity|].
  destruct (pull (knd s) default_max (src s)) as [[c r0]|]; [|reflexivity].
  rewrite IH; [reflexivity|]. cbn [buf]. intros j Hj. rewrite <- app_assoc.
  apply search_offset_complete; [|exact Hj].
  intros j' Hj'. apply (find_from_none _ _ _ F j'); [lia|exact Hj'].
Qed.

Theorem until_offset_sound s d m fs : step_log s (Until d m fs) = until_naive (fuel_of s) 0 s d m fs.
Proof. unfold step_log. cbn [step_gen]. apply until_loop_naive. intros j Hj; lia. Qed.

(* ------------------------------------------------------------------------------------------------ *)
(* receive_exactly                                                                                  *)
(* ------------------------------------------------------------------------------------------------ *)

(* what arrives during a receive_exactly call, in order: for each fetch the data fed during its wait, then the chunk
   (nothing if the fetch met the end of the stream); `pulled` = what came out of the wrapped stream.
   NOTE (QA audit): `weave` is a SANITY clause, not a characterisation - the pieces c are existential, so it says that
   the log is SOME fetch-wise interleaving of the feeds with the pulled bytes, not which one (the chunk boundaries are
   not pinned).  The log itself is computed by exactly_loop (fed data before the chunk of the same fetch, by
   definition) and is what the co-simulation compares with the events observed on the implementation. *)
Inductive weave : list (list Z) -> list Z -> list Z -> Prop :=
| weave_nil fs : weave fs [] []
| weave_end fs : weave fs [] (hd [] fs)
| weave_cons fs c pulled lg : weave (tl fs) pulled lg -> weave fs (c ++ pulled) (hd [] fs ++ c ++ lg).

Lemma weave_nofeed fs pulled lg : weave fs pulled lg -> fs = [] -> lg = pulled.
Proof.
  induction 1 as [fs|fs|fs c pulled lg W IH]; intros ->; cbn; try reflexivity.
  rewrite (IH eq_refl). reflexivity.
Qed.

Definition exactly_post (b : list Z) (sr : list (list Z)) (n : Z) (fs : list (list Z)) (s' : st) (r : res)
  (lg : list Z) : Prop :=
  (exists pulled, concat sr = pulled ++ concat (src s') /\ weave fs pulled lg) /\
  (chunks_nonempty sr -> chunks_nonempty (src s')) /\
  (lg = [] \/ (Z.of_nat (length b) < n)%Z) /\
  match r with
  | RBytes x => x = firstn (cut n (b ++ lg)) (b ++ lg) /\
                buf s' = skipn (cut n (b ++ lg)) (b ++ lg) /\
                (n <= Z.of_nat (length (b ++ lg)))%Z
  | RIncomplete => buf s' = b ++ lg /\ src s' = [] /\ (fs = [] -> (Z.of_nat (length (buf s')) < n)%Z) /\
                   (Z.of_nat (length b) < n)%Z
  | RCancelled => buf s' = b ++ lg
  | _ => False
  end.

Lemma exactly_loop_spec fuel : forall cn s n fs s' r lg,
  measure (src s) < fuel ->
  exactly_loop fuel cn s n fs = (s', r, lg) ->
  knd s' = knd s /\ exactly_post (buf s) (src s) n fs s' r lg.
Proof.
  induction fuel as [|f IH]; intros cn s n fs s' r lg Hm H; [lia|].
  cbn [exactly_loop] in H.
  destruct (n - Z.of_nat (length (buf s)) <=? 0)%Z eqn:E.
  - injection H as <- <- <-. split; [reflexivity|].
    unfold exactly_post. cbn [src buf]. rewrite !app_nil_r.
    refine (conj (ex_intro _ [] (conj eq_refl (weave_nil fs)))
              (conj (fun h => h) (conj (or_introl eq_refl) (conj eq_refl (conj eq_refl _))))). lia.
  - destruct (hit cn) eqn:Hcn.
    { injection H as <- <- <-. split; [reflexivity|]. unfold exactly_post. rewrite !app_nil_r.
      exact (conj (ex_intro _ [] (conj eq_refl (weave_nil fs))) (conj (fun h => h) (conj (or_introl eq_refl) eq_refl))). }
    set (ask := match knd s with KByte => Z.to_nat (n - Z.of_nat (length (buf s))) | KObject => default_max end) in H.
    assert (Hask : 1 <= ask).
    { unfold ask. destruct (knd s); [lia|apply default_max_pos]. }
    destruct (pull (knd s) ask (src s)) as [[c r0]|] eqn:P.
    + destruct (exactly_loop f (pred cn) (mk (knd s) ((buf s ++ hd [] fs) ++ c) r0) n (tl fs)) as [[s1 r1] lg1] eqn:R.
      injection H as <- <- <-.
      pose proof (pull_spec _ _ _ _ _ P) as Hc.
      pose proof (pull_measure _ _ _ _ _ P Hask) as Hms.
      assert (Hm' : measure (src (mk (knd s) ((buf s ++ hd [] fs) ++ c) r0)) < f) by (cbn [src]; lia).
      destruct (IH _ _ n (tl fs) s1 r1 lg1 Hm' R) as (Hk & (pl & H1 & W) & H2 & H3 & H4).
      cbn [buf src knd] in Hk, H1, H2, H3, H4.
      split; [exact Hk|]. unfold exactly_post.
      refine (conj _ (conj _ (conj _ _))).
      * exists (c ++ pl). split; [rewrite Hc, H1, app_assoc; reflexivity | now apply weave_cons].
      * intros Hs. apply H2. apply (pull_nonempty _ _ _ _ _ Hs Hask P).
      * right. lia.
      * rewrite <- ?app_assoc in H4. rewrite <- ?app_assoc.
        destruct r1; try exact H4. destruct H4 as (A & B & C & D). refine (conj A (conj B (conj _ _))).
        -- intros ->. apply C. reflexivity.
        -- rewrite !app_length in D. lia.
    + injection H as <- <- <-. split; [reflexivity|]. apply pull_none in P.
      unfold exactly_post. cbn [buf src].
      refine (conj (ex_intro _ [] (conj eq_refl (weave_end fs)))
                (conj (fun h => h) (conj _ (conj eq_refl (conj P (conj _ _)))))); [right; lia| |lia].
      intros ->. cbn [hd]. rewrite app_nil_r. lia.
Qed.

(* without a cancellation request no call ends in RCancelled *)
Lemma exactly_loop_0 fuel : forall s n fs, snd (fst (exactly_loop fuel 0 s n fs)) <> RCancelled.
Proof.
  induction fuel as [|f IH]; intros s n fs; cbn [exactly_loop hit Nat.eqb pred]; [discriminate|].
  destruct (n - Z.of_nat (length (buf s)) <=? 0)%Z; [discriminate|].
  destruct (pull (knd s) _ (src s)) as [[c r0]|]; [|discriminate].
  specialize (IH (mk (knd s) ((buf s ++ hd [] fs) ++ c) r0) n (tl fs)).
  destruct (exactly_loop f 0 (mk (knd s) ((buf s ++ hd [] fs) ++ c) r0) n (tl fs)) as [[s1 r1] l1]. exact IH.
Qed.

Lemma until_loop_0 fuel : forall s d m off fs, snd (fst (until_loop false fuel 0 s d m off fs)) <> RCancelled.
Proof.
  induction fuel as [|f IH]; intros s d m off fs; cbn [until_loop hit Nat.eqb pred]; [discriminate|].
  destruct (find_from d off (buf s)); [discriminate|].
  destruct (m <=? Z.of_nat (length (buf s)))%Z; [discriminate|].
  destruct (pull (knd s) default_max (src s)) as [[c r0]|]; [|discriminate].
  match goal with |- context [until_loop false f 0 ?a d m ?b ?c] =>
    specialize (IH a d m b c); destruct (until_loop false f 0 a d m b c) as [[s1 r1] l1] end.
  exact IH.
Qed.

(* ------------------------------------------------------------------------------------------------ *)
(* one step: conservation and the arrival log                                                       *)
(* ------------------------------------------------------------------------------------------------ *)

Lemma firstn_cut_split (l : list Z) k : l = firstn k l ++ skipn k l.
Proof. symmetry. apply firstn_skipn. Qed.

Definition log_spec (s : st) (o : op) (s' : st) (lg : list Z) : Prop :=
  match o with
  | Feed d => lg = d /\ src s' = src s
  | Until d m fs | CUntil _ d m fs =>
      exists k, src s' = fetch_rest k (knd s) (src s) /\ lg = fetch_arrivals k (knd s) (src s) fs
  | Receive n fs | CReceive _ n fs =>
      (* the item the call was waiting for, then what was fed during its j fetches *)
      exists item j, lg = item ++ concat (firstn j fs) /\ concat (src s) = item ++ concat (src s')
  | Exactly n fs | CExactly _ n fs =>
      exists pulled, concat (src s) = pulled ++ concat (src s') /\ weave fs pulled lg
  end.

Definition conserve (s : st) (consumed : list Z) (s' : st) (r : res) (lg : list Z) : Prop :=
  knd s' = knd s /\ r <> RFuel /\
  (chunks_nonempty (src s) -> chunks_nonempty (src s')) /\
  buf s ++ lg = consumed ++ buf s' /\
  (exists pulled, concat (src s) = pulled ++ concat (src s')).

Lemma conserve_same s r : r <> RFuel -> conserve s [] s r [].
Proof.
  intros Hr. refine (conj eq_refl (conj Hr (conj (fun h => h) (conj _ _)))).
  - now rewrite app_nil_r.
  - exists []. reflexivity.
Qed.

Lemma receive_conservation cn s n fs s' r lg : do_receive false cn s n fs = (s', r, lg) ->
  conserve s (consumed_of (Receive n fs) r) s' r lg /\
  exists item j, lg = item ++ concat (firstn j fs) /\ concat (src s) = item ++ concat (src s').
Proof.
  assert (Same : forall r0, r0 <> RFuel ->
            conserve s [] s r0 [] /\ exists item j, [] = item ++ concat (firstn j fs) /\ concat (src s) = item ++ concat (src s)).
  { intros r0 Hr. split; [apply conserve_same, Hr|]. exists [], 0. split; reflexivity. }
  unfold do_receive. intros H. destruct (n <? 1)%Z eqn:En1.
  { injection H as <- <- <-. apply Same. discriminate. }
  destruct (buf s) as [|b0 b] eqn:Eb.
  - destruct (knd s) eqn:Ek.
    + destruct (hit cn).
      { injection H as <- <- <-. apply Same. discriminate. }
      destruct (pull KByte (Z.to_nat n) (src s)) as [[c r0]|] eqn:P.
      * injection H as <- <- <-. cbn [consumed_of]. pose proof (pull_spec _ _ _ _ _ P) as Hc.
        split.
        -- unfold conserve. cbn [knd src buf]. rewrite ?Ek, ?Eb.
           refine (conj eq_refl (conj _ (conj _ (conj _ _)))).
           ++ discriminate.
           ++ intros Hs. assert (Hn1 : 1 <= Z.to_nat n) by lia. apply (pull_nonempty _ _ _ _ _ Hs Hn1 P).
           ++ cbn. now rewrite !app_nil_r.
           ++ exists c. exact Hc.
        -- exists c, 1. split; [|exact Hc]. f_equal. change (hd [] fs) with ([] ++ hd [] fs). apply feeds_one.
      * injection H as <- <- <-. cbn [consumed_of]. split.
        -- unfold conserve. cbn [knd src buf]. rewrite ?Ek, ?Eb.
           refine (conj eq_refl (conj _ (conj (fun h => h) (conj eq_refl _)))); [discriminate|exists []; reflexivity].
        -- exists [], 1. split; [|reflexivity]. change (hd [] fs) with ([] ++ hd [] fs). apply feeds_one.
    + pose proof (skip_empty_spec (src s) cn fs []) as S.
      cbn [negb] in H. destruct (skip_empty cn (src s) fs []) as [c r0 fed| fed |r0 fed].
      * destruct S as (Hc0 & Hc & Hin & j & Hfed). cbn [app] in Hfed.
        assert (Hne : chunks_nonempty (src s) -> chunks_nonempty r0)
          by (intros Hs x Hx; apply Hs, Hin, Hx).
        destruct (n <? Z.of_nat (length c))%Z; injection H as <- <- <-; cbn [consumed_of];
          (split; [|exists c, j; split; [now rewrite Hfed|exact Hc]]);
          unfold conserve; cbn [knd src buf]; rewrite ?Ek, ?Eb.
        -- refine (conj eq_refl (conj _ (conj Hne (conj _ _)))).
           ++ discriminate.
           ++ cbn [app]. rewrite app_nil_r, app_assoc. f_equal. apply firstn_cut_split.
           ++ exists c. exact Hc.
        -- refine (conj eq_refl (conj _ (conj Hne (conj _ _)))).
           ++ discriminate.
           ++ cbn. now rewrite !app_nil_r.
           ++ exists c. exact Hc.
      * destruct S as (Hc & j & Hfed). cbn [app] in Hfed. injection H as <- <- <-. cbn [consumed_of].
        split; [|exists [], j; split; [exact Hfed|rewrite Hc; reflexivity]].
        unfold conserve. cbn [knd src buf]. rewrite ?Ek, ?Eb.
        refine (conj eq_refl (conj _ (conj _ (conj _ _)))).
        -- discriminate.
        -- intros _ x [].
        -- reflexivity.
        -- exists []. rewrite Hc. reflexivity.
      * destruct S as (Hc & Hin & j & Hfed). cbn [app] in Hfed. injection H as <- <- <-. cbn [consumed_of].
        split; [|exists [], j; split; [exact Hfed|exact Hc]].
        unfold conserve. cbn [knd src buf]. rewrite ?Ek, ?Eb.
        refine (conj eq_refl (conj _ (conj _ (conj _ _)))).
        -- discriminate.
        -- intros Hs x Hx. apply Hs, Hin, Hx.
        -- reflexivity.
        -- exists []. exact Hc.
  - injection H as <- <- <-. cbn [consumed_of]. split; [|exists [], 0; split; reflexivity].
    unfold conserve. cbn [knd src buf]. rewrite ?Ek, ?Eb.
    refine (conj eq_refl (conj _ (conj (fun h => h) (conj _ _)))).
    + discriminate.
    + rewrite !app_nil_r. apply firstn_cut_split.
    + exists []. reflexivity.
Qed.

Lemma exactly_conservation cn s n fs s' r lg : do_exactly false cn s n fs = (s', r, lg) ->
  conserve s (consumed_of (Exactly n fs) r) s' r lg /\
  exists pulled, concat (src s) = pulled ++ concat (src s') /\ weave fs pulled lg.
Proof.
  unfold do_exactly. cbn [negb andb]. intros H. destruct (n <? 0)%Z eqn:En.
  { injection H as <- <- <-. split; [apply conserve_same; discriminate|]. exists []. split; [reflexivity|constructor]. }
  destruct (exactly_loop_spec (fuel_of s) cn s n fs s' r lg) as (Hk & (pl & H1 & W) & H2 & H3 & H4);
    [unfold fuel_of; lia | exact H |].
  split; [|exists pl; split; assumption].
  refine (conj Hk (conj _ (conj H2 (conj _ _)))).
  - intros ->. exact H4.
  - destruct r; try contradiction; cbn [consumed_of].
    + destruct H4 as (-> & -> & _). rewrite app_nil_r. apply firstn_cut_split.
    + destruct H4 as (-> & _). reflexivity.
    + rewrite H4. reflexivity.
  - exists pl. exact H1.
Qed.

Lemma until_conservation cn s d m fs s' r lg :
  until_loop false (fuel_of s) cn s d m 0 fs = (s', r, lg) ->
  conserve s (consumed_of (Until d m fs) r) s' r lg /\
  exists k, src s' = fetch_rest k (knd s) (src s) /\ lg = fetch_arrivals k (knd s) (src s) fs.
Proof.
  intros H.
  destruct (until_loop_spec (fuel_of s) cn s d m 0 fs s' r lg) as (Hk & k & H1 & H2 & H3 & H4 & H5);
    [intros j Hj; lia | unfold fuel_of; lia | exact H |].
  split; [|exists k; split; assumption].
  refine (conj Hk (conj _ (conj H4 (conj _ _)))).
  - intros ->. exact H5.
  - destruct r; try contradiction; cbn [consumed_of].
    + destruct H5 as (-> & _). now rewrite <- app_assoc.
    + destruct H5 as (-> & _). reflexivity.
    + destruct H5 as (-> & _). reflexivity.
    + rewrite H5. reflexivity.
  - rewrite H1. apply fetch_rest_suffix.
Qed.

Theorem step_conservation s o s' r lg : step_log s o = (s', r, lg) ->
  knd s' = knd s /\ r <> RFuel /\
  (chunks_nonempty (src s) -> chunks_nonempty (src s')) /\
  buf s ++ lg = consumed_of o r ++ buf s' /\
  (exists pulled, concat (src s) = pulled ++ concat (src s')) /\
  log_spec s o s' lg.
Proof.
  assert (Flat : forall c, conserve s c s' r lg -> log_spec s o s' lg ->
                 knd s' = knd s /\ r <> RFuel /\ (chunks_nonempty (src s) -> chunks_nonempty (src s')) /\
                 buf s ++ lg = c ++ buf s' /\ (exists pulled, concat (src s) = pulled ++ concat (src s')) /\
                 log_spec s o s' lg).
  { intros c (A & B & C & D & E) L. exact (conj A (conj B (conj C (conj D (conj E L))))). }
  unfold step_log. destruct o as [n fs|n fs|d m fs|d|k n fs|k n fs|k d m fs]; cbn [step_gen]; intros H.
  - destruct (receive_conservation _ _ _ _ _ _ _ H) as [C L]. exact (Flat _ C L).
  - destruct (exactly_conservation _ _ _ _ _ _ _ H) as [C L]. exact (Flat _ C L).
  - destruct (until_conservation _ _ _ _ _ _ _ _ H) as [C L]. exact (Flat _ C L).
  - injection H as <- <- <-. apply (Flat []); [|split; reflexivity].
    refine (conj eq_refl (conj _ (conj (fun h => h) (conj eq_refl _)))); [discriminate|exists []; reflexivity].
  - destruct k as [|k].
    + injection H as <- <- <-. apply (Flat []); [apply conserve_same; discriminate|]. exists [], 0. split; reflexivity.
    + destruct (receive_conservation _ _ _ _ _ _ _ H) as [C L]. exact (Flat _ C L).
  - destruct k as [|k].
    + injection H as <- <- <-. apply (Flat []); [apply conserve_same; discriminate|].
      exists []. split; [reflexivity|constructor].
    + destruct (exactly_conservation _ _ _ _ _ _ _ H) as [C L]. exact (Flat _ C L).
  - destruct k as [|k].
    + injection H as <- <- <-. apply (Flat []); [apply conserve_same; discriminate|]. exists 0. split; reflexivity.
    + destruct (until_conservation _ _ _ _ _ _ _ _ H) as [C L]. exact (Flat _ C L).
Qed.

Theorem step_never_out_of_fuel s o : snd (step s o) <> RFuel.
Proof.
  unfold step. destruct (step_log s o) as [[s' r] lg] eqn:E. apply (step_conservation _ _ _ _ _ E).
Qed.

(* ------------------------------------------------------------------------------------------------ *)
(* op sequences                                                                                     *)
(* ------------------------------------------------------------------------------------------------ *)

Lemma final_cons s o r : final step s (o :: r) = final step (fst (fst (step_log s o))) r.
Proof. reflexivity. Qed.

(* C16 clause 1: bytes handed out (plus delimiters consumed), followed by the buffer, are exactly the bytes that
   arrived (fed between or during calls, read from the wrapped stream) in arrival order: nothing dropped, duplicated
   or reordered *)
Theorem buf_conservation : forall ops s,
  buf s ++ arrived_run s ops = consumed_run s ops ++ buf (final step s ops).
Proof.
  induction ops as [|o r IH]; intros s.
  - cbn. now rewrite app_nil_r.
  - rewrite final_cons. cbn [arrived_run consumed_run]. destruct (step_log s o) as [[s1 out] lg] eqn:E. cbn [fst].
    destruct (step_conservation _ _ _ _ _ E) as (_ & _ & _ & Hb & _).
    rewrite app_assoc, Hb, <- !app_assoc. f_equal. apply IH.
Qed.

(* the wrapped stream is only ever read from the front *)
Theorem buf_source_order : forall ops s,
  exists pulled, pulled ++ concat (src (final step s ops)) = concat (src s).
Proof.
  induction ops as [|o r IH]; intros s.
  - exists []. reflexivity.
  - rewrite final_cons. destruct (step_log s o) as [[s1 out] lg] eqn:E. cbn [fst].
    destruct (step_conservation _ _ _ _ _ E) as (_ & _ & _ & _ & (p1 & Hp) & _).
    destruct (IH s1) as [p2 Hp2]. exists (p1 ++ p2). rewrite <- app_assoc, Hp2. symmetry. exact Hp.
Qed.

Lemma log_no_feed s o s' lg : no_feed o = true -> log_spec s o s' lg -> lg ++ concat (src s') = concat (src s).
Proof.
  unfold log_spec. destruct o as [n fs|n fs|d m fs|d|c n fs|c n fs|c d m fs]; cbn [no_feed]; intros Hn H.
  - destruct fs; [|discriminate]. destruct H as (item & j & -> & ->). rewrite firstn_nil. cbn. now rewrite app_nil_r.
  - destruct fs; [|discriminate]. destruct H as (pl & -> & W). now rewrite (weave_nofeed _ _ _ W eq_refl).
  - destruct fs; [|discriminate]. destruct H as (k & -> & ->). apply fetch_arrivals_nofeed.
  - discriminate.
  - destruct fs; [|discriminate]. destruct H as (item & j & -> & ->). rewrite firstn_nil. cbn. now rewrite app_nil_r.
  - destruct fs; [|discriminate]. destruct H as (pl & -> & W). now rewrite (weave_nofeed _ _ _ W eq_refl).
  - destruct fs; [|discriminate]. destruct H as (k & -> & ->). apply fetch_arrivals_nofeed.
Qed.

Lemma arrived_no_feed : forall ops s,
  forallb no_feed ops = true -> arrived_run s ops ++ concat (src (final step s ops)) = concat (src s).
Proof.
  induction ops as [|o r IH]; intros s H; [reflexivity|].
  cbn [forallb] in H. apply andb_true_iff in H as [Ho Hr].
  rewrite final_cons. cbn [arrived_run]. destruct (step_log s o) as [[s1 out] lg] eqn:E. cbn [fst].
  destruct (step_conservation _ _ _ _ _ E) as (_ & _ & _ & _ & _ & Hl).
  rewrite <- app_assoc, (IH s1 Hr). apply (log_no_feed _ _ _ _ Ho Hl).
Qed.

(* without feed_data the whole stream is constant: handed out ++ buffer ++ still in the wrapped stream *)
Theorem buf_conservation_total ops s :
  forallb no_feed ops = true ->
  consumed_run s ops ++ buf (final step s ops) ++ concat (src (final step s ops)) = buf s ++ concat (src s).
Proof.
  intros H. rewrite app_assoc, <- buf_conservation, <- app_assoc, (arrived_no_feed _ _ H). reflexivity.
Qed.

Theorem kind_constant ops : forall s, knd (final step s ops) = knd s.
Proof.
  induction ops as [|o r IH]; intros s; [reflexivity|].
  rewrite final_cons, IH. destruct (step_log s o) as [[s1 out] lg] eqn:E. apply (step_conservation _ _ _ _ _ E).
Qed.

Theorem chunks_nonempty_invariant ops : forall s,
  chunks_nonempty (src s) -> chunks_nonempty (src (final step s ops)).
Proof.
  induction ops as [|o r IH]; intros s H; [exact H|].
  rewrite final_cons. apply IH. destruct (step_log s o) as [[s1 out] lg] eqn:E.
  apply (step_conservation _ _ _ _ _ E), H.
Qed.

(* ------------------------------------------------------------------------------------------------ *)
(* the per-call clauses                                                                             *)
(* ------------------------------------------------------------------------------------------------ *)

(* a call that fails hands out nothing; whatever arrived during it (read or fed) is in the buffer, in order, behind
   what was there; without feeds during the call the logical stream (buffer ++ wrapped stream) is unchanged *)
Theorem buf_fail_consumes_nothing s o s' r lg : step_log s o = (s', r, lg) -> failed r ->
  consumed_of o r = [] /\
  buf s' = buf s ++ lg /\
  (exists pulled, concat (src s) = pulled ++ concat (src s')) /\
  (no_feed o = true -> buf s' ++ concat (src s') = buf s ++ concat (src s)).
Proof.
  intros H F. destruct (step_conservation _ _ _ _ _ H) as (_ & _ & _ & Hb & Hp & Hl).
  assert (Hcons : consumed_of o r = []).
  { destruct F as [ -> | [ -> | [ -> | [ -> | -> ] ] ] ]; reflexivity. }
  rewrite Hcons in Hb. cbn [app] in Hb.
  refine (conj Hcons (conj (eq_sym Hb) (conj Hp _))).
  intros Hn. rewrite <- Hb, <- app_assoc, (log_no_feed _ _ _ _ Hn Hl). reflexivity.
Qed.

(* a CANCELLED call is a failed call: for every state reached by any op sequence (earlier cancellations, feeds during
   waits, empty items ... included) a call that ends in RCancelled hands out nothing; the chunks it had already fetched
   are in the buffer, in order; buffer ++ not-yet-fetched stream is unchanged *)
Theorem buf_cancelled_consumes_nothing ops s0 o s' lg :
  step_log (final step s0 ops) o = (s', RCancelled, lg) ->
  consumed_of o RCancelled = [] /\
  buf s' = buf (final step s0 ops) ++ lg /\
  (exists pulled, concat (src (final step s0 ops)) = pulled ++ concat (src s')) /\
  (no_feed o = true ->
   buf s' ++ concat (src s') = buf (final step s0 ops) ++ concat (src (final step s0 ops))).
Proof.
  intros H. apply (buf_fail_consumes_nothing _ _ _ _ _ H). unfold failed. auto 6.
Qed.

(* cancellation at entry (k = 0) touches nothing at all; calls outside a cancelled scope never end in RCancelled *)
Theorem buf_entry_cancel s n d m fs :
  step_log s (CReceive 0 n fs) = (s, RCancelled, []) /\
  step_log s (CExactly 0 n fs) = (s, RCancelled, []) /\
  step_log s (CUntil 0 d m fs) = (s, RCancelled, []).
Proof. repeat split. Qed.

Theorem buf_uncancelled_never_cancelled s o :
  match o with CReceive _ _ _ | CExactly _ _ _ | CUntil _ _ _ _ => True | _ => snd (step s o) <> RCancelled end.
Proof.
  unfold step, step_log. destruct o as [n fs|n fs|d m fs|d|k n fs|k n fs|k d m fs]; cbn [step_gen]; try exact I.
  - pose proof (skip_empty_0_not_cancelled (src s) fs []) as NC.
    unfold do_receive. cbn [hit Nat.eqb negb]. destruct (n <? 1)%Z; [discriminate|].
    destruct (buf s); [|discriminate]. destruct (knd s).
    + destruct (pull KByte (Z.to_nat n) (src s)) as [[c r0]|]; discriminate.
    + destruct (skip_empty 0 (src s) fs []) as [c r0 fed|fed|r0 fed].
      * destruct (n <? Z.of_nat (length c))%Z; discriminate.
      * discriminate.
      * exfalso. apply (NC r0 fed). reflexivity.
  - unfold do_exactly. cbn [negb andb]. destruct (n <? 0)%Z; [discriminate|]. apply exactly_loop_0.
  - apply until_loop_0.
  - discriminate.
Qed.

(* receive(n): for EVERY chunking of an object stream, empty items included, and every feed during its waits *)
Theorem buf_receive_spec s n fs s' r lg : step_log s (Receive n fs) = (s', r, lg) ->
  ((n < 1)%Z -> r = RValueError /\ s' = s) /\
  ((1 <= n)%Z -> (knd s = KByte -> chunks_nonempty (src s)) ->
     (exists x, r = RBytes x /\ 1 <= length x <= Z.to_nat n /\
                (buf s <> [] -> x = firstn (Z.to_nat n) (buf s) /\ src s' = src s /\ lg = [])) \/
     (r = REnd /\ buf s = [] /\ concat (src s) = [] /\ src s' = [] /\ buf s' = lg)).
Proof.
  unfold step_log. cbn [step_gen]. unfold do_receive. cbn [hit Nat.eqb]. intros H. split.
  - intros Hn. destruct (n <? 1)%Z eqn:E; [|lia]. injection H as <- <- _. auto.
  - intros Hn Hs. destruct (n <? 1)%Z eqn:E; [lia|].
    destruct (buf s) as [|b0 b] eqn:Eb.
    + destruct (knd s) eqn:Ek.
      * specialize (Hs eq_refl).
        destruct (pull KByte (Z.to_nat n) (src s)) as [[c r0]|] eqn:P.
        -- injection H as <- <- <-. left. exists c.
           assert (Hn1 : 1 <= Z.to_nat n) by lia.
           destruct (pull_nonempty _ _ _ _ _ Hs Hn1 P) as [Hc _].
           pose proof (pull_byte_bound _ _ _ _ P) as Hb.
           refine (conj eq_refl (conj _ _)); [|congruence].
           destruct c; [congruence|cbn [length] in *; lia].
        -- injection H as <- <- <-. right. apply pull_none in P. rewrite P. cbn [buf src]. auto.
      * pose proof (skip_empty_spec (src s) 0 fs []) as S.
        pose proof (skip_empty_0_not_cancelled (src s) fs []) as NC.
        cbn [negb] in H. destruct (skip_empty 0 (src s) fs []) as [c r0 fed|fed|r0 fed].
        -- destruct S as (Hc & _ & _).
           destruct (n <? Z.of_nat (length c))%Z eqn:En; injection H as <- <- <-; left.
           ++ exists (firstn (Z.to_nat n) c). refine (conj eq_refl (conj _ _)); [|congruence].
              rewrite firstn_length. lia.
           ++ exists c. refine (conj eq_refl (conj _ _)); [|congruence].
              destruct c; [congruence|cbn [length] in *; lia].
        -- injection H as <- <- <-. right. destruct S as (Hc & _). cbn [buf src]. auto.
        -- exfalso. apply (NC r0 fed). reflexivity.
    + injection H as <- <- <-. left. exists (firstn (Z.to_nat n) (b0 :: b)).
      refine (conj eq_refl (conj _ _)).
      * rewrite firstn_length. cbn [length]. lia.
      * intros _. auto.
Qed.

(* AN ITEM RECEIVED FROM THE WRAPPED STREAM IS HANDED OUT CONTIGUOUSLY: a receive() parked on an empty buffer that
   returns x got one item (empty items skipped); x is its head, the rest of the item is at the FRONT of the buffer and
   whatever was fed while the call waited follows the complete item *)
Theorem buf_receive_item_contiguous s n fs s' x lg : step_log s (Receive n fs) = (s', RBytes x, lg) ->
  buf s = [] ->
  exists item j,
    concat (src s) = item ++ concat (src s') /\
    x = firstn (Z.to_nat n) item /\
    buf s' = skipn (Z.to_nat n) item ++ concat (firstn j fs) /\
    x ++ buf s' = item ++ concat (firstn j fs) /\
    lg = item ++ concat (firstn j fs).
Proof.
  unfold step_log. cbn [step_gen]. unfold do_receive. cbn [hit Nat.eqb negb]. intros H Eb.
  destruct (n <? 1)%Z eqn:E; [discriminate|]. rewrite Eb in H.
  destruct (knd s) eqn:Ek.
  - destruct (pull KByte (Z.to_nat n) (src s)) as [[c r0]|] eqn:P; [|discriminate].
    injection H as <- <- <-. cbn [buf src]. exists c, 1.
    pose proof (pull_byte_bound _ _ _ _ P) as Hb.
    assert (F1 : [] ++ hd [] fs = concat (firstn 1 fs)) by apply (feeds_one []).
    cbn [app] in F1. rewrite <- F1.
    refine (conj (pull_spec _ _ _ _ _ P) (conj _ (conj _ (conj eq_refl eq_refl)))).
    + symmetry. apply firstn_all2. exact Hb.
    + rewrite skipn_all2 by exact Hb. reflexivity.
  - pose proof (skip_empty_spec (src s) 0 fs []) as S.
    destruct (skip_empty 0 (src s) fs []) as [c r0 fed|fed|r0 fed]; [|discriminate|discriminate].
    destruct S as (_ & Hc & _ & j & Hfed). cbn [app] in Hfed. subst fed.
    destruct (n <? Z.of_nat (length c))%Z eqn:En; injection H as <- <- <-; cbn [buf src app]; exists c, j.
    + refine (conj Hc (conj eq_refl (conj eq_refl (conj _ eq_refl)))).
      rewrite app_assoc, firstn_skipn. reflexivity.
    + assert (Hl : length c <= Z.to_nat n) by lia.
      refine (conj Hc (conj _ (conj _ (conj eq_refl eq_refl)))).
      * symmetry. apply firstn_all2, Hl.
      * rewrite skipn_all2 by exact Hl. reflexivity.
Qed.

Theorem buf_exactly_spec s n s' r : step s (Exactly n []) = (s', r) ->
  ((n < 0)%Z -> r = RValueError /\ s' = s) /\
  ((0 <= n)%Z ->
   ((exists x, r = RBytes x /\ length x = Z.to_nat n /\
               x ++ buf s' ++ concat (src s') = buf s ++ concat (src s)) \/
    (r = RIncomplete /\ src s' = [] /\ buf s' = buf s ++ concat (src s))) /\
   (r = RIncomplete <-> (Z.of_nat (length (buf s ++ concat (src s))) < n)%Z)).
Proof.
  unfold step, step_log. cbn [step_gen]. unfold do_exactly. cbn [negb andb]. intros H. split.
  { intros Hn. destruct (n <? 0)%Z eqn:E; [|lia]. cbn [fst] in H. injection H as <- <-. auto. }
  intros Hn. destruct (n <? 0)%Z eqn:E; [lia|].
  destruct (exactly_loop (fuel_of s) 0 s n []) as [[s1 r1] lg] eqn:L. cbn [fst] in H. injection H as <- <-.
  destruct (exactly_loop_spec (fuel_of s) 0 s n [] s1 r1 lg) as (Hk & (pl & H1 & W) & H2 & H3 & H4);
    [unfold fuel_of; lia | exact L |].
  apply weave_nofeed in W; [|reflexivity]. subst pl.
  pose proof (exactly_loop_0 (fuel_of s) s n []) as NC. rewrite L in NC. cbn [fst snd] in NC.
  destruct r1; try contradiction; try congruence.
  - destruct H4 as (Hx & Hb & Hlen).
    assert (Hcut : cut n (buf s ++ lg) = Z.to_nat n).
    { unfold cut. destruct (0 <=? n)%Z eqn:E0; [reflexivity|lia]. }
    rewrite Hcut in Hx, Hb.
    split.
    + left. exists b. refine (conj eq_refl (conj _ _)).
      * rewrite Hx, firstn_length. lia.
      * rewrite app_assoc, Hx, Hb, firstn_skipn, H1, app_assoc. reflexivity.
    + split; [discriminate|]. intros Hlt. exfalso.
      rewrite H1, app_assoc, app_length in Hlt. lia.
  - destruct H4 as (Hb & Hsrc & Hlen).
    assert (Hp : lg = concat (src s)) by (rewrite H1, Hsrc; cbn; now rewrite app_nil_r).
    split.
    + right. rewrite <- Hp. auto.
    + split; [intros _|reflexivity]. rewrite <- Hp, <- Hb. exact (proj1 Hlen eq_refl).
Qed.

(* receive_exactly(n) with feed_data() by other tasks during its waits (fs, one entry per fetch): the call hands out
   exactly the first n bytes of `buf s ++ lg`, lg = the model's arrival log (see the note at `weave`: the theorem is exact
   RELATIVE to that log) - i.e. in ARRIVAL order - what was buffered, then for each fetch the data fed during the wait
   followed by the chunk - and leaves the rest of what arrived in the buffer, in order; nothing is lost, duplicated or
   reordered whatever is fed and however the wrapped stream chunks.  IncompleteRead only when the wrapped stream is at
   its end; what arrived (the last feed included) stays buffered *)
Theorem buf_exactly_fed_spec s n fs s' r lg : (0 <= n)%Z -> step_log s (Exactly n fs) = (s', r, lg) ->
  (exists pulled, concat (src s) = pulled ++ concat (src s') /\ weave fs pulled lg) /\
  ((exists x, r = RBytes x /\ length x = Z.to_nat n /\ x ++ buf s' = buf s ++ lg) \/
   (r = RIncomplete /\ src s' = [] /\ buf s' = buf s ++ lg /\ (Z.of_nat (length (buf s)) < n)%Z)).
Proof.
  intros Hn. unfold step_log. cbn [step_gen]. unfold do_exactly. cbn [negb andb].
  destruct (n <? 0)%Z eqn:E; [lia|]. intros L.
  destruct (exactly_loop_spec (fuel_of s) 0 s n fs s' r lg) as (Hk & HP & H2 & H3 & H4);
    [unfold fuel_of; lia | exact L |].
  split; [exact HP|].
  pose proof (exactly_loop_0 (fuel_of s) s n fs) as NC. rewrite L in NC. cbn [fst snd] in NC.
  destruct r; try contradiction; try congruence.
  - destruct H4 as (Hx & Hb & Hlen).
    assert (Hcut : cut n (buf s ++ lg) = Z.to_nat n).
    { unfold cut. destruct (0 <=? n)%Z eqn:E0; [reflexivity|lia]. }
    rewrite Hcut in Hx, Hb. left. exists b. refine (conj eq_refl (conj _ _)).
    + rewrite Hx, firstn_length. lia.
    + rewrite Hx, Hb. apply firstn_skipn.
  - destruct H4 as (Hb & Hsrc & _ & Hlt). right. exact (conj eq_refl (conj Hsrc (conj Hb Hlt))).
Qed.

(* receive_until: the exact characterisation, for every feed_data made while the call waits *)
Theorem buf_until_spec s d m fs s' r lg : step_log s (Until d m fs) = (s', r, lg) ->
  until_post (knd s) (buf s) (src s) d m fs s' r lg.
Proof.
  intros H. unfold step_log in H. cbn [step_gen] in H.
  apply (until_loop_spec (fuel_of s) 0 s d m 0 fs s' r lg); [intros j Hj; lia | unfold fuel_of; lia | exact H].
Qed.

(* receive_until never includes the delimiter: the result is what precedes the FIRST occurrence in arrival order, the
   delimiter is consumed, the rest stays buffered - whatever was fed during the call *)
Theorem buf_until_result s d m fs s' x lg : step_log s (Until d m fs) = (s', RBytes x, lg) ->
  buf s ++ lg = x ++ d ++ buf s' /\
  (forall j, j < length x -> ~ occurs_at d (buf s ++ lg) j) /\
  (d <> [] -> ~ occurs d x).
Proof.
  intros H. destruct (buf_until_spec _ _ _ _ _ _ _ H) as (k & _ & _ & _ & _ & H3 & H4).
  refine (conj H3 (conj H4 _)).
  intros Hd [j Hj]. pose proof (occurs_at_len _ _ _ Hj) as Hl.
  assert (0 < length d) by (destruct d; [congruence|cbn; lia]).
  apply (H4 j); [lia|]. rewrite H3. apply occurs_at_app_r. exact Hj.
Qed.

(* without feeds during the call, in terms of the whole stream *)
Theorem buf_until_result_stream s d m s' x lg : step_log s (Until d m []) = (s', RBytes x, lg) ->
  buf s ++ concat (src s) = x ++ d ++ buf s' ++ concat (src s') /\
  (forall j, j < length x -> ~ occurs_at d (buf s ++ concat (src s)) j).
Proof.
  intros H. destruct (buf_until_result _ _ _ _ _ _ _ H) as (H3 & H4 & _).
  destruct (step_conservation _ _ _ _ _ H) as (_ & _ & _ & _ & _ & Hl).
  pose proof (log_no_feed s (Until d m []) s' lg eq_refl Hl) as H1.
  split.
  - rewrite <- H1, app_assoc, H3, <- !app_assoc. reflexivity.
  - intros j Hj Hocc. apply (H4 j Hj). rewrite <- H1, app_assoc in Hocc.
    apply (occurs_at_app_l _ _ _ _ Hocc). rewrite H3, !app_length. lia.
Qed.

(* DelimiterNotFound only if the delimiter does not occur within the first max_bytes bytes *)
Theorem buf_until_notfound s d m s' lg : step_log s (Until d m []) = (s', RNotFound, lg) ->
  forall i, occurs_at d (buf s ++ concat (src s)) i -> (m < Z.of_nat (i + length d))%Z.
Proof.
  intros H i Hocc. destruct (buf_until_spec _ _ _ _ _ _ _ H) as (k & _ & _ & _ & _ & Hb & Hno & Hlen).
  destruct (step_conservation _ _ _ _ _ H) as (_ & _ & _ & _ & _ & Hl).
  pose proof (log_no_feed s (Until d m []) s' lg eq_refl Hl) as H1.
  destruct (Z.ltb_spec m (Z.of_nat (i + length d))) as [|Hge]; [assumption|]. exfalso.
  apply Hno. exists i. rewrite Hb. rewrite <- H1, app_assoc in Hocc.
  apply (occurs_at_app_l _ _ _ _ Hocc). rewrite <- Hb. lia.
Qed.

(* ... also with feeds during the call: the buffer the call gave up on holds no delimiter and >= max_bytes bytes *)
Theorem buf_until_notfound_fed s d m fs s' lg : step_log s (Until d m fs) = (s', RNotFound, lg) ->
  buf s' = buf s ++ lg /\ ~ occurs d (buf s') /\ (m <= Z.of_nat (length (buf s')))%Z.
Proof.
  intros H. destruct (buf_until_spec _ _ _ _ _ _ _ H) as (k & _ & _ & _ & _ & H5). exact H5.
Qed.

(* IncompleteRead only if the delimiter occurs nowhere in the rest of the stream *)
Theorem buf_until_incomplete s d m s' lg : step_log s (Until d m []) = (s', RIncomplete, lg) ->
  ~ occurs d (buf s ++ concat (src s)) /\ (Z.of_nat (length (buf s ++ concat (src s))) < m)%Z.
Proof.
  intros H. destruct (buf_until_spec _ _ _ _ _ _ _ H) as (k & Hr & Hlg & Hj & _ & Hb & Hsrc & k0 & -> & Hk).
  destruct (step_conservation _ _ _ _ _ H) as (_ & _ & _ & _ & _ & Hl).
  pose proof (log_no_feed s (Until d m []) s' lg eq_refl Hl) as H1. rewrite Hsrc in H1. cbn in H1.
  rewrite app_nil_r in H1.
  (* the last fetch met the end of the stream: what had arrived before it is everything *)
  rewrite skipn_nil in Hk. cbn [hd] in Hk. rewrite app_nil_r in Hk.
  destruct (Hj k0 ltac:(lia)) as [Hno Hlen]. rewrite <- Hk, H1 in Hno, Hlen. split; assumption.
Qed.

(* ------------------------------------------------------------------------------------------------ *)
(* the tree before the fixes F27 / F28 / F29 violates the clauses (witnesses; a=97 b=98 \n=10)       *)
(* ------------------------------------------------------------------------------------------------ *)

Local Open Scope Z_scope.

(* F27: "a\n" "b" is fed while receive_until(b"\n") waits for the chunk "c\n": the old offset skips the fed bytes and
   the call returns "a\nbc" - with the delimiter inside; HEAD returns "a" *)
Theorem until_feed_refuted_pinned : exists s d m fs s' x lg,
  step_pinned s (Until d m fs) = (s', RBytes x, lg) /\ d <> [] /\ occurs d x.
Proof.
  exists (init KObject [[99; 10]]), [10], 100, [[97; 10; 98]].
  eexists. eexists. eexists. split; [vm_compute; reflexivity|]. split; [discriminate|].
  exists 1%nat. exists [97], [98; 99]. split; reflexivity.
Qed.

Example until_feed_head :
  step_log (init KObject [[99; 10]]) (Until [10] 100 [[97; 10; 98]])
  = (mk KObject [98; 99; 10] [], RBytes [97], [97; 10; 98; 99; 10]).
Proof. vm_compute. reflexivity. Qed.

(* F28: an empty item of an object stream came back as a 0-byte result *)
Theorem receive_empty_refuted_pinned : exists s n s' lg,
  knd s = KObject /\ (1 <= n) /\ step_pinned s (Receive n []) = (s', RBytes [], lg) /\ concat (src s) <> [].
Proof.
  exists (init KObject [[]; [97]]), 5. eexists. eexists.
  refine (conj eq_refl (conj _ (conj _ _))); [lia | vm_compute; reflexivity | discriminate].
Qed.

Example receive_empty_head :
  step (init KObject [[]; []; [97]]) (Receive 5 []) = (mk KObject [] [], RBytes [97]) /\
  step (init KObject [[]; []]) (Receive 5 []) = (mk KObject [] [], REnd).
Proof. vm_compute. auto. Qed.

(* F43 (767a0e0): "X" is fed while receive(2) waits for the item "abcd": the old code appended the surplus "cd" BEHIND the fed
   byte, so the item came out as "ab", then "Xcd" - neither "abcdX" nor "Xabcd"; HEAD: "ab", then "cdX" *)
Theorem receive_item_split_refuted_pinned : exists s n fs s' x lg item,
  src s = [item] /\ buf s = [] /\ step_pinned s (Receive n fs) = (s', RBytes x, lg) /\
  x ++ buf s' <> item ++ concat fs /\ x ++ buf s' <> concat fs ++ item.
Proof.
  exists (init KObject [[97; 98; 99; 100]]), 2, [[88]]. do 3 eexists. exists [97; 98; 99; 100].
  refine (conj eq_refl (conj eq_refl (conj _ (conj _ _)))); [vm_compute; reflexivity | discriminate | discriminate].
Qed.

Example receive_item_split_head :
  step_log (init KObject [[97; 98; 99; 100]]) (Receive 2 [[88]])
  = (mk KObject [99; 100; 88] [], RBytes [97; 98], [97; 98; 99; 100; 88]) /\
  step_log (init KObject [[]; [97; 98; 99]]) (Receive 2 [[88]; [89]; [90]])
  = (mk KObject [99; 88; 89] [], RBytes [97; 98], [97; 98; 99; 88; 89]) /\
  step_log (init KByte [[97; 98; 99]]) (Receive 2 [[88]])
  = (mk KByte [88] [[99]], RBytes [97; 98], [97; 98; 88]).
Proof. vm_compute. auto. Qed.

(* F29: a negative count consumed data, and how much depended on the chunking *)
Theorem exactly_negative_refuted_pinned : exists c1 c2 n x1 x2 s1 s2 l1 l2,
  concat c1 = concat c2 /\ n < 0 /\
  step_pinned (fst (fst (step_pinned (init KObject c1) (Receive 1 [])))) (Exactly n []) = (s1, RBytes x1, l1) /\
  step_pinned (fst (fst (step_pinned (init KObject c2) (Receive 1 [])))) (Exactly n []) = (s2, RBytes x2, l2) /\
  x1 <> x2.
Proof.
  exists [[97; 98; 99]], [[97]; [98; 99]], (-1). do 6 eexists.
  refine (conj eq_refl (conj _ (conj _ (conj _ _)))); [lia | vm_compute; reflexivity | vm_compute; reflexivity | discriminate].
Qed.

(* ------------------------------------------------------------------------------------------------ *)
(* non-vacuity and boundary witnesses (a=97 b=98 ;=59 \n=10)                                        *)
(* ------------------------------------------------------------------------------------------------ *)

(* the delimiter ";\n" straddles two chunks: found thanks to offset = |buf| - |d| + 1 *)
Example ex_until_straddle :
  step (init KObject [[97; 59]; [10; 98]]) (Until [59; 10] 10 [])
  = (mk KObject [98] [], RBytes [97]).
Proof. vm_compute. reflexivity. Qed.

(* boundary: 3 bytes buffered, max_bytes = 3, no delimiter -> DelimiterNotFound without a further read;
   the same bytes in one chunk with the delimiter -> found although beyond max_bytes *)
Example ex_until_boundary :
  snd (step (init KObject [[97; 98; 97]; [59]]) (Until [59] 3 [])) = RNotFound /\
  snd (step (init KObject [[97; 98]; [97]; [59]]) (Until [59] 3 [])) = RNotFound /\
  snd (step (init KObject [[97; 98]; [59]]) (Until [59] 3 [])) = RBytes [97; 98] /\
  snd (step (init KObject [[97; 98; 97; 59]]) (Until [59] 3 [])) = RBytes [97; 98; 97].
Proof. vm_compute. auto. Qed.

(* data fed during the last wait of a call that then meets the end of the stream stays buffered *)
Example ex_until_feed_then_eof :
  step_log (init KByte [[97]]) (Until [59] 9 [[]; [98; 59]])
  = (mk KByte [97; 98; 59] [], RIncomplete, [97; 98; 59]) /\
  snd (step (mk KByte [97; 98; 59] []) (Until [59] 9 [])) = RBytes [97; 98].
Proof. vm_compute. auto. Qed.

(* cancellation: the second fetch of receive_exactly(5) is cancelled - the first chunk stays buffered; in an already
   cancelled scope (k = 1) a call that needs no fetch completes, as HEAD has no checkpoint of its own *)
Example ex_cancelled :
  step_log (init KByte [[97]; [98]; [99]]) (CExactly 2 5 []) = (mk KByte [97] [[98]; [99]], RCancelled, [97]) /\
  step_log (init KObject [[]; [97]]) (CReceive 2 4 []) = (mk KObject [] [[97]], RCancelled, []) /\
  step_log (mk KByte [97; 59] [[98]]) (CReceive 1 1 []) = (mk KByte [59] [[98]], RBytes [97], []) /\
  step_log (mk KByte [97] [[98; 59]; [99]]) (CUntil 2 [59; 10] 9 []) = (mk KByte [97; 98; 59] [[99]], RCancelled, [98; 59]).
Proof. vm_compute. auto. Qed.

(* a failing call keeps what it read in the buffer; the next call gets it *)
Example ex_fail_keeps_bytes :
  let s1 := fst (step (init KByte [[97]; [98]]) (Exactly 5 [])) in
  snd (step (init KByte [[97]; [98]]) (Exactly 5 [])) = RIncomplete /\ buf s1 = [97; 98] /\ src s1 = [] /\
  snd (step s1 (Receive 1 [])) = RBytes [97].
Proof. vm_compute. auto. Qed.

Example ex_receive_cases :
  snd (step (init KObject [[97; 98; 59]]) (Receive 2 [])) = RBytes [97; 98] /\
  buf (fst (step (init KObject [[97; 98; 59]]) (Receive 2 []))) = [59] /\
  snd (step (init KByte [[97; 98; 59]]) (Receive 2 [])) = RBytes [97; 98] /\
  src (fst (step (init KByte [[97; 98; 59]]) (Receive 2 []))) = [[59]] /\
  snd (step (init KByte []) (Receive 2 [])) = REnd /\
  snd (step (init KByte [[97]]) (Receive 0 [])) = RValueError.
Proof. vm_compute. auto 10. Qed.

Example ex_exactly_negative :
  step (mk KByte [97; 98; 59] []) (Exactly (-1) []) = (mk KByte [97; 98; 59] [], RValueError).
Proof. vm_compute. reflexivity. Qed.

Example ex_conservation_run :
  let s := init KByte [[97; 59]; [10; 98; 98]; [59]] in
  let ops := [Until [59; 10] 8 [[]; [97; 97]]; Feed [97]; Receive 2 [[98]]; Exactly 3 []; Until [59] 2 []] in
  buf s ++ arrived_run s ops = consumed_run s ops ++ buf (final step s ops) /\
  consumed_run s ops <> [] /\ src (final step s ops) = [].
Proof. vm_compute. split; [reflexivity|]. split; [discriminate|reflexivity]. Qed.
