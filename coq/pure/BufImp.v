(* pure/BufImp: a small imperative language for the three receive methods of
   anyio.streams.buffered.BufferedByteReceiveStream and its interpreter (tie T for C16).  tools/translate_buffered.py
   regenerates pure/BufGen.v (three programs in this language) from the source on every run; pure/BufGenEq.v proves that
   interpreting them IS Buffered.step (state and result) for every state, argument, cancellation point and feed list.
   Definitions only.

   State = Buffered.st (kind of the wrapped stream, the bytearray `_buffer`, what the wrapped stream still holds).
   Locals (env): `chunk` (the bytes fetched last / `b""`: Python's chunk, data), `val` (a slice taken from the buffer:
   Python's chunk in the buffered branch of receive, retval, found), the integers remaining, offset, searched_size,
   index, delimiter_size, the parameters (`par` = max_bytes / nbytes, `delim`), and the environment of the CALL: `cn`
   (number, from now, of the fetch at which the cancellation of the enclosing scope is delivered, 0 = never) and `fs`
   (what other tasks feed with feed_data() during the waits, one entry per fetch), as in Buffered.v.
   A fetch (`await self.receive_stream.receive(..)`) is the only await: cancelled if `hit cn`; otherwise the data fed
   during the wait is appended to the buffer FIRST, then the wrapped stream answers (Buffered.pull) or is at its end.
   `self._closed` reads as False (aclose() is outside the C16 model, as in Buffered.v). *)
From AV Require Import Base Buffered.

Record env := mkenv {
  par : Z; delim : list Z;
  chunk : list Z; val : list Z;
  remaining : Z; offset : Z; searched : Z; index : Z; dsize : Z;
  cn : nat; fs : list (list Z)
}.

Definition env0 (p : Z) (d : list Z) (c : nat) (f : list (list Z)) : env :=
  mkenv p d [] [] 0 0 0 0 0 c f.

Inductive iexp := IPar | IRemaining | IIndex | IIndexPlusDelim.

Inductive cond :=
| CParLt1            (* max_bytes < 1 *)
| CParNeg            (* nbytes < 0 *)
| CClosed            (* self._closed *)
| CBuf               (* self._buffer *)
| CIsByte            (* isinstance(self.receive_stream, ByteReceiveStream) *)
| CChunkLongerPar    (* len(chunk) > max_bytes *)
| CRemainingLe0      (* remaining <= 0 *)
| CIndexGe0          (* index >= 0 *)
| CBufLenGePar       (* len(self._buffer) >= max_bytes *)
| CBufLenGeSearched. (* len(self._buffer) >= searched_size *)

Inductive atom :=
| ASetValBufPrefix (n : iexp)   (* v = [bytes(]self._buffer[:n][)] *)
| ADelBufPrefix (n : iexp)      (* del self._buffer[:n] *)
| ASetRemaining                 (* remaining = nbytes - len(self._buffer) *)
| ASetChunkEmpty                (* chunk = b"" *)
| ABufPrependChunkSuffix        (* self._buffer[:0] = chunk[max_bytes:] *)
| ABufExtendChunk               (* self._buffer.extend(chunk) *)
| ASetDsize                     (* delimiter_size = len(delimiter) *)
| ASetOffset0                   (* offset = 0 *)
| ASetIndexFind                 (* index = self._buffer.find(delimiter, offset) *)
| ASetSearched                  (* searched_size = len(self._buffer) *)
| ASetOffsetMax.                (* offset = max(searched_size - delimiter_size + 1, 0) *)

Inductive farg := FPar | FRemaining | FNone.      (* receive(max_bytes) | receive(remaining) | receive() *)
Inductive eos := EPropagate | EIncomplete.        (* EndOfStream escapes | `except EndOfStream: raise IncompleteRead` *)
Inductive rexp := RVal | RChunk | RChunkPrefixPar.   (* return [bytes(]v[)] | return chunk | return chunk[:max_bytes] *)
Inductive exc := XValueError | XClosed | XNotFound.

(* loop-free code *)
Inductive block :=
| BSkip
| BAtom (a : atom)
| BSeq (a b : block)
| BIf (c : cond) (a b : block)
| BFetch (x : farg) (h : eos)           (* chunk = await self.receive_stream.receive(..) *)
| BReturnFetch (x : farg)               (* return await self.receive_stream.receive(..) *)
| BReturn (r : rexp)
| BRaise (x : exc).

Inductive stmt :=
| SBlock (b : block)
| SSeq (a b : stmt)
| SIf (c : cond) (a b : stmt)
| SWhileTrue (b : block)                (* while True: b *)
| SWhileNotChunk (b : block).           (* while not chunk: b *)

Inductive outcome :=
| OFall (e : env) (s : st)              (* fell off the end *)
| ODone (s : st) (r : res)              (* returned / raised / cancelled *)
| OStuck.                               (* outside the language's meaning (never the model's result) *)

Definition blen (s : st) : Z := Z.of_nat (length (buf s)).

Definition evali (i : iexp) (e : env) : Z :=
  match i with
  | IPar => par e | IRemaining => remaining e | IIndex => index e
  | IIndexPlusDelim => (index e + Z.of_nat (length (delim e)))%Z
  end.

Definition evalc (c : cond) (e : env) (s : st) : bool :=
  match c with
  | CParLt1 => (par e <? 1)%Z
  | CParNeg => (par e <? 0)%Z
  | CClosed => false
  | CBuf => match buf s with [] => false | _ => true end
  | CIsByte => match knd s with KByte => true | KObject => false end
  | CChunkLongerPar => (par e <? Z.of_nat (length (chunk e)))%Z
  | CRemainingLe0 => (remaining e <=? 0)%Z
  | CIndexGe0 => (0 <=? index e)%Z
  | CBufLenGePar => (par e <=? blen s)%Z
  | CBufLenGeSearched => (searched e <=? blen s)%Z
  end.

Definition set_buf (s : st) (b : list Z) : st := mk (knd s) b (src s).

Definition with_chunk (e : env) (c : list Z) : env :=
  mkenv (par e) (delim e) c (val e) (remaining e) (offset e) (searched e) (index e) (dsize e) (cn e) (fs e).
Definition with_val (e : env) (v : list Z) : env :=
  mkenv (par e) (delim e) (chunk e) v (remaining e) (offset e) (searched e) (index e) (dsize e) (cn e) (fs e).
Definition with_remaining (e : env) (z : Z) : env :=
  mkenv (par e) (delim e) (chunk e) (val e) z (offset e) (searched e) (index e) (dsize e) (cn e) (fs e).
Definition with_offset (e : env) (z : Z) : env :=
  mkenv (par e) (delim e) (chunk e) (val e) (remaining e) z (searched e) (index e) (dsize e) (cn e) (fs e).
Definition with_searched (e : env) (z : Z) : env :=
  mkenv (par e) (delim e) (chunk e) (val e) (remaining e) (offset e) z (index e) (dsize e) (cn e) (fs e).
Definition with_index (e : env) (z : Z) : env :=
  mkenv (par e) (delim e) (chunk e) (val e) (remaining e) (offset e) (searched e) z (dsize e) (cn e) (fs e).
Definition with_dsize (e : env) (z : Z) : env :=
  mkenv (par e) (delim e) (chunk e) (val e) (remaining e) (offset e) (searched e) (index e) z (cn e) (fs e).
(* a fetch was made: the next one is one closer to the cancellation, the next feed is the next entry *)
Definition fetched (e : env) (c : list Z) : env :=
  mkenv (par e) (delim e) c (val e) (remaining e) (offset e) (searched e) (index e) (dsize e) (pred (cn e)) (tl (fs e)).

Definition run_atom (a : atom) (e : env) (s : st) : env * st :=
  match a with
  | ASetValBufPrefix n => (with_val e (firstn (cut (evali n e) (buf s)) (buf s)), s)
  | ADelBufPrefix n => (e, set_buf s (skipn (cut (evali n e) (buf s)) (buf s)))
  | ASetRemaining => (with_remaining e (par e - blen s)%Z, s)
  | ASetChunkEmpty => (with_chunk e [], s)
  | ABufPrependChunkSuffix => (e, set_buf s (skipn (cut (par e) (chunk e)) (chunk e) ++ buf s))
  | ABufExtendChunk => (e, set_buf s (buf s ++ chunk e))
  | ASetDsize => (with_dsize e (Z.of_nat (length (delim e))), s)
  | ASetOffset0 => (with_offset e 0, s)
  | ASetIndexFind =>
      (with_index e (match find_from (delim e) (Z.to_nat (offset e)) (buf s) with
                     | Some i => Z.of_nat i | None => (-1)%Z end), s)
  | ASetSearched => (with_searched e (blen s), s)
  | ASetOffsetMax => (with_offset e (Z.max (searched e - dsize e + 1) 0), s)
  end.

(* max_bytes argument of the wrapped stream's receive() *)
Definition ask (x : farg) (e : env) : nat :=
  match x with FPar => Z.to_nat (par e) | FRemaining => Z.to_nat (remaining e) | FNone => default_max end.

(* one fetch: None = the call is cancelled there; Some (s1, None) = EndOfStream; Some (s1, Some c) = chunk c *)
Definition fetch (x : farg) (e : env) (s : st) : option (st * option (list Z)) :=
  if hit (cn e) then None else
  let s1 := set_buf s (buf s ++ hd [] (fs e)) in        (* feed_data() by another task during the wait *)
  match pull (knd s) (ask x e) (src s) with
  | None => Some (s1, None)
  | Some (c, r) => Some (mk (knd s) (buf s1) r, Some c)
  end.

Definition raise_code (x : exc) : res :=
  (* ClosedResourceError is outside the model (CClosed reads as False): mapped to a result no model step has *)
  match x with XValueError => RValueError | XClosed => RFuel | XNotFound => RNotFound end.

Fixpoint run_block (b : block) (e : env) (s : st) : outcome :=
  match b with
  | BSkip => OFall e s
  | BAtom a => let '(e1, s1) := run_atom a e s in OFall e1 s1
  | BSeq a b => match run_block a e s with OFall e1 s1 => run_block b e1 s1 | o => o end
  | BIf c a b => if evalc c e s then run_block a e s else run_block b e s
  | BFetch x h =>
      match fetch x e s with
      | None => ODone s RCancelled
      | Some (s1, None) => ODone s1 (match h with EPropagate => REnd | EIncomplete => RIncomplete end)
      | Some (s1, Some c) => OFall (fetched e c) s1
      end
  | BReturnFetch x =>
      match fetch x e s with
      | None => ODone s RCancelled
      | Some (s1, None) => ODone s1 REnd
      | Some (s1, Some c) => ODone s1 (RBytes c)
      end
  | BReturn r =>
      ODone s (RBytes (match r with
                       | RVal => val e | RChunk => chunk e
                       | RChunkPrefixPar => firstn (cut (par e) (chunk e)) (chunk e)
                       end))
  | BRaise x => ODone s (raise_code x)
  end.

Fixpoint loop (fuel : nat) (b : block) (e : env) (s : st) : outcome :=
  match fuel with
  | O => ODone s RFuel
  | S f => match run_block b e s with OFall e1 s1 => loop f b e1 s1 | o => o end
  end.

Fixpoint loop_nc (fuel : nat) (b : block) (e : env) (s : st) : outcome :=
  match fuel with
  | O => ODone s RFuel
  | S f =>
      match chunk e with
      | [] => match run_block b e s with OFall e1 s1 => loop_nc f b e1 s1 | o => o end
      | _ :: _ => OFall e s
      end
  end.

Fixpoint exec (fuel : nat) (p : stmt) (e : env) (s : st) : outcome :=
  match p with
  | SBlock b => run_block b e s
  | SSeq a b => match exec fuel a e s with OFall e1 s1 => exec fuel b e1 s1 | o => o end
  | SIf c a b => if evalc c e s then exec fuel a e s else exec fuel b e s
  | SWhileTrue b => loop fuel b e s
  | SWhileNotChunk b => loop_nc fuel b e s
  end.

(* the visible part of a finished call; a method that falls off its end returns None, which no model result matches *)
Definition result (o : outcome) : option (st * res) :=
  match o with ODone s r => Some (s, r) | _ => None end.

(* the machine that runs three programs of this language: one call = one model op (Buffered.step_gen false) *)
Record progs := mkprogs { p_receive : stmt; p_exactly : stmt; p_until : stmt }.

Definition fuel_for (s : st) : nat := fuel_of s.      (* the loop bound of Buffered.v: one unit per iteration *)

Definition gcall (p : stmt) (s : st) (e : env) : st * res :=
  match result (exec (fuel_for s) p e s) with Some x => x | None => (s, RFuel) end.

Definition gstep (g : progs) (s : st) (o : op) : st * res :=
  match o with
  | Receive n f => gcall (p_receive g) s (env0 n [] 0 f)
  | Exactly n f => gcall (p_exactly g) s (env0 n [] 0 f)
  | Until d m f => gcall (p_until g) s (env0 m d 0 f)
  | Feed d => (mk (knd s) (buf s ++ d) (src s), RNone)            (* feed_data: `self._buffer.extend(data)`, checked literally *)
  | CReceive k n f => match k with O => (s, RCancelled) | _ => gcall (p_receive g) s (env0 n [] k f) end
  | CExactly k n f => match k with O => (s, RCancelled) | _ => gcall (p_exactly g) s (env0 n [] k f) end
  | CUntil k d m f => match k with O => (s, RCancelled) | _ => gcall (p_until g) s (env0 m d k f) end
  end.
