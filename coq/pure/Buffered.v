(* pure/Buffered: executable model of anyio.streams.buffered.BufferedByteReceiveStream
   (src/anyio/streams/buffered.py:30-154 of the pinned tree).  Definitions only; proofs are in BufferedProofs.v.

   Bytes are integers (Z, 0..255 in every generated case; nothing in the model depends on the range).

   The wrapped stream is DATA: `src` is the list of chunks it still holds, [] = end of stream.
     * KObject: an ObjectReceiveStream[bytes]; receive() delivers the next chunk whole, whatever its size.
     * KByte:   a ByteReceiveStream; receive(max_bytes) delivers the first min(max_bytes, |chunk|) bytes of the
                next chunk and keeps the remainder (if any) as the next chunk.
       Assumed contract of a real byte stream: 1 <= |result| <= max_bytes, EndOfStream only at the end.  For a given
       call sequence every behaviour of such a stream is reproduced by taking as `src` the list of pieces it actually
       returned (each piece fits the max_bytes it was requested with, so `pull` hands it out whole: lemma
       pull_byte_fits), hence quantifying over all chunk lists covers every contract-honouring byte stream.
     * Chunks may be empty in the model (a contract violation of the wrapped stream); the theorems that need
       non-empty chunks say so.
   The stream never blocks (a chunk or EndOfStream is always available), so every call is one atomic model step.
   aclose()/_closed is outside C16 and not modelled. *)
From AV Require Import Base.

Inductive kind := KByte | KObject.

Record st := mk { knd : kind; buf : list Z; src : list (list Z) }.

Inductive op :=
| Receive (n : Z)                 (* await s.receive(n) *)
| Exactly (n : Z)                 (* await s.receive_exactly(n) *)
| Until (d : list Z) (m : Z)      (* await s.receive_until(d, m) *)
| Feed (d : list Z).              (* s.feed_data(d) *)

Inductive res :=
| RBytes (b : list Z)
| REnd            (* EndOfStream *)
| RIncomplete     (* IncompleteRead *)
| RNotFound       (* DelimiterNotFound *)
| RValueError     (* ValueError("max_bytes must be a positive integer") *)
| RNone           (* feed_data returns None *)
| RFuel.          (* loop bound of the model exhausted: proved impossible (step_never_out_of_fuel) *)

(* default max_bytes of ByteReceiveStream.receive() *)
Definition default_max : nat := Z.to_nat 65536.

(* receive_stream.receive(n) on the wrapped stream: None = EndOfStream *)
Definition pull (k : kind) (n : nat) (s : list (list Z)) : option (list Z * list (list Z)) :=
  match s with
  | [] => None
  | c :: r =>
      match k with
      | KObject => Some (c, r)
      | KByte => Some (firstn n c, match skipn n c with [] => r | q => q :: r end)
      end
  end.

(* Python slice bound: b[:n] = firstn (cut n b) b and `del b[:n]` leaves skipn (cut n b) b, also for n < 0 *)
Definition cut (n : Z) (l : list Z) : nat :=
  if (0 <=? n)%Z then Z.to_nat n else Z.to_nat (Z.of_nat (length l) + n).

(* ---- receive (lines 67-89) ---- *)
Definition do_receive (s : st) (n : Z) : st * res :=
  if (n <? 1)%Z then (s, RValueError) else
  match buf s with
  | _ :: _ =>
      (mk (knd s) (skipn (Z.to_nat n) (buf s)) (src s), RBytes (firstn (Z.to_nat n) (buf s)))
  | [] =>
      match knd s with
      | KByte =>
          match pull KByte (Z.to_nat n) (src s) with
          | None => (s, REnd)
          | Some (c, r) => (mk (knd s) (buf s) r, RBytes c)
          end
      | KObject =>
          match pull KObject default_max (src s) with
          | None => (s, REnd)
          | Some (c, r) =>
              if (n <? Z.of_nat (length c))%Z
              then (mk (knd s) (buf s ++ skipn (Z.to_nat n) c) r, RBytes (firstn (Z.to_nat n) c))
              else (mk (knd s) (buf s) r, RBytes c)
          end
      end
  end.

(* ---- receive_exactly (lines 91-116): one loop iteration per unit of fuel ---- *)
Fixpoint exactly_loop (fuel : nat) (s : st) (n : Z) : st * res :=
  match fuel with
  | O => (s, RFuel)
  | S f =>
      let remaining := (n - Z.of_nat (length (buf s)))%Z in
      if (remaining <=? 0)%Z then
        (mk (knd s) (skipn (cut n (buf s)) (buf s)) (src s), RBytes (firstn (cut n (buf s)) (buf s)))
      else
        match pull (knd s) (match knd s with KByte => Z.to_nat remaining | KObject => default_max end) (src s) with
        | None => (s, RIncomplete)
        | Some (c, r) => exactly_loop f (mk (knd s) (buf s ++ c) r) n
        end
  end.

(* ---- bytearray.find(d, off): lowest i >= off with b[i:i+|d|] == d ---- *)
Fixpoint prefixb (d l : list Z) : bool :=
  match d, l with
  | [], _ => true
  | x :: d', y :: l' => Z.eqb x y && prefixb d' l'
  | _ :: _, [] => false
  end.

Fixpoint find_at (d l : list Z) (i : nat) : option nat :=
  if prefixb d l then Some i else
  match l with
  | [] => None
  | _ :: r => find_at d r (S i)
  end.

Definition find_from (d : list Z) (off : nat) (l : list Z) : option nat :=
  if length l <? off then None else find_at d (skipn off l) off.

(* ---- receive_until (lines 118-154); `off` is the local variable `offset` ---- *)
Fixpoint until_loop (fuel : nat) (s : st) (d : list Z) (m : Z) (off : nat) : st * res :=
  match fuel with
  | O => (s, RFuel)
  | S f =>
      match find_from d off (buf s) with
      | Some i => (mk (knd s) (skipn (i + length d) (buf s)) (src s), RBytes (firstn i (buf s)))
      | None =>
          if (m <=? Z.of_nat (length (buf s)))%Z then (s, RNotFound) else
          match pull (knd s) default_max (src s) with      (* receive() without argument, also on a byte stream *)
          | None => (s, RIncomplete)
          | Some (c, r) =>
              (* offset = max(len(buffer) - delimiter_size + 1, 0): truncated subtraction on nat *)
              until_loop f (mk (knd s) (buf s ++ c) r) d m (length (buf s) + 1 - length d)
          end
      end
  end.

(* every pull with max_bytes >= 1 strictly decreases this measure, so the loops never need more iterations *)
Definition measure (l : list (list Z)) : nat := length l + length (concat l).
Definition fuel_of (s : st) : nat := S (measure (src s)).

Definition step (s : st) (o : op) : st * res :=
  match o with
  | Receive n => do_receive s n
  | Exactly n => exactly_loop (fuel_of s) s n
  | Until d m => until_loop (fuel_of s) s d m 0
  | Feed d => (mk (knd s) (buf s ++ d) (src s), RNone)
  end.

Definition init (k : kind) (chunks : list (list Z)) : st := mk k [] chunks.

(* ---- specification vocabulary (used by the theorems; not part of the executable path) ---- *)

(* receive_until without the offset optimisation: always searches the whole buffer *)
Fixpoint until_naive (fuel : nat) (s : st) (d : list Z) (m : Z) : st * res :=
  match fuel with
  | O => (s, RFuel)
  | S f =>
      match find_from d 0 (buf s) with
      | Some i => (mk (knd s) (skipn (i + length d) (buf s)) (src s), RBytes (firstn i (buf s)))
      | None =>
          if (m <=? Z.of_nat (length (buf s)))%Z then (s, RNotFound) else
          match pull (knd s) default_max (src s) with
          | None => (s, RIncomplete)
          | Some (c, r) => until_naive f (mk (knd s) (buf s ++ c) r) d m
          end
      end
  end.

(* d occurs in l at index i *)
Definition occurs_at (d l : list Z) (i : nat) : Prop :=
  exists pre post, l = pre ++ d ++ post /\ length pre = i.
Definition occurs (d l : list Z) : Prop := exists i, occurs_at d l i.

(* bytes removed from the front of the logical stream by a call: its result plus, for receive_until, the delimiter *)
Definition consumed_of (o : op) (r : res) : list Z :=
  match r with
  | RBytes b => b ++ match o with Until d _ => d | _ => [] end
  | _ => []
  end.

Definition failed (r : res) : Prop := r = REnd \/ r = RIncomplete \/ r = RNotFound \/ r = RValueError.

(* bytes that left the wrapped stream between two states: the part of concat(src) that is gone *)
Definition pulled_of (s s' : st) : list Z :=
  firstn (length (concat (src s)) - length (concat (src s'))) (concat (src s)).

(* bytes that arrived in the wrapper during a step: fed data, or what was pulled from the wrapped stream *)
Definition arrived_of (s : st) (o : op) (s' : st) : list Z :=
  match o with Feed d => d | _ => pulled_of s s' end.
Definition received_of (s : st) (o : op) (s' : st) : list Z :=
  match o with Feed _ => [] | _ => pulled_of s s' end.

Fixpoint consumed_run (s : st) (ops : list op) : list Z :=
  match ops with
  | [] => []
  | o :: r => let '(s1, out) := step s o in consumed_of o out ++ consumed_run s1 r
  end.
Fixpoint arrived_run (s : st) (ops : list op) : list Z :=
  match ops with
  | [] => []
  | o :: r => let '(s1, out) := step s o in arrived_of s o s1 ++ arrived_run s1 r
  end.
Fixpoint received_run (s : st) (ops : list op) : list Z :=
  match ops with
  | [] => []
  | o :: r => let '(s1, out) := step s o in received_of s o s1 ++ received_run s1 r
  end.

Definition is_feed (o : op) : bool := match o with Feed _ => true | _ => false end.
Definition chunks_nonempty (l : list (list Z)) : Prop := forall c, In c l -> c <> [].

(* ---- observable output of a step: code, result bytes, the `buffer` property ---- *)
Definition res_code (r : res) : Z :=
  match r with
  | RBytes _ => 0 | REnd => 1 | RIncomplete => 2 | RNotFound => 3 | RValueError => 4 | RNone => 5 | RFuel => 9
  end%Z.
Definition res_bytes (r : res) : list Z := match r with RBytes b => b | _ => [] end.

Definition observe (s : st) (r : res) : list Z :=
  res_code r :: nz (length (res_bytes r)) :: res_bytes r ++ nz (length (buf s)) :: buf s.

(* ---- codec: case = kind :: nchunks :: (len :: bytes)* :: ops
        op = 0 n | 1 n | 2 m len delimiter-bytes | 3 len bytes ---- *)
Definition take_list (l : list Z) : list Z * list Z :=
  match l with
  | [] => ([], [])
  | n :: r => (firstn (zn n) r, skipn (zn n) r)
  end.

Fixpoint decode_chunks (k : nat) (l : list Z) : list (list Z) * list Z :=
  match k with
  | O => ([], l)
  | S k' => let '(c, r) := take_list l in
            let '(cs, r') := decode_chunks k' r in (c :: cs, r')
  end.

Fixpoint decode_ops (fuel : nat) (l : list Z) : list op :=
  match fuel with
  | O => []
  | S f =>
      match l with
      | 0%Z :: n :: r => Receive n :: decode_ops f r
      | 1%Z :: n :: r => Exactly n :: decode_ops f r
      | 2%Z :: m :: r => let '(d, r') := take_list r in Until d m :: decode_ops f r'
      | 3%Z :: r => let '(d, r') := take_list r in Feed d :: decode_ops f r'
      | _ => []
      end
  end.

Fixpoint run_obs (s : st) (ops : list op) : list Z :=
  match ops with
  | [] => []
  | o :: r => let '(s1, out) := step s o in observe s1 out ++ run_obs s1 r
  end.

Definition run_case (c : list Z) : list Z :=
  match c with
  | k :: nch :: r =>
      let '(chunks, r') := decode_chunks (zn nch) r in
      run_obs (init (if zb k then KObject else KByte) chunks) (decode_ops (length r') r')
  | _ => []
  end.
