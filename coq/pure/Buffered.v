(* pure/Buffered: executable model of anyio.streams.buffered.BufferedByteReceiveStream
   (src/anyio/streams/buffered.py:30-172 of HEAD = pinned tree + fixes F27 F28 F29).  Definitions only; proofs are in
   BufferedProofs.v.  Every transition function takes a flag `p`: false = HEAD (what `step` uses), true = the tree
   before the three fixes (kept for the `_refuted_pinned` witnesses).

   Bytes are integers (Z, 0..255 in every generated case; nothing in the model depends on the range).

   The wrapped stream is DATA: `src` is the list of chunks it still holds, [] = end of stream.
     * KObject: an ObjectReceiveStream[bytes]; receive() delivers the next item whole, whatever its size; items may be
                EMPTY (e.g. TextSendStream.send("") puts b"" on a memory object stream).
     * KByte:   a ByteReceiveStream; receive(max_bytes) delivers the first min(max_bytes, |chunk|) bytes of the
                next chunk and keeps the remainder (if any) as the next chunk.
       Assumed contract of a real byte stream: 1 <= |result| <= max_bytes, EndOfStream only at the end.  For a given
       call sequence every behaviour of such a stream is reproduced by taking as `src` the list of pieces it actually
       returned (each piece fits the max_bytes it was requested with, so `pull` hands it out whole: lemma
       pull_byte_fits), hence quantifying over all chunk lists covers every contract-honouring byte stream.  Empty
       chunks of a byte stream are a contract violation of the wrapped stream; the one theorem that needs them
       excluded says so.
   A call is one model step.  The only thing another task can do to the wrapper while a call is parked in
   receive_stream.receive() that is modelled is feed_data(): `Until d m fs` carries, for each fetch the call makes, the
   data fed during that wait (fs = feeds in fetch order, missing = none); it is appended to the buffer before the
   fetched chunk, also when the fetch ends in EndOfStream.  `Receive n fs` likewise (fix F43, /repo commit 767a0e0), and so does
   `Exactly n fs`: `remaining` is computed before the await, the chunk is appended behind whatever was fed meanwhile
   and the loop looks at the buffer again.  (A concurrent second reader shrinking the buffer is not
   modelled.)  CANCELLATION: the C-ops run the call in a cancel scope; k = 0: the call is cancelled at entry, before it
   touched anything (what any implementation that checkpoints first does in an already cancelled scope; HEAD has no
   such checkpoint, the harness uses k = 0 only when the implementation was observed to behave so); k >= 1: the k-th
   fetch from the wrapped stream - the only place where HEAD waits - raises the cancellation (k = 1 is also what an
   already cancelled scope does to HEAD).  A cancelled call returns RCancelled; what earlier fetches of the same call
   brought in stays in the buffer.  Every step also returns the ARRIVAL LOG: the bytes that entered the wrapper during the call, in order
   (fed data and chunks read); step_conservation (log_spec) relates it to the environment: exactly for receive_until
   (fetch_arrivals), up to the chunk boundaries for receive_exactly (weave).
   aclose()/_closed is outside C16 and not modelled. *)
From AV Require Import Base.

Inductive kind := KByte | KObject.

Record st := mk { knd : kind; buf : list Z; src : list (list Z) }.

Inductive op :=
| Receive (n : Z) (fs : list (list Z))              (* await s.receive(n); fs = feed_data during its waits *)
| Exactly (n : Z) (fs : list (list Z))              (* await s.receive_exactly(n); fs = feed_data during its waits *)
| Until (d : list Z) (m : Z) (fs : list (list Z))   (* await s.receive_until(d, m); fs = feed_data during its waits *)
| Feed (d : list Z)                                 (* s.feed_data(d) between calls *)
| CReceive (k : nat) (n : Z) (fs : list (list Z))   (* the same calls in a scope that is cancelled: see above *)
| CExactly (k : nat) (n : Z) (fs : list (list Z))
| CUntil (k : nat) (d : list Z) (m : Z) (fs : list (list Z)).

Inductive res :=
| RBytes (b : list Z)
| REnd            (* EndOfStream *)
| RIncomplete     (* IncompleteRead *)
| RNotFound       (* DelimiterNotFound *)
| RValueError     (* ValueError *)
| RNone           (* feed_data returns None *)
| RCancelled      (* the cancellation exception of the enclosing scope propagated out of the call *)
| RFuel.          (* loop bound of the model exhausted: proved impossible (step_never_out_of_fuel) *)

(* default max_bytes of ByteReceiveStream.receive() *)
Definition default_max : nat := Z.to_nat 65536.

(* receive_stream.receive(n) on the wrapped stream: None = EndOfStream *)
Definition pull (k : kind) (n : nat) (s : list (list Z)) : option (list Z * list (list Z)) :=
  match s with
  | [] => None
  | c :: r =>
      match k with
      | KObject => Some (c, r)
      | KByte => Some (firstn n c, match skipn n c with [] => r | q => q :: r end)
      end
  end.

(* cn = number (from now) of the fetch that is cancelled, 0 = none *)
Definition hit (cn : nat) : bool := Nat.eqb cn 1.

(* outcome of the fetch(es) of receive() on an object stream; fed = what feed_data put into the (empty) buffer while
   the call was waiting, in order *)
Inductive fres :=
| FGot (c : list Z) (r : list (list Z)) (fed : list Z)
| FEnd (fed : list Z)                                   (* EndOfStream *)
| FCancel (r : list (list Z)) (fed : list Z).           (* cancelled while waiting; r = what the wrapped stream still holds *)

(* HEAD, object stream branch of receive(): `chunk = b""; while not chunk: chunk = await receive_stream.receive()`;
   every fetch may be accompanied by a feed_data from another task (fs, one entry per fetch) *)
Fixpoint skip_empty (cn : nat) (s : list (list Z)) (fs : list (list Z)) (acc : list Z) : fres :=
  if hit cn then FCancel s acc else
  let a := acc ++ hd [] fs in
  match s with
  | [] => FEnd a
  | c :: r => match c with [] => skip_empty (pred cn) r (tl fs) a | _ :: _ => FGot c r a end
  end.

(* the pinned tree: a single receive() *)
Definition one_item (cn : nat) (s : list (list Z)) (fs : list (list Z)) : fres :=
  if hit cn then FCancel s [] else
  match s with [] => FEnd (hd [] fs) | c :: r => FGot c r (hd [] fs) end.

(* Python slice bound: b[:n] = firstn (cut n b) b and `del b[:n]` leaves skipn (cut n b) b, also for n < 0 *)
Definition cut (n : Z) (l : list Z) : nat :=
  if (0 <=? n)%Z then Z.to_nat n else Z.to_nat (Z.of_nat (length l) + n).

(* ---- receive (lines 67-95).  Result: new state, outcome, arrival log ---- *)
(* The arrival log of a receive() that had to wait is `item ++ fed`: the call was parked on an EMPTY buffer before the
   feed, so the item it was waiting for takes precedence - HEAD hands out its head, puts its surplus in FRONT of the
   fed data (`self._buffer[:0] = chunk[max_bytes:]`, fix F43, /repo commit 767a0e0) and the fed data follows the complete item.  The pinned
   tree appended the surplus BEHIND the fed data, tearing the item apart. *)
Definition do_receive (p : bool) (cn : nat) (s : st) (n : Z) (fs : list (list Z)) : st * res * list Z :=
  if (n <? 1)%Z then (s, RValueError, []) else
  match buf s with
  | _ :: _ =>                                            (* served from the buffer: no await at all *)
      (mk (knd s) (skipn (Z.to_nat n) (buf s)) (src s), RBytes (firstn (Z.to_nat n) (buf s)), [])
  | [] =>
      match knd s with
      | KByte =>
          if hit cn then (s, RCancelled, []) else
          let fd := hd [] fs in
          match pull KByte (Z.to_nat n) (src s) with
          | None => (mk (knd s) (buf s ++ fd) (src s), REnd, fd)
          | Some (c, r) => (mk (knd s) (buf s ++ fd) r, RBytes c, c ++ fd)
          end
      | KObject =>
          match (if p then one_item cn (src s) fs else skip_empty cn (src s) fs []) with
          | FEnd fed => (mk (knd s) (buf s ++ fed) [], REnd, fed)       (* every (empty) item left was consumed *)
          | FCancel r fed => (mk (knd s) (buf s ++ fed) r, RCancelled, fed)
          | FGot c r fed =>
              if (n <? Z.of_nat (length c))%Z
              then (mk (knd s) (if p then (buf s ++ fed) ++ skipn (Z.to_nat n) c
                                else skipn (Z.to_nat n) c ++ (buf s ++ fed)) r,
                    RBytes (firstn (Z.to_nat n) c), c ++ fed)
              else (mk (knd s) (buf s ++ fed) r, RBytes c, c ++ fed)
          end
      end
  end.

(* ---- receive_exactly (lines 97-125): one loop iteration per unit of fuel ---- *)
Fixpoint exactly_loop (fuel : nat) (cn : nat) (s : st) (n : Z) (fs : list (list Z)) : st * res * list Z :=
  match fuel with
  | O => (s, RFuel, [])
  | S f =>
      let remaining := (n - Z.of_nat (length (buf s)))%Z in          (* computed BEFORE the await *)
      if (remaining <=? 0)%Z then
        (mk (knd s) (skipn (cut n (buf s)) (buf s)) (src s), RBytes (firstn (cut n (buf s)) (buf s)), [])
      else if hit cn then (s, RCancelled, [])            (* what earlier fetches brought in stays buffered *)
      else
        let fd := hd [] fs in                            (* feed_data(fd) by another task during the wait *)
        let b1 := buf s ++ fd in
        match pull (knd s) (match knd s with KByte => Z.to_nat remaining | KObject => default_max end) (src s) with
        | None => (mk (knd s) b1 (src s), RIncomplete, fd)
        | Some (c, r) =>
            (* `self._buffer.extend(chunk)`: behind whatever was fed meanwhile; the next iteration looks at the buffer
               as it is then, so the call hands out the first n bytes in arrival order whatever arrived *)
            let '(s', out, lg) := exactly_loop f (pred cn) (mk (knd s) (b1 ++ c) r) n (tl fs) in (s', out, fd ++ c ++ lg)
        end
  end.

(* every pull with max_bytes >= 1 strictly decreases this measure, so the loops never need more iterations *)
Definition measure (l : list (list Z)) : nat := length l + length (concat l).
Definition fuel_of (s : st) : nat := S (measure (src s)).

Definition do_exactly (p : bool) (cn : nat) (s : st) (n : Z) (fs : list (list Z)) : st * res * list Z :=
  if negb p && (n <? 0)%Z then (s, RValueError, [])      (* HEAD: ValueError("nbytes must not be negative") *)
  else exactly_loop (fuel_of s) cn s n fs.

(* ---- bytearray.find(d, off): lowest i >= off with b[i:i+|d|] == d ---- *)
Fixpoint prefixb (d l : list Z) : bool :=
  match d, l with
  | [], _ => true
  | x :: d', y :: l' => Z.eqb x y && prefixb d' l'
  | _ :: _, [] => false
  end.

Fixpoint find_at (d l : list Z) (i : nat) : option nat :=
  if prefixb d l then Some i else
  match l with
  | [] => None
  | _ :: r => find_at d r (S i)
  end.

Definition find_from (d : list Z) (off : nat) (l : list Z) : option nat :=
  if length l <? off then None else find_at d (skipn off l) off.

(* ---- receive_until (lines 127-172); `off` is the local variable `offset`.  HEAD remembers
        searched_size = len(buffer) BEFORE the await and derives the offset from it; the pinned tree used len(buffer)
        AFTER the await, i.e. including what was fed meanwhile ---- *)
Fixpoint until_loop (p : bool) (fuel : nat) (cn : nat) (s : st) (d : list Z) (m : Z) (off : nat) (fs : list (list Z))
  : st * res * list Z :=
  match fuel with
  | O => (s, RFuel, [])
  | S f =>
      match find_from d off (buf s) with
      | Some i => (mk (knd s) (skipn (i + length d) (buf s)) (src s), RBytes (firstn i (buf s)), [])
      | None =>
          if (m <=? Z.of_nat (length (buf s)))%Z then (s, RNotFound, []) else
          if hit cn then (s, RCancelled, []) else
          let fd := hd [] fs in                          (* feed_data(fd) by another task during the wait *)
          let b1 := buf s ++ fd in
          match pull (knd s) default_max (src s) with    (* receive() without argument, also on a byte stream *)
          | None => (mk (knd s) b1 (src s), RIncomplete, fd)
          | Some (c, r) =>
              (* offset = max(searched_size - delimiter_size + 1, 0): truncated subtraction on nat *)
              let '(s', out, lg) :=
                until_loop p f (pred cn) (mk (knd s) (b1 ++ c) r) d m
                           (length (if p then b1 else buf s) + 1 - length d) (tl fs) in
              (s', out, fd ++ c ++ lg)
          end
      end
  end.

Definition step_gen (p : bool) (s : st) (o : op) : st * res * list Z :=
  match o with
  | Receive n fs => do_receive p 0 s n fs
  | Exactly n fs => do_exactly p 0 s n fs
  | Until d m fs => until_loop p (fuel_of s) 0 s d m 0 fs
  | Feed d => (mk (knd s) (buf s ++ d) (src s), RNone, d)
  | CReceive k n fs => match k with O => (s, RCancelled, []) | _ => do_receive p k s n fs end
  | CExactly k n fs => match k with O => (s, RCancelled, []) | _ => do_exactly p k s n fs end
  | CUntil k d m fs => match k with O => (s, RCancelled, []) | _ => until_loop p (fuel_of s) k s d m 0 fs end
  end.

Definition step_log : st -> op -> st * res * list Z := step_gen false.     (* HEAD *)
Definition step_pinned : st -> op -> st * res * list Z := step_gen true.   (* before F27/F28/F29 *)
Definition step (s : st) (o : op) : st * res := fst (step_log s o).

Definition init (k : kind) (chunks : list (list Z)) : st := mk k [] chunks.

(* ---- specification vocabulary (used by the theorems; not part of the executable path) ---- *)

(* receive_until without the offset optimisation: always searches the whole buffer *)
Fixpoint until_naive (fuel : nat) (cn : nat) (s : st) (d : list Z) (m : Z) (fs : list (list Z)) : st * res * list Z :=
  match fuel with
  | O => (s, RFuel, [])
  | S f =>
      match find_from d 0 (buf s) with
      | Some i => (mk (knd s) (skipn (i + length d) (buf s)) (src s), RBytes (firstn i (buf s)), [])
      | None =>
          if (m <=? Z.of_nat (length (buf s)))%Z then (s, RNotFound, []) else
          if hit cn then (s, RCancelled, []) else
          match pull (knd s) default_max (src s) with
          | None => (mk (knd s) (buf s ++ hd [] fs) (src s), RIncomplete, hd [] fs)
          | Some (c, r) =>
              let '(s', out, lg) := until_naive f (pred cn) (mk (knd s) ((buf s ++ hd [] fs) ++ c) r) d m (tl fs) in
              (s', out, hd [] fs ++ c ++ lg)
          end
      end
  end.

(* the environment's view of a receive_until that makes k fetches: what arrives, in order (for each fetch the data fed
   during the wait, then the chunk unless the stream has ended), and what the wrapped stream holds afterwards *)
Fixpoint fetch_arrivals (k : nat) (kd : kind) (sr : list (list Z)) (fs : list (list Z)) : list Z :=
  match k with
  | O => []
  | S k' =>
      hd [] fs ++ match pull kd default_max sr with
                  | None => []
                  | Some (c, r) => c ++ fetch_arrivals k' kd r (tl fs)
                  end
  end.
Fixpoint fetch_rest (k : nat) (kd : kind) (sr : list (list Z)) : list (list Z) :=
  match k with
  | O => sr
  | S k' => match pull kd default_max sr with None => sr | Some (c, r) => fetch_rest k' kd r end
  end.

(* d occurs in l at index i *)
Definition occurs_at (d l : list Z) (i : nat) : Prop :=
  exists pre post, l = pre ++ d ++ post /\ length pre = i.
Definition occurs (d l : list Z) : Prop := exists i, occurs_at d l i.

(* bytes removed from the front of the logical stream by a call: its result plus, for receive_until, the delimiter *)
Definition consumed_of (o : op) (r : res) : list Z :=
  match r with
  | RBytes b => b ++ match o with Until d _ _ | CUntil _ d _ _ => d | _ => [] end
  | _ => []
  end.

Definition failed (r : res) : Prop :=
  r = REnd \/ r = RIncomplete \/ r = RNotFound \/ r = RValueError \/ r = RCancelled.

Fixpoint consumed_run (s : st) (ops : list op) : list Z :=
  match ops with
  | [] => []
  | o :: r => let '(s1, out, lg) := step_log s o in consumed_of o out ++ consumed_run s1 r
  end.
(* everything that entered the wrapper during the run (fed between or during calls, read from the wrapped stream) *)
Fixpoint arrived_run (s : st) (ops : list op) : list Z :=
  match ops with
  | [] => []
  | o :: r => let '(s1, out, lg) := step_log s o in lg ++ arrived_run s1 r
  end.

(* ops that feed nothing *)
Definition no_feed (o : op) : bool :=
  match o with
  | Feed _ => false
  | Receive _ fs | CReceive _ _ fs | Until _ _ fs | CUntil _ _ _ fs | Exactly _ fs | CExactly _ _ fs =>
      match fs with [] => true | _ => false end
  end.
Definition chunks_nonempty (l : list (list Z)) : Prop := forall c, In c l -> c <> [].

(* ---- observable output of a step: code, result bytes, the `buffer` property ---- *)
Definition res_code (r : res) : Z :=
  match r with
  | RBytes _ => 0 | REnd => 1 | RIncomplete => 2 | RNotFound => 3 | RValueError => 4 | RNone => 5 | RCancelled => 6 | RFuel => 9
  end%Z.
Definition res_bytes (r : res) : list Z := match r with RBytes b => b | _ => [] end.

Definition observe (s : st) (r : res) : list Z :=
  res_code r :: nz (length (res_bytes r)) :: res_bytes r ++ nz (length (buf s)) :: buf s.

(* ---- codec: case = kind :: nchunks :: (len :: bytes)* :: ops
        op = 0 n | 1 n | 2 m len delimiter-bytes | 3 len bytes | 4 m len delimiter-bytes nfeeds (len :: bytes)*
           | 5 k n | 6 k n | 7 k m len delimiter-bytes nfeeds (len :: bytes)*   (cancelled receive / exactly / until)
           | 8 n nfeeds (len :: bytes)* | 9 k n nfeeds (len :: bytes)*          (receive with feeds during its waits)
           | 10 n nfeeds (len :: bytes)* | 11 k n nfeeds (len :: bytes)*        (receive_exactly with feeds during its waits)
        (op 2 = receive_until without feeds during the call; cases written before ops 4-7 existed decode unchanged) ---- *)
Definition take_list (l : list Z) : list Z * list Z :=
  match l with
  | [] => ([], [])
  | n :: r => (firstn (zn n) r, skipn (zn n) r)
  end.

Fixpoint decode_chunks (k : nat) (l : list Z) : list (list Z) * list Z :=
  match k with
  | O => ([], l)
  | S k' => let '(c, r) := take_list l in
            let '(cs, r') := decode_chunks k' r in (c :: cs, r')
  end.

Fixpoint decode_ops (fuel : nat) (l : list Z) : list op :=
  match fuel with
  | O => []
  | S f =>
      match l with
      | 0%Z :: n :: r => Receive n [] :: decode_ops f r
      | 1%Z :: n :: r => Exactly n [] :: decode_ops f r
      | 2%Z :: m :: r => let '(d, r') := take_list r in Until d m [] :: decode_ops f r'
      | 3%Z :: r => let '(d, r') := take_list r in Feed d :: decode_ops f r'
      | 4%Z :: m :: r =>
          let '(d, r') := take_list r in
          match r' with
          | nf :: r'' => let '(fs, r3) := decode_chunks (zn nf) r'' in Until d m fs :: decode_ops f r3
          | [] => []
          end
      | 5%Z :: k :: n :: r => CReceive (zn k) n [] :: decode_ops f r
      | 6%Z :: k :: n :: r => CExactly (zn k) n [] :: decode_ops f r
      | 7%Z :: k :: m :: r =>
          let '(d, r') := take_list r in
          match r' with
          | nf :: r'' => let '(fs, r3) := decode_chunks (zn nf) r'' in CUntil (zn k) d m fs :: decode_ops f r3
          | [] => []
          end
      | 8%Z :: n :: nf :: r => let '(fs, r3) := decode_chunks (zn nf) r in Receive n fs :: decode_ops f r3
      | 9%Z :: k :: n :: nf :: r => let '(fs, r3) := decode_chunks (zn nf) r in CReceive (zn k) n fs :: decode_ops f r3
      | 10%Z :: n :: nf :: r => let '(fs, r3) := decode_chunks (zn nf) r in Exactly n fs :: decode_ops f r3
      | 11%Z :: k :: n :: nf :: r => let '(fs, r3) := decode_chunks (zn nf) r in CExactly (zn k) n fs :: decode_ops f r3
      | _ => []
      end
  end.

Fixpoint run_obs (s : st) (ops : list op) : list Z :=
  match ops with
  | [] => []
  | o :: r => let '(s1, out) := step s o in observe s1 out ++ run_obs s1 r
  end.

Definition run_case (c : list Z) : list Z :=
  match c with
  | k :: nch :: r =>
      let '(chunks, r') := decode_chunks (zn nch) r in
      run_obs (init (if zb k then KObject else KByte) chunks) (decode_ops (length r') r')
  | _ => []
  end.

(* the same case on the tree before F27/F28/F29 (used by the refuted-pinned witnesses only) *)
Fixpoint run_obs_pinned (s : st) (ops : list op) : list Z :=
  match ops with
  | [] => []
  | o :: r => let '(s1, out, _) := step_pinned s o in observe s1 out ++ run_obs_pinned s1 r
  end.
