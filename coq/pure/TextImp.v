(* pure/TextImp: the language of the two methods of anyio.streams.text that carry logic - TextReceiveStream.receive and
   TextSendStream.send - and its interpreter (tie T for the text half of C16).  tools/translate_text.py regenerates
   pure/TextGen.v from the source on every run; pure/TextGenEq.v proves that interpreting the regenerated programs IS
   Text.tstep.  Definitions only.

   The incremental decoder / encoder objects are the codec model of Text.v (decode_chunk on the decoder state, encode with
   the encoder's BOM state); the transport is data (the chunks still to come: `wire`), its send() appends what it is given
   (the model's observation of what went out).  Locals: chunk, decoded, encoded. *)
From AV Require Import Base Text.

Inductive tatom :=
| TFetch            (* chunk = await self.transport_stream.receive() *)
| TDecode           (* decoded = self._decoder.decode(chunk) *)
| TEncode           (* encoded = self._encoder.encode(item) *)
| TSendEncoded.     (* await self.transport_stream.send(encoded) *)

Inductive tstmt :=
| TAtom (a : tatom)
| TIfDecodedReturn            (* if decoded: return decoded *)
| TSeq (a b : tstmt)
| TWhileTrue (b : tstmt).     (* while True: b   (b loop-free) *)

Record tenv := mkte { t_item : list Z; t_chunk : list Z; t_decoded : list Z; t_encoded : list Z }.

Inductive tout :=
| TOFall (e : tenv) (s : tst)
| TODone (s : tst) (r : tres)
| TOStuck.                       (* outside the language's meaning: no model result matches it *)

Definition run_tatom (a : tatom) (e : tenv) (s : tst) : tout :=
  match a with
  | TFetch =>
      match wire s with
      | [] => TODone s TEnd                                   (* EndOfStream from the transport passes through *)
      | c :: r => TOFall (mkte (t_item e) c (t_decoded e) (t_encoded e)) (mkt (tenc s) (dec s) r (started s))
      end
  | TDecode =>
      match decode_chunk (tenc s) (dec s) (t_chunk e) with
      | DErr x => TODone s (TDecErr x)                        (* the decoder object is left as it was *)
      | DOk d' o => TOFall (mkte (t_item e) (t_chunk e) o (t_encoded e)) (mkt (tenc s) d' (wire s) (started s))
      end
  | TEncode =>
      match encode (tenc s) (started s) (t_item e) with
      | None => TODone s TEncErr
      | Some b => TOFall (mkte (t_item e) (t_chunk e) (t_decoded e) b) (mkt (tenc s) (dec s) (wire s) true)
      end
  | TSendEncoded =>
      TOFall e (mkt (tenc s) (dec s) (wire s ++ [t_encoded e]) (started s))
  end.

(* loop-free part *)
Fixpoint run_tblock (p : tstmt) (e : tenv) (s : tst) : tout :=
  match p with
  | TAtom a => run_tatom a e s
  | TIfDecodedReturn => match t_decoded e with [] => TOFall e s | _ :: _ => TODone s (TStr (t_decoded e)) end
  | TSeq a b => match run_tblock a e s with TOFall e1 s1 => run_tblock b e1 s1 | o => o end
  | TWhileTrue _ => TOStuck             (* a loop anywhere but as the whole method body has no meaning here (the
                                            translator refuses it as well; audit finding: it used to be skipped silently) *)
  end.

Fixpoint tloop (fuel : nat) (b : tstmt) (e : tenv) (s : tst) : option tout :=
  match fuel with
  | O => None
  | S f => match run_tblock b e s with TOFall e1 s1 => tloop f b e1 s1 | o => Some o end
  end.

Definition texec (fuel : nat) (p : tstmt) (e : tenv) (s : tst) : option tout :=
  match p with
  | TWhileTrue b => tloop fuel b e s
  | _ => Some (run_tblock p e s)
  end.

Definition tenv0 (item : list Z) : tenv := mkte item [] [] [].

(* a call of receive(): the loop bound is one iteration per chunk the transport still holds, plus the one that meets
   the end; a call of send(item): falls off the end = returns None, the observation is what the transport was given *)
Definition g_receive (p : tstmt) (s : tst) : option (tst * tres) :=
  match texec (S (length (wire s))) p (tenv0 []) s with
  | Some (TODone s' r) => Some (s', r)
  | _ => None
  end.

Definition g_send (p : tstmt) (s : tst) (item : list Z) : option (tst * tres) :=
  match texec 1 p (tenv0 item) s with
  | Some (TODone s' r) => Some (s', r)
  | Some (TOFall e s') => Some (s', TSent (t_encoded e))
  | Some TOStuck | None => None
  end.
