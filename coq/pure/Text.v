(* pure/Text: executable model of anyio.streams.text.TextReceiveStream / TextSendStream
   (src/anyio/streams/text.py:33-110, HEAD = pinned tree + fix F10) together with the CPython 3.12 codecs they call
   (codecs.getincrementaldecoder(enc)(errors='strict'), codecs.getincrementalencoder(enc)(errors='strict')).  Definitions only.

   The codecs are CPython's, not AnyIO's: modelled environment.  Each incremental decoder is a byte-wise automaton
   whose state is exactly what codecs.BufferedIncrementalDecoder keeps: the undecoded tail `pend` (self.buffer) and,
   for 'utf-16'/'utf-32', the byte order chosen from the BOM (self.decoder).  `classify` looks at the pending bytes
   after one more byte has been appended and answers: a complete unit (output, pending cleared), need more, or
   invalid.  Invalid sequences are detected as early as CPython's strict decoders detect them (second byte of an
   overlong / surrogate / out-of-range UTF-8 sequence, second unit of a broken surrogate pair, ...).
   utf-8 and latin-1 are proved (TextProofs.v); utf-16/utf-32 are validated against `codecs` by the harness only.
   Native byte order is little endian (asserted by the harness). *)
From AV Require Import Base.
Open Scope Z_scope.

Inductive enc := Utf8 | Latin1 | Utf16 | Utf16LE | Utf16BE | Utf32 | Utf32LE | Utf32BE.

(* dmode: 0 = BOM not seen yet ('utf-16'/'utf-32' only), 1 = little endian (and the only mode of utf-8/latin-1),
          2 = big endian, 3 = no BOM found and at least one unit was decoded in native order: the decoder raises
              UnicodeError("... stream does not start with BOM") at the end of the decode() call. *)
Record dst := mkd { dmode : nat; pend : list Z }.

Inductive cls :=
| Out (cps : list Z) (newmode : option nat)   (* unit complete: emit cps, clear pending, maybe switch mode *)
| More                                        (* incomplete: keep pending *)
| Bad (e : Z).                                (* 2 = UnicodeDecodeError, 3 = other UnicodeError *)

Definition inr (lo hi b : Z) : bool := (lo <=? b) && (b <=? hi).
Definition is_cont (b : Z) : bool := inr 0x80 0xBF b.

(* ---- UTF-8 (Objects/stringlib/codecs.h utf8_decode, strict) ---- *)
Definition u8_second_ok (b0 b1 : Z) : bool :=
  if b0 =? 0xE0 then inr 0xA0 0xBF b1          (* no overlong 3-byte forms *)
  else if b0 =? 0xED then inr 0x80 0x9F b1     (* no surrogates *)
  else if b0 =? 0xF0 then inr 0x90 0xBF b1     (* no overlong 4-byte forms *)
  else if b0 =? 0xF4 then inr 0x80 0x8F b1     (* nothing above U+10FFFF *)
  else is_cont b1.

Definition u8_classify (p : list Z) : cls :=
  match p with
  | [b0] =>
      if inr 0 0x7F b0 then Out [b0] None
      else if inr 0xC2 0xF4 b0 then More       (* 80..C1 and F5..FF can never start a sequence *)
      else Bad 2
  | [b0; b1] =>
      if inr 0xC2 0xDF b0
      then (if is_cont b1 then Out [(b0 - 0xC0) * 64 + (b1 - 0x80)] None else Bad 2)
      else if u8_second_ok b0 b1 then More
      else if (b0 =? 0xED) && inr 0xA0 0xBF b1 then More   (* unicode_decode_utf8: "Truncated surrogate code in range
                                                              D800-DFFF" at the very end of the data is reported as
                                                              incomplete when not final; it fails with the next byte *)
      else Bad 2
  | [b0; b1; b2] =>
      if negb (is_cont b2) || negb (u8_second_ok b0 b1) then Bad 2
      else if inr 0xE0 0xEF b0
      then Out [(b0 - 0xE0) * 4096 + (b1 - 0x80) * 64 + (b2 - 0x80)] None
      else More
  | [b0; b1; b2; b3] =>
      if is_cont b3
      then Out [(b0 - 0xF0) * 262144 + (b1 - 0x80) * 4096 + (b2 - 0x80) * 64 + (b3 - 0x80)] None
      else Bad 2
  | _ => Bad 2
  end.

(* ---- UTF-16 ---- *)
Definition unit16 (le : bool) (b0 b1 : Z) : Z := if le then b0 + 256 * b1 else 256 * b0 + b1.
Definition is_hi (u : Z) : bool := inr 0xD800 0xDBFF u.
Definition is_lo (u : Z) : bool := inr 0xDC00 0xDFFF u.

Definition u16_classify (le : bool) (nm : option nat) (p : list Z) : cls :=
  match p with
  | [_] => More
  | [b0; b1] =>
      let u := unit16 le b0 b1 in
      if is_lo u then Bad 2 else if is_hi u then More else Out [u] nm
  | [_; _; _] => More
  | [b0; b1; b2; b3] =>
      let u := unit16 le b0 b1 in
      let v := unit16 le b2 b3 in
      if is_lo v then Out [0x10000 + (u - 0xD800) * 1024 + (v - 0xDC00)] nm else Bad 2
  | _ => Bad 2
  end.

(* encodings.utf_16.IncrementalDecoder before the byte order is known: utf_16_ex_decode(input, errors, 0, final) *)
Definition u16_detect (p : list Z) : cls :=
  match p with
  | [b0; b1] =>
      if (b0 =? 0xFF) && (b1 =? 0xFE) then Out [] (Some 1%nat)
      else if (b0 =? 0xFE) && (b1 =? 0xFF) then Out [] (Some 2%nat)
      else u16_classify true (Some 3%nat) p
  | _ => u16_classify true (Some 3%nat) p
  end.

(* ---- UTF-32 ---- *)
Definition unit32 (le : bool) (b0 b1 b2 b3 : Z) : Z :=
  if le then b0 + 256 * b1 + 65536 * b2 + 16777216 * b3
  else 16777216 * b0 + 65536 * b1 + 256 * b2 + b3.

Definition valid_scalar (cp : Z) : bool := inr 0 0x10FFFF cp && negb (inr 0xD800 0xDFFF cp).

Definition u32_classify (le : bool) (nm : option nat) (p : list Z) : cls :=
  match p with
  | [_] => More
  | [_; _] => More
  | [_; _; _] => More
  | [b0; b1; b2; b3] =>
      let u := unit32 le b0 b1 b2 b3 in
      if valid_scalar u then Out [u] nm else Bad 2
  | _ => Bad 2
  end.

Definition u32_detect (p : list Z) : cls :=
  match p with
  | [b0; b1; b2; b3] =>
      if (b0 =? 0xFF) && (b1 =? 0xFE) && (b2 =? 0) && (b3 =? 0) then Out [] (Some 1%nat)
      else if (b0 =? 0) && (b1 =? 0) && (b2 =? 0xFE) && (b3 =? 0xFF) then Out [] (Some 2%nat)
      else u32_classify true (Some 3%nat) p
  | _ => u32_classify true (Some 3%nat) p
  end.

Definition latin1_classify (p : list Z) : cls :=
  match p with
  | [b] => Out [b] None
  | _ => Bad 2
  end.

Definition classify (e : enc) (mode : nat) (p : list Z) : cls :=
  match e with
  | Utf8 => u8_classify p
  | Latin1 => latin1_classify p
  | Utf16 | Utf16LE | Utf16BE =>
      match mode with
      | O => u16_detect p
      | 2%nat => u16_classify false None p
      | _ => u16_classify true None p
      end
  | Utf32 | Utf32LE | Utf32BE =>
      match mode with
      | O => u32_detect p
      | 2%nat => u32_classify false None p
      | _ => u32_classify true None p
      end
  end.

Definition init_mode (e : enc) : nat :=
  match e with
  | Utf16 | Utf32 => 0
  | Utf16BE | Utf32BE => 2
  | _ => 1
  end%nat.
Definition dinit (e : enc) : dst := mkd (init_mode e) [].

(* result of feeding bytes to a decoder *)
Inductive dr :=
| DOk (s : dst) (out : list Z)
| DErr (c : Z).

(* one byte *)
Definition dstep (e : enc) (s : dst) (b : Z) : dr :=
  let p := pend s ++ [b] in
  match classify e (dmode s) p with
  | Out cps nm => DOk (mkd (match nm with Some m => m | None => dmode s end) []) cps
  | More => DOk (mkd (dmode s) p) []
  | Bad c => DErr c
  end.

Fixpoint run_bytes (e : enc) (s : dst) (bs : list Z) : dr :=
  match bs with
  | [] => DOk s []
  | b :: r =>
      match dstep e s b with
      | DErr c => DErr c
      | DOk s1 o1 =>
          match run_bytes e s1 r with
          | DErr c => DErr c
          | DOk s2 o2 => DOk s2 (o1 ++ o2)
          end
      end
  end.

(* the check made after the C decoder returns: "stream does not start with BOM" *)
Definition chunk_end (s : dst) : option Z :=
  match dmode s with 3%nat => Some 3 | _ => None end.

(* IncrementalDecoder.decode(chunk): on an exception the decoder keeps its previous state (self.buffer is assigned
   only after _buffer_decode returned), which the caller expresses by keeping the old dst on DErr *)
Definition decode_chunk (e : enc) (s : dst) (c : list Z) : dr :=
  match run_bytes e s c with
  | DErr x => DErr x
  | DOk s' o => match chunk_end s' with Some x => DErr x | None => DOk s' o end
  end.

(* chunk after chunk (specification vocabulary: what any split of the input produces in total) *)
Fixpoint decode_seq (e : enc) (s : dst) (w : list (list Z)) : dr :=
  match w with
  | [] => DOk s []
  | c :: r =>
      match decode_chunk e s c with
      | DErr x => DErr x
      | DOk s1 o1 =>
          match decode_seq e s1 r with
          | DErr x => DErr x
          | DOk s2 o2 => DOk s2 (o1 ++ o2)
          end
      end
  end.

(* ---- encoders ---- *)
Definition u8_enc1 (cp : Z) : list Z :=
  if cp <? 0x80 then [cp]
  else if cp <? 0x800 then [0xC0 + cp / 64; 0x80 + cp mod 64]
  else if cp <? 0x10000 then [0xE0 + cp / 4096; 0x80 + (cp / 64) mod 64; 0x80 + cp mod 64]
  else [0xF0 + cp / 262144; 0x80 + (cp / 4096) mod 64; 0x80 + (cp / 64) mod 64; 0x80 + cp mod 64].

Definition put16 (le : bool) (u : Z) : list Z :=
  if le then [u mod 256; u / 256] else [u / 256; u mod 256].
Definition u16_enc1 (le : bool) (cp : Z) : list Z :=
  if cp <? 0x10000 then put16 le cp
  else put16 le (0xD800 + (cp - 0x10000) / 1024) ++ put16 le (0xDC00 + (cp - 0x10000) mod 1024).
Definition u32_enc1 (le : bool) (cp : Z) : list Z :=
  if le then [cp mod 256; (cp / 256) mod 256; (cp / 65536) mod 256; cp / 16777216]
  else [cp / 16777216; (cp / 65536) mod 256; (cp / 256) mod 256; cp mod 256].

(* byte order mark written by the 'utf-16' / 'utf-32' encoders (native order = little endian) *)
Definition bom (e : enc) : list Z :=
  match e with
  | Utf16 => [0xFF; 0xFE]
  | Utf32 => [0xFF; 0xFE; 0; 0]
  | _ => []
  end.

(* the encoded code units without any BOM; None = UnicodeEncodeError ('strict') *)
Definition encode_body (e : enc) (s : list Z) : option (list Z) :=
  match e with
  | Utf8 => if forallb valid_scalar s then Some (concat (map u8_enc1 s)) else None
  | Latin1 => if forallb (inr 0 255) s then Some s else None
  | Utf16 | Utf16LE => if forallb valid_scalar s then Some (concat (map (u16_enc1 true) s)) else None
  | Utf16BE => if forallb valid_scalar s then Some (concat (map (u16_enc1 false) s)) else None
  | Utf32 | Utf32LE => if forallb valid_scalar s then Some (concat (map (u32_enc1 true) s)) else None
  | Utf32BE => if forallb valid_scalar s then Some (concat (map (u32_enc1 false) s)) else None
  end.

(* HEAD (text.py:96-102 after the fix F10): codecs.getincrementalencoder(enc)(errors).encode(s).  The incremental
   encoders of 'utf-16'/'utf-32' write the BOM with their first SUCCESSFUL encode() only (`self.encoder` is set after
   utf_16_encode returned); `started` is that piece of encoder state.  All other encoders are stateless. *)
Definition encode (e : enc) (started : bool) (s : list Z) : option (list Z) :=
  match encode_body e s with
  | None => None
  | Some b => Some ((if started then [] else bom e) ++ b)
  end.

(* the pinned tree before the fix: the stateless codecs.getencoder(enc)(s, errors)[0] - a BOM with every call *)
Definition encode_pinned (e : enc) (s : list Z) : option (list Z) := encode e false s.

(* strings sent one after the other through one TextSendStream: the chunks handed to the transport *)
Fixpoint send_all (e : enc) (started : bool) (ss : list (list Z)) : option (list (list Z)) :=
  match ss with
  | [] => Some []
  | s :: r =>
      match encode e started s with
      | None => None
      | Some b => match send_all e true r with None => None | Some bs => Some (b :: bs) end
      end
  end.

(* ---- the stream wrappers over a loop-back transport: `wire` = chunks the receive side will be given, in order;
        send() appends its encoded item as one chunk ---- *)
Record tst := mkt { tenc : enc; dec : dst; wire : list (list Z); started : bool (* encoder wrote its BOM *) }.

Inductive top :=
| TRecv                  (* await TextReceiveStream.receive() *)
| TSend (s : list Z).    (* await TextSendStream.send(s) *)

Inductive tres :=
| TStr (s : list Z)
| TEnd                   (* EndOfStream from the transport passes through *)
| TDecErr (c : Z)        (* 2 = UnicodeDecodeError, 3 = UnicodeError *)
| TSent (b : list Z)     (* what the transport's send() was given *)
| TEncErr.               (* UnicodeEncodeError; nothing sent *)

(* receive (lines 60-65): loop until the decoder produces output *)
Fixpoint recv_loop (e : enc) (d : dst) (w : list (list Z)) : dst * list (list Z) * tres :=
  match w with
  | [] => (d, [], TEnd)
  | c :: r =>
      match decode_chunk e d c with
      | DErr x => (d, r, TDecErr x)
      | DOk d' o =>
          match o with
          | [] => recv_loop e d' r
          | _ :: _ => (d', r, TStr o)
          end
      end
  end.

Definition tstep (s : tst) (o : top) : tst * tres :=
  match o with
  | TRecv => let '(d, w, r) := recv_loop (tenc s) (dec s) (wire s) in (mkt (tenc s) d w (started s), r)
  | TSend x =>
      match encode (tenc s) (started s) x with
      | None => (s, TEncErr)
      | Some b => (mkt (tenc s) (dec s) (wire s ++ [b]) true, TSent b)
      end
  end.

Definition tinit (e : enc) (w : list (list Z)) : tst := mkt e (dinit e) w false.

(* concatenation of the strings among a list of results *)
Definition strs (outs : list tres) : list Z :=
  concat (map (fun r => match r with TStr x => x | _ => [] end) outs).
Definition is_decerr (r : tres) : bool := match r with TDecErr _ => true | _ => false end.

(* ---- codec: case = enc :: nchunks :: (len :: bytes)* :: ops;  op = 0 (receive) | 1 len code-points (send)
        observation per op = code :: len :: payload ---- *)
Definition enc_of (z : Z) : enc :=
  match z with
  | 0 => Utf8 | 1 => Latin1 | 2 => Utf16 | 3 => Utf16LE | 4 => Utf16BE | 5 => Utf32 | 6 => Utf32LE | _ => Utf32BE
  end.

Definition take_list (l : list Z) : list Z * list Z :=
  match l with
  | [] => ([], [])
  | n :: r => (firstn (zn n) r, skipn (zn n) r)
  end.

Fixpoint decode_chunks (k : nat) (l : list Z) : list (list Z) * list Z :=
  match k with
  | O => ([], l)
  | S k' => let '(c, r) := take_list l in
            let '(cs, r') := decode_chunks k' r in (c :: cs, r')
  end.

Fixpoint decode_ops (fuel : nat) (l : list Z) : list top :=
  match fuel with
  | O => []
  | S f =>
      match l with
      | 0 :: r => TRecv :: decode_ops f r
      | 1 :: r => let '(x, r') := take_list r in TSend x :: decode_ops f r'
      | _ => []
      end
  end.

Definition observe (r : tres) : list Z :=
  match r with
  | TStr x => 0 :: nz (length x) :: x
  | TEnd => [1; 0]
  | TDecErr c => [c; 0]
  | TSent b => 4 :: nz (length b) :: b
  | TEncErr => [5; 0]
  end.

Fixpoint run_obs (s : tst) (ops : list top) : list Z :=
  match ops with
  | [] => []
  | o :: r => let '(s1, out) := tstep s o in observe out ++ run_obs s1 r
  end.

Definition run_case (c : list Z) : list Z :=
  match c with
  | e :: nch :: r =>
      let '(chunks, r') := decode_chunks (zn nch) r in
      run_obs (tinit (enc_of e) chunks) (decode_ops (length r') r')
  | _ => []
  end.
