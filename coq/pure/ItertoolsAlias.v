(* Aliasing: the same iterator object at several argument positions.  The aliased models of pure/Itertools.v agree
   with the standard-library semantics over shared underlying iterators, for every position -> iterator map. *)
From AV Require Import Base Itertools ItertoolsProofs.
From Coq Require Import ZifyBool.

(* ------------------------------------------------------------------------------------------------ *)
(* chain, product, starmap, compress *)
Lemma chain_alias_go_yields ko kd : forall ps st y, yields (chain_alias_go ko kd st ps y) = concat (drain st ps).
Proof.
  induction ps as [|i r IH]; intros st y; cbn [chain_alias_go drain concat]; ysimp; [reflexivity|].
  now rewrite iter_all_yields, IH.
Qed.

Theorem chain_alias_agrees : forall ko kd st ps, outcome (chain_alias_model ko kd st ps) = chain_alias_spec st ps.
Proof. intros. unfold outcome, chain_alias_model, chain_alias_spec. cbn. now rewrite chain_alias_go_yields. Qed.

Lemma yields_collect_alias {B} kd : forall ps st, yields (@collect_alias B kd st ps) = [].
Proof. induction ps as [|i r IH]; intros st; cbn; [reflexivity|]. now rewrite yields_app, yields_collect, IH. Qed.

Theorem product_alias_agrees : forall rep kd st ps,
  outcome (product_alias_model rep kd st ps) = product_alias_spec rep st ps.
Proof.
  intros. unfold outcome, product_alias_model, product_alias_spec, product_spec.
  destruct (rep <? 0)%Z; cbn [fst snd]; [reflexivity|].
  now rewrite yields_app, yields_collect_alias, yields_emit_sync.
Qed.

Lemma starmap_alias_go_yields f ko kd : forall ps st y,
  yields (starmap_alias_go f ko kd st ps y) = map f (drain st ps).
Proof. induction ps as [|i r IH]; intros st y; cbn; ysimp; [reflexivity|]. now rewrite IH. Qed.

Theorem starmap_alias_agrees : forall f ko kd st ps,
  outcome (starmap_alias_model f ko kd st ps) = starmap_alias_spec f st ps.
Proof. intros. unfold outcome, starmap_alias_model, starmap_alias_spec. cbn. now rewrite starmap_alias_go_yields. Qed.

Lemma compress_self_go_yields k : forall n l y, length l <= n ->
  yields (compress_self_go k l y) = map fst (filter (fun p => truthy (snd p)) (pair_up l)).
Proof.
  induction n as [|n IH]; intros l y H.
  - destruct l; [cbn; ysimp; reflexivity|cbn in H; lia].
  - destruct l as [|x [|b r]]; cbn [compress_self_go pair_up filter map]; ysimp; try reflexivity.
    cbn [snd]. cbn [length] in H. destruct (truthy b); cbn [yields map fst]; rewrite IH by lia; reflexivity.
Qed.

Theorem compress_self_agrees : forall s, outcome (compress_self_model s) = compress_self_spec (snd s).
Proof.
  intros [k l]. unfold outcome, compress_self_model, compress_self_spec. cbn [fst snd].
  now rewrite (compress_self_go_yields k (length l) l false (le_n _)).
Qed.

(* distinct sources are the special case: no index occurs twice *)
Lemma drain_distinct : forall ps st, NoDup ps -> drain st ps = map st ps.
Proof.
  induction ps as [|i r IH]; intros st H; [reflexivity|]. inversion H as [|? ? Hi Hr]; subst.
  cbn [drain map]. f_equal. rewrite (IH _ Hr). apply map_ext_in. intros j Hj.
  apply upd_other. intros ->. contradiction.
Qed.

Theorem chain_alias_spec_distinct : forall st ps, NoDup ps -> chain_alias_spec st ps = chain_spec (map st ps).
Proof. intros. unfold chain_alias_spec, chain_spec. now rewrite drain_distinct. Qed.

Theorem product_alias_spec_distinct : forall rep st ps, NoDup ps ->
  product_alias_spec rep st ps = product_spec rep (map st ps).
Proof. intros. unfold product_alias_spec. now rewrite drain_distinct. Qed.

Theorem starmap_alias_spec_distinct : forall f st ps, NoDup ps ->
  starmap_alias_spec f st ps = starmap_spec f (map st ps).
Proof. intros. unfold starmap_alias_spec, starmap_spec. now rewrite drain_distinct. Qed.

(* ------------------------------------------------------------------------------------------------ *)
(* zip_longest *)
Definition count_act (ps : list zpos) : nat := length (filter p_active ps).

(* number of positions that find their iterator exhausted in this round *)
Fixpoint zs_newly (st : istore) (ps : list zpos) : nat :=
  match ps with
  | [] => 0
  | p :: rest =>
      if p_active p then
        match st (p_idx p) with
        | _ :: xs => zs_newly (upd st (p_idx p) xs) rest
        | [] => S (zs_newly st rest)
        end
      else zs_newly st rest
  end.

Lemma zs_round_count fill : forall ps st,
  count_act (snd (zs_round fill st ps)) + zs_newly st ps = count_act ps.
Proof.
  induction ps as [|p rest IH]; intros st; [reflexivity|].
  cbn [zs_round zs_newly]. unfold count_act in *. cbn [filter].
  destruct (p_active p) eqn:Ea.
  - destruct (st (p_idx p)) as [|x xs].
    + specialize (IH st). destruct (zs_round fill st rest) as [[vs st'] ps']. cbn [snd filter p_active length] in *. lia.
    + specialize (IH (upd st (p_idx p) xs)). destruct (zs_round fill (upd st (p_idx p) xs) rest) as [[vs st'] ps'].
      cbn [snd filter] in *. rewrite Ea. cbn [length]. lia.
  - specialize (IH st). destruct (zs_round fill st rest) as [[vs st'] ps']. cbn [snd filter] in *. rewrite Ea. lia.
Qed.

Lemma zla_round_completes fill kd y : forall ps st na,
  zs_newly st ps < na ->
  exists ev, zla_round fill kd st ps na y =
             (ev, snd (fst (zs_round fill st ps)),
              Some (fst (fst (zs_round fill st ps)), snd (zs_round fill st ps), na - zs_newly st ps))
             /\ yields ev = [].
Proof.
  induction ps as [|p rest IH]; intros st na H.
  - exists []. cbn. rewrite Nat.sub_0_r. auto.
  - cbn [zla_round zs_round zs_newly] in *. destruct (p_active p) eqn:Ea; cbn [negb].
    + destruct (st (p_idx p)) as [|x xs].
      * destruct na as [|[|na]]; [lia|lia|]. cbn [pred].
        destruct (IH st (S na) ltac:(lia)) as (ev & E & Y). rewrite E.
        destruct (zs_round fill st rest) as [[vs st'] ps']. cbn [fst snd].
        exists (pre (kd (p_idx p)) ++ ev). split; [reflexivity|ysimp; exact Y].
      * destruct (IH (upd st (p_idx p) xs) na H) as (ev & E & Y). rewrite E.
        destruct (zs_round fill (upd st (p_idx p) xs) rest) as [[vs st'] ps']. cbn [fst snd].
        exists (pre (kd (p_idx p)) ++ ev). split; [reflexivity|ysimp; exact Y].
    + destruct (IH st na H) as (ev & E & Y). rewrite E.
      destruct (zs_round fill st rest) as [[vs st'] ps']. cbn [fst snd].
      exists ev. split; [reflexivity|exact Y].
Qed.

Lemma zla_round_returns fill kd y : forall ps st na,
  1 <= na -> na <= zs_newly st ps ->
  exists ev st'', zla_round fill kd st ps na y = (ev, st'', None) /\ yields ev = [] /\
                  (y = false -> passes_ck ev = true).
Proof.
  induction ps as [|p rest IH]; intros st na H1 H2.
  - cbn in H2. lia.
  - cbn [zla_round zs_newly] in *. destruct (p_active p) eqn:Ea; cbn [negb].
    + destruct (st (p_idx p)) as [|x xs].
      * destruct na as [|[|na]]; [lia| |]; cbn [pred].
        -- exists (pre (kd (p_idx p)) ++ tail y), st. split; [reflexivity|]. split; [ysimp; reflexivity|].
           intros ->. apply passes_app_r. reflexivity.
        -- destruct (IH st (S na) ltac:(lia) ltac:(lia)) as (ev & st2 & E & Y & C). rewrite E.
           exists (pre (kd (p_idx p)) ++ ev), st2. split; [reflexivity|]. split; [ysimp; exact Y|].
           intros Hy. apply passes_app_r, (C Hy).
      * destruct (IH (upd st (p_idx p) xs) na H1 H2) as (ev & st2 & E & Y & C). rewrite E.
        exists (pre (kd (p_idx p)) ++ ev), st2. split; [reflexivity|]. split; [ysimp; exact Y|].
        intros Hy. apply passes_app_r, (C Hy).
    + destruct (IH st na H1 H2) as (ev & st2 & E & Y & C). rewrite E. exists ev, st2. auto.
Qed.

(* the measure: total number of elements still reachable through the positions *)
Definition zmeasure (st : istore) (ps : list zpos) : nat := alias_measure st (map p_idx ps).

Lemma zs_round_idx fill : forall ps st, map p_idx (snd (zs_round fill st ps)) = map p_idx ps.
Proof.
  induction ps as [|p rest IH]; intros st; [reflexivity|]. cbn [zs_round].
  destruct (p_active p).
  - destruct (st (p_idx p)) as [|x xs].
    + specialize (IH st). destruct (zs_round fill st rest) as [[vs st'] ps']. cbn [snd map p_idx] in *. now rewrite IH.
    + specialize (IH (upd st (p_idx p) xs)). destruct (zs_round fill (upd st (p_idx p) xs) rest) as [[vs st'] ps'].
      cbn [snd map] in *. now rewrite IH.
  - specialize (IH st). destruct (zs_round fill st rest) as [[vs st'] ps']. cbn [snd map] in *. now rewrite IH.
Qed.

Lemma upd_len_le (st : istore) i (xs : list Z) x j : st i = x :: xs -> length (upd st i xs j) <= length (st j).
Proof.
  intros E. unfold upd. destruct (Nat.eqb_spec j i); [subst; rewrite E; cbn; lia|lia].
Qed.

Lemma zs_round_shrinks fill : forall ps st i, length (snd (fst (zs_round fill st ps)) i) <= length (st i).
Proof.
  induction ps as [|p rest IH]; intros st i; [cbn; lia|]. cbn [zs_round].
  destruct (p_active p).
  - destruct (st (p_idx p)) as [|x xs] eqn:E.
    + specialize (IH st i). destruct (zs_round fill st rest) as [[vs st'] ps']. exact IH.
    + specialize (IH (upd st (p_idx p) xs) i). destruct (zs_round fill (upd st (p_idx p) xs) rest) as [[vs st'] ps'].
      cbn [fst snd] in *. pose proof (upd_len_le st (p_idx p) xs x i E). lia.
  - specialize (IH st i). destruct (zs_round fill st rest) as [[vs st'] ps']. exact IH.
Qed.

Lemma zs_round_active_shrinks fill : forall ps st p',
  In p' (snd (zs_round fill st ps)) -> p_active p' = true ->
  length (snd (fst (zs_round fill st ps)) (p_idx p')) < length (st (p_idx p')).
Proof.
  induction ps as [|p rest IH]; intros st p' Hin Hact; [destruct Hin|]. cbn [zs_round] in *.
  destruct (p_active p) eqn:Ea.
  - destruct (st (p_idx p)) as [|x xs] eqn:E.
    + specialize (IH st p'). destruct (zs_round fill st rest) as [[vs st'] ps']. cbn [fst snd] in *.
      destruct Hin as [<-|Hin]; [cbn in Hact; discriminate|]. now apply IH.
    + specialize (IH (upd st (p_idx p) xs) p').
      pose proof (zs_round_shrinks fill rest (upd st (p_idx p) xs) (p_idx p)) as Hs.
      destruct (zs_round fill (upd st (p_idx p) xs) rest) as [[vs st'] ps']. cbn [fst snd] in *.
      destruct Hin as [<-|Hin].
      * rewrite upd_same in Hs. rewrite E. cbn [length]. lia.
      * specialize (IH Hin Hact). pose proof (upd_len_le st (p_idx p) xs x (p_idx p') E). lia.
  - specialize (IH st p'). destruct (zs_round fill st rest) as [[vs st'] ps']. cbn [fst snd] in *.
    destruct Hin as [<-|Hin]; [congruence|]. now apply IH.
Qed.

Lemma sum_lt (f g : nat -> nat) : forall l, (forall i, f i <= g i) -> (exists j, In j l /\ f j < g j) ->
  fold_right (fun i a => f i + a) 0 l < fold_right (fun i a => g i + a) 0 l.
Proof.
  induction l as [|i r IH]; intros Hle (j & Hin & Hlt); [destruct Hin|]. cbn [fold_right].
  assert (Hr : fold_right (fun i a => f i + a) 0 r <= fold_right (fun i a => g i + a) 0 r).
  { clear -Hle. induction r as [|k r IHr]; cbn; [lia|]. specialize (Hle k). lia. }
  destruct Hin as [->|Hin].
  - lia.
  - specialize (IH Hle (ex_intro _ j (conj Hin Hlt))). specialize (Hle i). lia.
Qed.

Lemma zs_round_measure fill st ps :
  existsb p_active (snd (zs_round fill st ps)) = true ->
  zmeasure (snd (fst (zs_round fill st ps))) (snd (zs_round fill st ps)) < zmeasure st ps.
Proof.
  intros H. unfold zmeasure, alias_measure. rewrite zs_round_idx.
  apply (sum_lt (fun i => length (snd (fst (zs_round fill st ps)) i)) (fun i => length (st i))).
  - intros i. apply zs_round_shrinks.
  - apply existsb_exists in H as (p' & Hin & Hact). exists (p_idx p'). split.
    + rewrite <- (zs_round_idx fill ps st). now apply in_map.
    + now apply zs_round_active_shrinks.
Qed.

Lemma count_act_zero ps : existsb p_active ps = false -> count_act ps = 0.
Proof.
  unfold count_act. induction ps as [|p r IH]; [reflexivity|]. cbn. destruct (p_active p); cbn; [discriminate|exact IH].
Qed.

Lemma count_act_pos ps : existsb p_active ps = true -> 1 <= count_act ps.
Proof.
  unfold count_act. induction ps as [|p r IH]; [discriminate|]. cbn. destruct (p_active p); cbn; [lia|exact IH].
Qed.

Lemma zla_loop_agrees fill kd : forall fuel st ps y,
  1 <= count_act ps -> zmeasure st ps < fuel ->
  exists t rows, zla_loop fuel fill kd st ps (count_act ps) y = Some t /\
                 zs_rows fuel fill st ps = Some rows /\ yields t = rows /\
                 (y = false -> rows = [] -> passes_ck t = true).
Proof.
  induction fuel as [|fuel IH]; intros st ps y Hna Hf; [lia|].
  cbn [zla_loop zs_rows].
  pose proof (zs_round_count fill ps st) as Hc.
  pose proof (zs_round_measure fill st ps) as Hm.
  destruct (existsb p_active (snd (zs_round fill st ps))) eqn:E.
  - apply count_act_pos in E as Hpos.
    destruct (zla_round_completes fill kd y ps st (count_act ps) ltac:(lia)) as (ev & R & Y). rewrite R.
    specialize (Hm eq_refl).
    replace (count_act ps - zs_newly st ps) with (count_act (snd (zs_round fill st ps))) by lia.
    destruct (zs_round fill st ps) as [[vs st'] ps'] eqn:Z. cbn [fst snd] in *. rewrite E.
    destruct (IH st' ps' true Hpos ltac:(lia)) as (t & rows & L & S & Yt & _).
    rewrite L, S. exists (ev ++ Yield vs :: t), (vs :: rows). split; [reflexivity|]. split; [reflexivity|].
    split; [rewrite yields_app, Y; cbn; now rewrite Yt|discriminate].
  - apply count_act_zero in E as Hz.
    destruct (zla_round_returns fill kd y ps st (count_act ps) Hna ltac:(lia)) as (ev & st2 & R & Y & C). rewrite R.
    destruct (zs_round fill st ps) as [[vs st'] ps'] eqn:Z. cbn [fst snd] in *. rewrite E.
    exists ev, []. auto.
Qed.

Lemma count_act_init ps : count_act (map (fun i => mkP i true) ps) = length ps.
Proof. unfold count_act. induction ps; cbn; [reflexivity|]. now rewrite IHps. Qed.

Lemma zmeasure_init st ps : zmeasure st (map (fun i => mkP i true) ps) = alias_measure st ps.
Proof. unfold zmeasure. rewrite map_map. cbn. now rewrite map_id. Qed.

(* for every store and every position -> iterator map (aliased or not): neither side runs out of fuel and the
   model yields exactly the rows of the shared-iterator semantics *)
Theorem zip_longest_alias_agrees : forall fill kd st ps,
  exists rows, zip_longest_alias_spec fill st ps = Some rows /\
               zip_longest_alias_run fill kd st ps <> None /\
               outcome (zip_longest_alias_model fill kd st ps) = (rows, None).
Proof.
  intros fill kd st ps. unfold zip_longest_alias_spec, zip_longest_alias_model, zip_longest_alias_run.
  destruct ps as [|i r].
  - exists []. cbn. repeat split. discriminate.
  - set (ps := i :: r).
    destruct (zla_loop_agrees fill kd (S (alias_measure st ps)) st (map (fun i => mkP i true) ps) false)
      as (t & rows & L & S & Y & _).
    + rewrite count_act_init. cbn. lia.
    + rewrite zmeasure_init. lia.
    + rewrite count_act_init in L. exists rows. rewrite L. split; [exact S|]. split; [discriminate|].
      unfold outcome. cbn [fst snd]. now rewrite Y.
Qed.

(* C08 for the aliased calls: positions whose iterators are all synchronous, or a traversal that yields nothing,
   pass a checkpoint (a cancellation check and a yield), and no element precedes the first check *)
Lemma zla_round_starts fill kd st p rest na y :
  p_active p = true -> is_sync (kd (p_idx p)) = true -> ckd (fst (fst (zla_round fill kd st (p :: rest) na y))).
Proof.
  intros Ha Hs. cbn [zla_round]. rewrite Ha. cbn [negb].
  destruct (st (p_idx p)).
  - destruct (pred na); [cbn [fst]; now apply sync_pre|].
    destruct (zla_round fill kd st rest (S n) y) as [[ev st'] r]. cbn [fst]. now apply sync_pre.
  - destruct (zla_round fill kd (upd st (p_idx p) l) rest na y) as [[ev st'] r]. cbn [fst]. now apply sync_pre.
Qed.

Theorem zip_longest_alias_checkpoints : forall fill kd st ps,
  forallb (fun i => is_sync (kd i)) ps = true \/ yields (fst (zip_longest_alias_model fill kd st ps)) = [] ->
  ckd (fst (zip_longest_alias_model fill kd st ps)).
Proof.
  intros fill kd st ps. unfold zip_longest_alias_model, zip_longest_alias_run.
  destruct ps as [|i r]; [intros _; split; reflexivity|]. set (ps := i :: r).
  destruct (zla_loop_agrees fill kd (S (alias_measure st ps)) st (map (fun i => mkP i true) ps) false)
    as (t & rows & L & S & Y & C).
  - rewrite count_act_init. cbn. lia.
  - rewrite zmeasure_init. lia.
  - rewrite count_act_init in L. rewrite L. cbn [fst]. intros [H|H].
    + cbn [zla_loop] in L. unfold ps in L. cbn [map] in L.
      cbn [forallb] in H. apply andb_prop in H as [H _].
      match type of L with
      | context [zla_round fill kd st (?p :: ?rs) ?n false] =>
          pose proof (zla_round_starts fill kd st p rs n false eq_refl H) as St;
          destruct (zla_round fill kd st (p :: rs) n false) as [[ev st'] [[[vs ps'] na']|]] eqn:R
      end; cbn [fst] in St.
      * destruct (zla_loop (alias_measure st (i :: r)) fill kd st' ps' na' true) as [t'|]; [|discriminate].
        injection L as <-. now apply ckd_app_l.
      * injection L as <-. exact St.
    + apply good_use; [left; apply C; [reflexivity|now rewrite <- Y]|exact H].
Qed.

Lemma chain_alias_go_good ko kd : forall ps st, good (chain_alias_go ko kd st ps false).
Proof.
  induction ps as [|i r IH]; intros st; cbn [chain_alias_go]; [apply good_tail|].
  apply good_app_r. destruct (st i) as [|x xs] eqn:E; cbn [iter_all nonempty orb].
  - apply good_app_r, IH.
  - rewrite <- app_assoc. cbn [app]. apply good_yield.
Qed.

Theorem chain_alias_checkpoints : forall ko kd st ps,
  is_sync ko = true \/ yields (fst (chain_alias_model ko kd st ps)) = [] ->
  ckd (fst (chain_alias_model ko kd st ps)).
Proof.
  intros ko kd st ps [H|H]; unfold chain_alias_model in *; cbn [fst] in *.
  - destruct ps; cbn [chain_alias_go]; now apply sync_pre.
  - apply good_use; [apply chain_alias_go_good|exact H].
Qed.

Theorem product_alias_checkpoints : forall rep kd st ps,
  snd (product_alias_model rep kd st ps) = None -> ckd (fst (product_alias_model rep kd st ps)).
Proof.
  intros rep kd st ps. unfold product_alias_model. destruct (rep <? 0)%Z; [discriminate|]. intros _. cbn [fst].
  apply ckd_app_r; [apply yields_collect_alias|apply ckd_emit_sync].
Qed.

Theorem starmap_alias_checkpoints : forall f ko kd st ps,
  is_sync ko = true \/ yields (fst (starmap_alias_model f ko kd st ps)) = [] ->
  ckd (fst (starmap_alias_model f ko kd st ps)).
Proof.
  intros f ko kd st ps [H|H]; unfold starmap_alias_model in *; cbn [fst] in *.
  - destruct ps; cbn [starmap_alias_go]; now apply sync_pre.
  - destruct ps as [|i r]; cbn [starmap_alias_go] in *.
    + apply ckd_pre_ck.
    + revert H. ysimp. discriminate.
Qed.

Lemma compress_self_go_good k : forall n l, length l <= n -> good (compress_self_go k l false).
Proof.
  induction n as [|n IH]; intros l H.
  - destruct l; [cbn; apply good_tail|cbn in H; lia].
  - destruct l as [|x [|b r]]; cbn [compress_self_go]; [apply good_tail|apply good_app_r, good_tail|].
    cbn [length] in H. apply good_app_r, good_app_r. destruct (truthy b); [apply (good_yield [])|apply IH; lia].
Qed.

Theorem compress_self_checkpoints : forall s,
  is_sync (fst s) = true \/ yields (fst (compress_self_model s)) = [] ->
  ckd (fst (compress_self_model s)).
Proof.
  intros [k l] [H|H]; unfold compress_self_model in *; cbn [fst snd] in *.
  - destruct l as [|x [|b r]]; cbn [compress_self_go]; now apply sync_pre.
  - apply good_use; [apply (compress_self_go_good k (length l) l (le_n _))|exact H].
Qed.

(* ------------------------------------------------------------------------------------------------ *)
(* distinct sources: when no iterator occurs twice the shared-iterator semantics is the declarative
   zip_longest_spec (rows by index with fill values) of the plain theorem zip_longest_agrees *)
Definition z_okp (st : istore) (p : zpos) : Prop := p_active p = false -> st (p_idx p) = [].
Definition z_next (st : istore) (p : zpos) : zpos := mkP (p_idx p) (p_active p && negb (is_nil (st (p_idx p)))).

Lemma zs_round_distinct fill : forall ps st,
  NoDup (map p_idx ps) -> Forall (z_okp st) ps ->
  fst (fst (zs_round fill st ps)) = map (fun p => hd fill (st (p_idx p))) ps /\
  (forall j, ~ In j (map p_idx ps) -> snd (fst (zs_round fill st ps)) j = st j) /\
  (forall p, In p ps -> snd (fst (zs_round fill st ps)) (p_idx p) = List.tl (st (p_idx p))) /\
  snd (zs_round fill st ps) = map (z_next st) ps.
Proof.
  induction ps as [|p rest IH]; intros st Hnd Hok.
  - cbn. repeat split; auto. intros p [].
  - cbn [map] in Hnd. inversion Hnd as [|? ? Hni Hnd']; subst. inversion Hok as [|? ? Hp Hok']; subst.
    cbn [zs_round].
    assert (Hframe : forall (st2 : istore), (forall j, j <> p_idx p -> st2 j = st j) ->
                     Forall (z_okp st2) rest /\
                     map (fun q => hd fill (st2 (p_idx q))) rest = map (fun q => hd fill (st (p_idx q))) rest /\
                     map (z_next st2) rest = map (z_next st) rest /\
                     (forall q, In q rest -> st2 (p_idx q) = st (p_idx q))).
    { intros st2 H2.
      assert (Hq : forall q, In q rest -> st2 (p_idx q) = st (p_idx q)).
      { intros q Hq. apply H2. intros E. apply Hni. rewrite <- E. now apply in_map. }
      split; [|split; [|split]]; auto.
      - apply Forall_forall. intros q Hin Ha. rewrite (Hq q Hin). rewrite Forall_forall in Hok'. now apply Hok'.
      - apply map_ext_in. intros q Hin. now rewrite (Hq q Hin).
      - apply map_ext_in. intros q Hin. unfold z_next. now rewrite (Hq q Hin). }
    destruct (p_active p) eqn:Ea.
    + destruct (st (p_idx p)) as [|x xs] eqn:E.
      * destruct (IH st Hnd' Hok') as (V & F & P & N).
        destruct (zs_round fill st rest) as [[vs st'] ps']. cbn [fst snd map] in *.
        split; [rewrite E; cbn; now rewrite V|]. split; [intros j Hj; apply F; intros Hin; apply Hj; right; exact Hin|].
        split; [|rewrite N; f_equal; unfold z_next; rewrite Ea, E; reflexivity].
        intros q [<-|Hq]; [rewrite E; cbn; rewrite F by exact Hni; exact E|now apply P].
      * destruct (Hframe (upd st (p_idx p) xs)) as (Hok2 & Hv & Hn & Hq).
        { intros j Hj. now apply upd_other. }
        destruct (IH (upd st (p_idx p) xs) Hnd' Hok2) as (V & F & P & N).
        destruct (zs_round fill (upd st (p_idx p) xs) rest) as [[vs st'] ps']. cbn [fst snd map] in *.
        split; [rewrite E; cbn; now rewrite V, Hv|].
        split; [intros j Hj; rewrite F by (intros Hin; apply Hj; right; exact Hin); apply upd_other; intros ->; apply Hj; left; reflexivity|].
        split; [|rewrite N, Hn; f_equal; unfold z_next; rewrite Ea, E; cbn; destruct p; cbn in *; now subst].
        intros q [<-|Hin]; [rewrite E; cbn; rewrite F by exact Hni; apply upd_same|].
        rewrite P by exact Hin. now rewrite Hq.
    + destruct (IH st Hnd' Hok') as (V & F & P & N).
      destruct (zs_round fill st rest) as [[vs st'] ps']. cbn [fst snd map] in *.
      pose proof (Hp Ea) as E.
      split; [rewrite E; cbn; now rewrite V|]. split; [intros j Hj; apply F; intros Hin; apply Hj; right; exact Hin|].
      split; [|rewrite N; f_equal; unfold z_next; rewrite Ea; cbn; destruct p; cbn in *; now subst].
      intros q [<-|Hq]; [rewrite E; cbn; rewrite F by exact Hni; exact E|now apply P].
Qed.

Lemma existsb_next st ps : Forall (z_okp st) ps ->
  existsb p_active (map (z_next st) ps) = negb (forallb is_nil (map (fun p => st (p_idx p)) ps)).
Proof.
  induction 1 as [|p r Hp Hr IH]; [reflexivity|]. cbn [map existsb forallb]. rewrite IH.
  unfold z_next at 1. cbn [p_active]. unfold z_okp in Hp.
  destruct (p_active p); cbn [andb]; [now rewrite negb_andb|].
  rewrite (Hp eq_refl). reflexivity.
Qed.

Lemma zs_rows_distinct fill : forall fuel st ps,
  NoDup (map p_idx ps) -> Forall (z_okp st) ps -> max_len (map (fun p => st (p_idx p)) ps) < fuel ->
  zs_rows fuel fill st ps = Some (zl_rows fill (map (fun p => st (p_idx p)) ps)).
Proof.
  induction fuel as [|fuel IH]; intros st ps Hnd Hok Hf; [lia|].
  cbn [zs_rows]. destruct (zs_round_distinct fill ps st Hnd Hok) as (V & F & P & N).
  destruct (zs_round fill st ps) as [[vs st'] ps'] eqn:Zr. cbn [fst snd] in *. subst vs ps'.
  rewrite (existsb_next st ps Hok).
  destruct (forallb is_nil (map (fun p => st (p_idx p)) ps)) eqn:E; cbn [negb].
  - now rewrite zl_rows_nil.
  - assert (Hl : map (fun p => st' (p_idx p)) (map (z_next st) ps) = map (@List.tl Z) (map (fun p => st (p_idx p)) ps)).
    { rewrite !map_map. apply map_ext_in. intros p Hin. cbn. now apply P. }
    rewrite IH.
    + rewrite Hl, (zl_rows_cons _ _ E). do 2 f_equal. symmetry. apply map_map.
    + rewrite map_map. cbn. exact Hnd.
    + apply Forall_forall. intros q Hq. apply in_map_iff in Hq as (p & <- & Hin).
      unfold z_okp, z_next. cbn. rewrite (P p Hin). intros Ha.
      rewrite Forall_forall in Hok. specialize (Hok p Hin). unfold z_okp in Hok.
      destruct (p_active p); cbn in Ha; [|now rewrite Hok].
      destruct (st (p_idx p)); [reflexivity|discriminate].
    + rewrite Hl. rewrite (max_len_tl _ E) in Hf. lia.
Qed.

Lemma max_len_measure st ps : max_len (map st ps) <= alias_measure st ps.
Proof.
  induction ps as [|i r IH]; [cbn; lia|]. unfold alias_measure in *. cbn [map fold_right]. rewrite max_len_cons. lia.
Qed.

Theorem zip_longest_alias_spec_distinct : forall fill st ps, NoDup ps ->
  zip_longest_alias_spec fill st ps = Some (fst (zip_longest_spec fill (map st ps))).
Proof.
  intros fill st ps Hnd. unfold zip_longest_alias_spec.
  assert (Hm : map (fun p : zpos => st (p_idx p)) (map (fun i => mkP i true) ps) = map st ps).
  { rewrite map_map. apply map_ext. reflexivity. }
  rewrite zs_rows_distinct.
  - now rewrite Hm.
  - rewrite map_map. cbn. now rewrite map_id.
  - apply Forall_forall. intros q Hq. apply in_map_iff in Hq as (i & <- & _). unfold z_okp. cbn. discriminate.
  - rewrite Hm. pose proof (max_len_measure st ps). lia.
Qed.

Local Open Scope Z_scope.
(* the grouper recipe: one asynchronous iterator at two positions *)
Example grouper_example :
  zip_longest_alias_spec 9 (fun _ => [1; 2; 3]) [0; 0]%nat = Some [[1; 2]; [3; 9]] /\
  outcome (zip_longest_alias_model 9 (fun _ => KAsync) (fun _ => [1; 2; 3]) [0; 0]%nat) = ([[1; 2]; [3; 9]], None) /\
  zip_longest_alias_model 9 (fun _ => KAsync) (fun _ => []) [0; 0]%nat = ([Ck], None) /\
  zip_longest_alias_spec 9 (fun i => if Nat.eqb i 0 then [1; 2; 3] else [4]) [0; 1; 0]%nat
    = Some [[1; 4; 2]; [3; 9; 9]].
Proof. vm_compute. auto. Qed.
